//! Triage demonstrations that need `--features dates` (see kf_demos.rs for the conventions).
#![cfg(feature = "dates")]
use calamine::{Data, DataType, ExcelDateTime, ExcelDateTimeType};

#[test]
fn kf_dates_out_of_range_serials_yield_none_not_a_panic() {
    for v in [-1e300, -9.3e15, f64::NEG_INFINITY, 1e300, f64::INFINITY] {
        for t in [ExcelDateTimeType::DateTime, ExcelDateTimeType::TimeDelta] {
            for is_1904 in [false, true] {
                let d = ExcelDateTime::new(v, t.clone(), is_1904);
                let r = std::panic::catch_unwind(|| (d.as_datetime(), d.as_duration()));
                let (dt, _dur) = r.unwrap_or_else(|_| panic!("conversion of serial {:e} panicked", v));
                assert!(dt.is_none(), "serial {:e} is beyond the representable calendar", v);
                let cell = Data::Float(v);
                assert!(std::panic::catch_unwind(|| cell.as_datetime()).expect("must not panic").is_none());
            }
        }
    }
}
