//! Demonstrations for the findings reported by the static rules on the pinned tree.
//!
//! Triage aid only (DESIGN.md 5.1): these tests are *not* part of any registered check.  Each test
//! asserts the behaviour the property demands; on the pinned tree (before the `fix:` commits) each
//! one fails, which is what makes the corresponding static report a genuine defect rather than a
//! false alarm.  Run with findings/run_demo.sh <worktree>.
#![allow(dead_code)]

use calamine::{
    open_workbook_from_rs, Data, DataType, ExcelDateTime, ExcelDateTimeType, HeaderRow, Ods, RangeDeserializerBuilder, Reader, ReaderRef,
    Xls, Xlsb, Xlsx,
};
use std::io::{Cursor, Read, Write};

// ------------------------------------------------------------------------------------------
// helpers

fn fixture(name: &str) -> Vec<u8> {
    std::fs::read(format!("{}/tests/{}", env!("CARGO_MANIFEST_DIR"), name)).unwrap()
}

/// Re-write a zip, replacing / adding the given members.
fn rezip(src: &[u8], edits: &[(&str, Vec<u8>)]) -> Vec<u8> {
    let mut zin = zip::ZipArchive::new(Cursor::new(src.to_vec())).unwrap();
    let mut out = zip::ZipWriter::new(Cursor::new(Vec::new()));
    let opt = zip::write::SimpleFileOptions::default().compression_method(zip::CompressionMethod::Deflated);
    let names: Vec<String> = (0..zin.len()).map(|i| zin.by_index(i).unwrap().name().to_string()).collect();
    for n in &names {
        let mut data = Vec::new();
        zin.by_name(n).unwrap().read_to_end(&mut data).unwrap();
        if let Some((_, d)) = edits.iter().find(|(en, _)| en == n) {
            data = d.clone();
        }
        let o = if n == "mimetype" { opt.compression_method(zip::CompressionMethod::Stored) } else { opt };
        out.start_file(n.as_str(), o).unwrap();
        out.write_all(&data).unwrap();
    }
    for (en, d) in edits {
        if !names.iter().any(|n| n == en) {
            out.start_file(*en, opt).unwrap();
            out.write_all(d).unwrap();
        }
    }
    out.finish().unwrap().into_inner()
}

fn member(src: &[u8], name: &str) -> Vec<u8> {
    let mut zin = zip::ZipArchive::new(Cursor::new(src.to_vec())).unwrap();
    let mut data = Vec::new();
    zin.by_name(name).unwrap().read_to_end(&mut data).unwrap();
    data
}

fn with_timeout<T: Send + 'static>(secs: u64, f: impl FnOnce() -> T + Send + 'static) -> Option<T> {
    let (tx, rx) = std::sync::mpsc::channel();
    std::thread::spawn(move || {
        let _ = tx.send(f());
    });
    rx.recv_timeout(std::time::Duration::from_secs(secs)).ok()
}

fn minimal_xlsx(sheet_xml: &str, shared_strings: Option<&str>, workbook_xml: Option<&str>) -> Vec<u8> {
    let mut out = zip::ZipWriter::new(Cursor::new(Vec::new()));
    let opt = zip::write::SimpleFileOptions::default().compression_method(zip::CompressionMethod::Deflated);
    let mut put = |n: &str, d: &str| {
        out.start_file(n, opt).unwrap();
        out.write_all(d.as_bytes()).unwrap();
    };
    put("[Content_Types].xml", r#"<?xml version="1.0" encoding="UTF-8"?><Types xmlns="http://schemas.openxmlformats.org/package/2006/content-types"><Default Extension="rels" ContentType="application/vnd.openxmlformats-package.relationships+xml"/><Default Extension="xml" ContentType="application/xml"/></Types>"#);
    put("_rels/.rels", r#"<?xml version="1.0" encoding="UTF-8"?><Relationships xmlns="http://schemas.openxmlformats.org/package/2006/relationships"><Relationship Id="rId1" Type="http://schemas.openxmlformats.org/officeDocument/2006/relationships/officeDocument" Target="xl/workbook.xml"/></Relationships>"#);
    put("xl/_rels/workbook.xml.rels", r#"<?xml version="1.0" encoding="UTF-8"?><Relationships xmlns="http://schemas.openxmlformats.org/package/2006/relationships"><Relationship Id="rId1" Type="http://schemas.openxmlformats.org/officeDocument/2006/relationships/worksheet" Target="worksheets/sheet1.xml"/></Relationships>"#);
    put(
        "xl/workbook.xml",
        workbook_xml.unwrap_or(r#"<?xml version="1.0" encoding="UTF-8"?><workbook xmlns="http://schemas.openxmlformats.org/spreadsheetml/2006/main" xmlns:r="http://schemas.openxmlformats.org/officeDocument/2006/relationships"><sheets><sheet name="Sheet1" sheetId="1" r:id="rId1"/></sheets></workbook>"#),
    );
    if let Some(s) = shared_strings {
        put("xl/sharedStrings.xml", s);
    }
    put("xl/worksheets/sheet1.xml", sheet_xml);
    out.finish().unwrap().into_inner()
}

fn sheet(rows: &str) -> String {
    format!(r#"<?xml version="1.0" encoding="UTF-8"?><worksheet xmlns="http://schemas.openxmlformats.org/spreadsheetml/2006/main"><sheetData>{}</sheetData></worksheet>"#, rows)
}

// ---- BIFF8 + CFB builder (minimal) -------------------------------------------------------

fn rec(out: &mut Vec<u8>, typ: u16, data: &[u8]) {
    out.extend_from_slice(&typ.to_le_bytes());
    out.extend_from_slice(&(data.len() as u16).to_le_bytes());
    out.extend_from_slice(data);
}
fn bof(out: &mut Vec<u8>, dt: u16) {
    let mut d = Vec::new();
    d.extend_from_slice(&0x0600u16.to_le_bytes());
    d.extend_from_slice(&dt.to_le_bytes());
    d.extend_from_slice(&[0xBB, 0x0D, 0xCC, 0x07, 0, 0, 0, 0, 6, 0, 0, 0]);
    rec(out, 0x0809, &d);
}
fn xf_rec(out: &mut Vec<u8>, ifmt: u16) {
    let mut d = vec![0u8; 20];
    d[2..4].copy_from_slice(&ifmt.to_le_bytes());
    rec(out, 0x00E0, &d);
}
/// globals (with optional extra records before the BoundSheet) + one sheet substream
fn workbook_stream(extra_globals: &[(u16, Vec<u8>)], xf_fmts: &[u16], sheet_records: &[(u16, Vec<u8>)]) -> Vec<u8> {
    let mut g = Vec::new();
    bof(&mut g, 0x0005);
    for (t, d) in extra_globals {
        rec(&mut g, *t, d);
    }
    rec(&mut g, 0x0042, &1200u16.to_le_bytes());
    for f in xf_fmts {
        xf_rec(&mut g, *f);
    }
    let bs_pos = g.len() + 4;
    let mut bs = vec![0u8; 4];
    bs.extend_from_slice(&[0, 0]);
    bs.extend_from_slice(&[6, 0]);
    bs.extend_from_slice(b"Sheet1");
    rec(&mut g, 0x0085, &bs);
    rec(&mut g, 0x000A, &[]);
    let sheet_pos = g.len() as u32;
    g[bs_pos..bs_pos + 4].copy_from_slice(&sheet_pos.to_le_bytes());
    bof(&mut g, 0x0010);
    for (t, d) in sheet_records {
        rec(&mut g, *t, d);
    }
    rec(&mut g, 0x000A, &[]);
    g
}
fn cfb_with_workbook(stream: &[u8]) -> Vec<u8> {
    const FREE: u32 = 0xFFFF_FFFF;
    const EOC: u32 = 0xFFFF_FFFE;
    const FATSECT: u32 = 0xFFFF_FFFD;
    let mut stream = stream.to_vec();
    let size = stream.len().max(4096).next_multiple_of(512);
    stream.resize(size, 0);
    let n = size / 512;
    assert!(n <= 126);
    let mut h = vec![0u8; 512];
    h[..8].copy_from_slice(&[0xD0, 0xCF, 0x11, 0xE0, 0xA1, 0xB1, 0x1A, 0xE1]);
    h[24..26].copy_from_slice(&0x003Eu16.to_le_bytes());
    h[26..28].copy_from_slice(&3u16.to_le_bytes());
    h[28..30].copy_from_slice(&0xFFFEu16.to_le_bytes());
    h[30..32].copy_from_slice(&9u16.to_le_bytes());
    h[32..34].copy_from_slice(&6u16.to_le_bytes());
    h[44..48].copy_from_slice(&1u32.to_le_bytes());
    h[48..52].copy_from_slice(&1u32.to_le_bytes());
    h[56..60].copy_from_slice(&4096u32.to_le_bytes());
    h[60..64].copy_from_slice(&EOC.to_le_bytes());
    h[68..72].copy_from_slice(&EOC.to_le_bytes());
    for i in 0..109 {
        let v = if i == 0 { 0 } else { FREE };
        h[76 + 4 * i..80 + 4 * i].copy_from_slice(&v.to_le_bytes());
    }
    let mut fat = vec![FREE; 128];
    fat[0] = FATSECT;
    fat[1] = EOC;
    for i in 0..n {
        fat[2 + i] = if i + 1 == n { EOC } else { 3 + i as u32 };
    }
    fn dir_entry(name: &str, typ: u8, child: u32, start: u32, size: u32) -> Vec<u8> {
        let mut e = vec![0u8; 128];
        let utf16: Vec<u16> = name.encode_utf16().collect();
        for (i, c) in utf16.iter().enumerate() {
            e[2 * i..2 * i + 2].copy_from_slice(&c.to_le_bytes());
        }
        e[64..66].copy_from_slice(&((utf16.len() as u16 + 1) * 2).to_le_bytes());
        e[66] = typ;
        e[67] = 1;
        e[68..72].copy_from_slice(&0xFFFF_FFFFu32.to_le_bytes());
        e[72..76].copy_from_slice(&0xFFFF_FFFFu32.to_le_bytes());
        e[76..80].copy_from_slice(&child.to_le_bytes());
        e[116..120].copy_from_slice(&start.to_le_bytes());
        e[120..124].copy_from_slice(&size.to_le_bytes());
        e
    }
    let mut out = h;
    for v in &fat {
        out.extend_from_slice(&v.to_le_bytes());
    }
    out.extend(dir_entry("Root Entry", 5, 1, EOC, 0));
    out.extend(dir_entry("Workbook", 2, 0xFFFF_FFFF, 2, size as u32));
    out.extend(vec![0u8; 256]);
    out.extend(stream);
    out
}
fn number_rec(row: u16, col: u16, ixfe: u16, v: f64) -> (u16, Vec<u8>) {
    let mut d = Vec::new();
    d.extend_from_slice(&row.to_le_bytes());
    d.extend_from_slice(&col.to_le_bytes());
    d.extend_from_slice(&ixfe.to_le_bytes());
    d.extend_from_slice(&v.to_le_bytes());
    (0x0203, d)
}
/// FORMULA record whose cached value is the number `v` and whose expression is the integer literal 1
fn formula_num_rec(row: u16, col: u16, ixfe: u16, v: f64) -> (u16, Vec<u8>) {
    let mut d = Vec::new();
    d.extend_from_slice(&row.to_le_bytes());
    d.extend_from_slice(&col.to_le_bytes());
    d.extend_from_slice(&ixfe.to_le_bytes());
    d.extend_from_slice(&v.to_le_bytes());
    d.extend_from_slice(&0u16.to_le_bytes()); // grbit
    d.extend_from_slice(&0u32.to_le_bytes()); // chn
    d.extend_from_slice(&3u16.to_le_bytes()); // cce
    d.extend_from_slice(&[0x1E, 1, 0]); // PtgInt 1
    (0x0006, d)
}

// ------------------------------------------------------------------------------------------
// C06 / R-EOF

#[test]
fn kf_ods_truncated_table_terminates() {
    let src = fixture("date.ods");
    let content = String::from_utf8(member(&src, "content.xml")).unwrap();
    let cut = content.find("<table:table-row").expect("row");
    let truncated = content[..cut].to_string();
    let bytes = rezip(&src, &[("content.xml", truncated.into_bytes())]);
    let r = with_timeout(10, move || Ods::new(Cursor::new(bytes)).is_err());
    assert_eq!(r, Some(true), "Ods::new must return an error (not spin) on a content.xml cut inside <table:table>");
}

#[test]
fn kf_ods_truncated_annotation_terminates() {
    let src = fixture("date.ods");
    let content = String::from_utf8(member(&src, "content.xml")).unwrap();
    // a string cell whose content starts an annotation that never closes
    let cell = r#"<table:table-cell office:value-type="string"><office:annotation><text:p>note"#;
    let cut = content.find("<table:table-row").expect("row");
    let end = content[cut..].find('>').unwrap() + cut + 1;
    let truncated = format!("{}{}", &content[..end], cell);
    let bytes = rezip(&src, &[("content.xml", truncated.into_bytes())]);
    let r = with_timeout(10, move || Ods::new(Cursor::new(bytes)).is_err());
    assert_eq!(r, Some(true), "Ods::new must return an error (not spin) when the part ends inside <office:annotation>");
}

// C19 / R-SST

#[test]
fn kf_xlsx_empty_si_keeps_indices() {
    let sst = r#"<?xml version="1.0" encoding="UTF-8"?><sst xmlns="http://schemas.openxmlformats.org/spreadsheetml/2006/main" count="3" uniqueCount="3"><si/><si><t>one</t></si><si><t>two</t></si></sst>"#;
    let sh = sheet(r#"<row r="1"><c r="A1" t="s"><v>1</v></c><c r="B1" t="s"><v>2</v></c></row>"#);
    let bytes = minimal_xlsx(&sh, Some(sst), None);
    let mut wb: Xlsx<_> = Xlsx::new(Cursor::new(bytes)).unwrap();
    let r = wb.worksheet_range("Sheet1").unwrap();
    assert_eq!(r.get_value((0, 0)), Some(&Data::String("one".into())));
    assert_eq!(r.get_value((0, 1)), Some(&Data::String("two".into())));
}

// C19 / R-CDATA

#[test]
fn kf_xlsx_cdata_text() {
    let sst = r#"<?xml version="1.0" encoding="UTF-8"?><sst xmlns="http://schemas.openxmlformats.org/spreadsheetml/2006/main" count="1" uniqueCount="1"><si><t><![CDATA[a <b> & c]]></t></si></sst>"#;
    let sh = sheet(r#"<row r="1"><c r="A1" t="s"><v>0</v></c><c r="B1" t="inlineStr"><is><t><![CDATA[x&y]]></t></is></c><c r="C1" t="str"><f><![CDATA[A1&"z"]]></f><v><![CDATA[p<q]]></v></c></row>"#);
    let bytes = minimal_xlsx(&sh, Some(sst), None);
    let mut wb: Xlsx<_> = Xlsx::new(Cursor::new(bytes)).unwrap();
    let r = wb.worksheet_range("Sheet1").unwrap();
    assert_eq!(r.get_value((0, 0)), Some(&Data::String("a <b> & c".into())));
    assert_eq!(r.get_value((0, 1)), Some(&Data::String("x&y".into())));
    assert_eq!(r.get_value((0, 2)), Some(&Data::String("p<q".into())));
    let f = wb.worksheet_formula("Sheet1").unwrap();
    assert_eq!(f.get_value((0, 2)), Some(&"A1&\"z\"".to_string()));
}

#[test]
fn kf_ods_cdata_text() {
    let src = fixture("date.ods");
    let content = String::from_utf8(member(&src, "content.xml")).unwrap();
    let cut = content.find("<table:table-row").expect("row");
    let tail_start = content.find("</table:table>").unwrap();
    let row = r#"<table:table-row><table:table-cell office:value-type="string"><text:p><![CDATA[a<b]]></text:p></table:table-cell></table:table-row>"#;
    let doc = format!("{}{}{}", &content[..cut], row, &content[tail_start..]);
    let bytes = rezip(&src, &[("content.xml", doc.into_bytes())]);
    let mut wb: Ods<_> = Ods::new(Cursor::new(bytes)).unwrap();
    let name = wb.sheet_names()[0].clone();
    let r = wb.worksheet_range(&name).unwrap();
    assert_eq!(r.get_value((0, 0)), Some(&Data::String("a<b".into())));
}

// C01, C16 / R-NS

#[test]
fn kf_xlsx_prefixed_workbook_pr() {
    let wbx = r#"<?xml version="1.0" encoding="UTF-8"?><x:workbook xmlns:x="http://schemas.openxmlformats.org/spreadsheetml/2006/main" xmlns:r="http://schemas.openxmlformats.org/officeDocument/2006/relationships"><x:workbookPr date1904="1"/><x:sheets><x:sheet name="Sheet1" sheetId="1" r:id="rId1"/></x:sheets></x:workbook>"#;
    let styles = r#"<?xml version="1.0" encoding="UTF-8"?><styleSheet xmlns="http://schemas.openxmlformats.org/spreadsheetml/2006/main"><cellXfs count="2"><xf numFmtId="0"/><xf numFmtId="14"/></cellXfs></styleSheet>"#;
    let sh = sheet(r#"<row r="1"><c r="A1" s="1"><v>100</v></c></row>"#);
    let bytes = rezip(&minimal_xlsx(&sh, None, Some(wbx)), &[("xl/styles.xml", styles.as_bytes().to_vec())]);
    let mut wb: Xlsx<_> = Xlsx::new(Cursor::new(bytes)).unwrap();
    let r = wb.worksheet_range("Sheet1").unwrap();
    assert_eq!(
        r.get_value((0, 0)),
        Some(&Data::DateTime(ExcelDateTime::new(100.0, ExcelDateTimeType::DateTime, true))),
        "the 1904 date system declared by a prefixed <x:workbookPr> must reach the date cells"
    );
}

#[test]
fn kf_xlsx_extension_workbook_pr_keeps_1904() {
    // what Excel writes: the real workbookPr, then <x15:workbookPr chartTrackingRefBase="1"/> inside extLst
    let wbx = r#"<?xml version="1.0" encoding="UTF-8"?><workbook xmlns="http://schemas.openxmlformats.org/spreadsheetml/2006/main" xmlns:r="http://schemas.openxmlformats.org/officeDocument/2006/relationships"><workbookPr date1904="1"/><sheets><sheet name="Sheet1" sheetId="1" r:id="rId1"/></sheets><extLst><ext uri="{140A7094-0E35-4892-8432-C4D2E57EDEB5}" xmlns:x15="http://schemas.microsoft.com/office/spreadsheetml/2010/11/main"><x15:workbookPr chartTrackingRefBase="1"/></ext></extLst></workbook>"#;
    let styles = r#"<?xml version="1.0" encoding="UTF-8"?><styleSheet xmlns="http://schemas.openxmlformats.org/spreadsheetml/2006/main"><cellXfs count="2"><xf numFmtId="0"/><xf numFmtId="14"/></cellXfs></styleSheet>"#;
    let sh = sheet(r#"<row r="1"><c r="A1" s="1"><v>100</v></c></row>"#);
    let bytes = rezip(&minimal_xlsx(&sh, None, Some(wbx)), &[("xl/styles.xml", styles.as_bytes().to_vec())]);
    let mut wb: Xlsx<_> = Xlsx::new(Cursor::new(bytes)).unwrap();
    let r = wb.worksheet_range("Sheet1").unwrap();
    assert_eq!(
        r.get_value((0, 0)),
        Some(&Data::DateTime(ExcelDateTime::new(100.0, ExcelDateTimeType::DateTime, true))),
        "an extension <x15:workbookPr> without date1904 must not reset the 1904 date system"
    );
}

#[test]
fn kf_xlsx_prefixed_rich_shared_string() {
    let sst = r#"<?xml version="1.0" encoding="UTF-8"?><x:sst xmlns:x="http://schemas.openxmlformats.org/spreadsheetml/2006/main" count="1" uniqueCount="1"><x:si><x:r><x:t>ab</x:t></x:r><x:r><x:t>cd</x:t></x:r></x:si></x:sst>"#;
    let sh = sheet(r#"<row r="1"><c r="A1" t="s"><v>0</v></c></row>"#);
    let bytes = minimal_xlsx(&sh, Some(sst), None);
    let mut wb: Xlsx<_> = Xlsx::new(Cursor::new(bytes)).expect("a prefixed rich-text shared string must not break opening");
    let r = wb.worksheet_range("Sheet1").unwrap();
    assert_eq!(r.get_value((0, 0)), Some(&Data::String("abcd".into())));
}

// C01 / R-TAB-ERR

#[test]
fn kf_xlsx_getting_data_error_literal() {
    let sh = sheet(r#"<row r="1"><c r="A1" t="e"><v>#GETTING_DATA</v></c><c r="B1"><v>1</v></c></row>"#);
    let bytes = minimal_xlsx(&sh, None, None);
    let mut wb: Xlsx<_> = Xlsx::new(Cursor::new(bytes)).unwrap();
    let r = wb.worksheet_range("Sheet1").expect("#GETTING_DATA is one of the eight error literals");
    assert_eq!(r.get_value((0, 0)), Some(&Data::Error(calamine::CellErrorType::GettingData)));
}

// C08 / R-RANGEPRE

#[test]
fn kf_xls_header_row_past_end_is_empty() {
    let mut wb: Xls<_> = open_workbook_from_rs(Cursor::new(fixture("date.xls"))).unwrap();
    let name = wb.sheet_names()[0].clone();
    wb.with_header_row(HeaderRow::Row(1_000_000));
    let r = std::panic::catch_unwind(std::panic::AssertUnwindSafe(|| wb.worksheet_range(&name)));
    let r = r.expect("must not panic").unwrap();
    assert!(r.is_empty());
}

#[test]
fn kf_ods_header_row_past_end_is_empty() {
    let mut wb: Ods<_> = open_workbook_from_rs(Cursor::new(fixture("date.ods"))).unwrap();
    let name = wb.sheet_names()[0].clone();
    wb.with_header_row(HeaderRow::Row(1_000_000));
    let r = std::panic::catch_unwind(std::panic::AssertUnwindSafe(|| wb.worksheet_range(&name)));
    let r = r.expect("must not panic").unwrap();
    assert!(r.is_empty());
}

// C17 / R-TBL, R-RANGEPRE

fn temperature_with_table(table_xml_edit: impl Fn(String) -> String) -> Vec<u8> {
    let src = fixture("temperature-table.xlsx");
    let t = String::from_utf8(member(&src, "xl/tables/table1.xml")).unwrap();
    rezip(&src, &[("xl/tables/table1.xml", table_xml_edit(t).into_bytes())])
}

#[test]
fn kf_xlsx_table_totals_row_without_header() {
    // ref A1:B3, no header row, one totals row: data is rows 0..=1
    let bytes = temperature_with_table(|t| t.replace(r#"totalsRowShown="0""#, r#"headerRowCount="0" totalsRowCount="1""#));
    let mut wb: Xlsx<_> = Xlsx::new(Cursor::new(bytes)).unwrap();
    wb.load_tables().unwrap();
    let t = wb.table_by_name("Temperature").unwrap();
    assert_eq!(t.data().start(), Some((0, 0)));
    assert_eq!(t.data().end(), Some((1, 1)), "the totals row must be excluded from the data range");
}

#[test]
fn kf_xlsx_table_header_only_does_not_panic() {
    // ref A1:B1 with the (default) single header row: no data rows at all
    let bytes = temperature_with_table(|t| t.replace(r#"ref="A1:B3" totalsRowShown"#, r#"ref="A1:B1" totalsRowShown"#));
    let mut wb: Xlsx<_> = Xlsx::new(Cursor::new(bytes)).unwrap();
    wb.load_tables().unwrap();
    let r = std::panic::catch_unwind(std::panic::AssertUnwindSafe(|| wb.table_by_name("Temperature").map(|t| t.data().is_empty())));
    assert_eq!(r.expect("must not panic").unwrap(), true);
}

#[test]
fn kf_xlsx_headerless_table_on_sheet_without_values_does_not_panic() {
    // a freshly inserted table without header row (ref A1:B3) on a sheet that holds no value yet: the stored range is
    // empty (width 0) and the table rectangle contains (0, 0), the origin an empty range reports
    let src = fixture("temperature-table.xlsx");
    let t = String::from_utf8(member(&src, "xl/tables/table1.xml")).unwrap().replace(r#"totalsRowShown="0""#, r#"headerRowCount="0" totalsRowShown="0""#);
    let sh = String::from_utf8(member(&src, "xl/worksheets/sheet1.xml")).unwrap();
    let (a, rest) = sh.split_at(sh.find("<sheetData").unwrap());
    let b = &rest[rest.find("</sheetData>").unwrap() + "</sheetData>".len()..];
    let sh = format!("{a}<sheetData/>{b}");
    let bytes = rezip(&src, &[("xl/tables/table1.xml", t.into_bytes()), ("xl/worksheets/sheet1.xml", sh.into_bytes())]);
    let mut wb: Xlsx<_> = Xlsx::new(Cursor::new(bytes)).unwrap();
    wb.load_tables().unwrap();
    let r = std::panic::catch_unwind(std::panic::AssertUnwindSafe(|| wb.table_by_name("Temperature").map(|t| (t.data().start(), t.data().end()))));
    let (start, end) = r.expect("must not panic (Range::range on an empty range: chunks(0))").unwrap();
    assert_eq!((start, end), (Some((0, 0)), Some((2, 1))), "the data range of the table is its whole rectangle, all Empty");
    // and the helper itself
    let e: calamine::Range<Data> = calamine::Range::empty();
    let r = std::panic::catch_unwind(|| e.range((0, 0), (1, 1)));
    assert_eq!(r.expect("Range::range on an empty range must not panic").get_size(), (2, 2));
}

// C09 / R-ITER, R-POS

fn small_range() -> calamine::Range<Data> {
    // origin (3, 2): header + 3 rows, 3 columns; an error cell at (5, 4)
    let mut r = calamine::Range::new((3, 2), (6, 4));
    for (c, h) in ["a", "b", "c"].iter().enumerate() {
        r.set_value((3, 2 + c as u32), Data::String(h.to_string()));
    }
    for row in 4..=6u32 {
        for c in 0..3u32 {
            r.set_value((row, 2 + c), Data::Float((row * 10 + c) as f64));
        }
    }
    r.set_value((5, 4), Data::Error(calamine::CellErrorType::Div0));
    r
}

#[test]
fn kf_de_size_hint_brackets_remaining() {
    let r = small_range();
    let mut it = r.deserialize::<(f64, f64, f64)>().unwrap();
    for remaining in (1..=3usize).rev() {
        let (lo, hi) = it.size_hint();
        assert!(lo <= remaining && hi.map_or(true, |h| h >= remaining), "hint {:?} must bracket {}", (lo, hi), remaining);
        it.next().unwrap().ok();
    }
    let (lo, hi) = it.size_hint();
    assert_eq!((lo, hi.unwrap_or(0)), (0, 0));
}

#[test]
fn kf_de_header_only_size_hint_no_panic() {
    let mut r = calamine::Range::new((0, 0), (0, 1));
    r.set_value((0, 0), Data::String("a".into()));
    r.set_value((0, 1), Data::String("b".into()));
    let it = r.deserialize::<(f64, f64)>().unwrap();
    let h = std::panic::catch_unwind(std::panic::AssertUnwindSafe(|| it.size_hint()));
    assert_eq!(h.expect("size_hint must not panic"), (0, Some(0)));
}

#[test]
fn kf_de_cell_error_position() {
    let r = small_range();
    let rows: Vec<_> = r.deserialize::<(f64, f64, f64)>().unwrap().collect();
    assert!(rows[0].is_ok() && rows[2].is_ok());
    match &rows[1] {
        Err(calamine::DeError::CellError { err, pos }) => {
            assert_eq!(*err, calamine::CellErrorType::Div0);
            assert_eq!(*pos, (5, 4), "the error position must be the failing cell's absolute position");
        }
        other => panic!("expected CellError, got {:?}", other.as_ref().err()),
    }
}

// C03 / R-SIB-XLSB ; C10 / R-NUMCTOR (xlsb)

fn xlsb_records(b: &[u8]) -> Vec<(u16, Vec<u8>)> {
    let mut i = 0;
    let mut out = Vec::new();
    while i < b.len() {
        let mut t = b[i] as u16;
        i += 1;
        if t & 0x80 != 0 {
            t = (t & 0x7f) | (((b[i] & 0x7f) as u16) << 7);
            i += 1;
        }
        let mut l = 0usize;
        for k in 0..4 {
            let x = b[i];
            i += 1;
            l |= ((x & 0x7f) as usize) << (7 * k);
            if x & 0x80 == 0 {
                break;
            }
        }
        out.push((t, b[i..i + l].to_vec()));
        i += l;
    }
    out
}
fn xlsb_bytes(recs: &[(u16, Vec<u8>)]) -> Vec<u8> {
    let mut out = Vec::new();
    for (t, p) in recs {
        if *t >= 0x80 {
            out.push((*t & 0x7f) as u8 | 0x80);
            out.push((*t >> 7) as u8);
        } else {
            out.push(*t as u8);
        }
        let mut l = p.len();
        loop {
            let mut x = (l & 0x7f) as u8;
            l >>= 7;
            if l > 0 {
                x |= 0x80;
            }
            out.push(x);
            if l == 0 {
                break;
            }
        }
        out.extend_from_slice(p);
    }
    out
}

#[test]
fn kf_xlsb_formula_error_cell_has_value() {
    let src = fixture("date.xlsb");
    let mut recs = xlsb_records(&member(&src, "xl/worksheets/sheet1.bin"));
    // BrtFmlaError (0x000B) at column 2 of the last row: cached #DIV/0!, formula = PtgErr #DIV/0!
    let end = recs.iter().position(|r| r.0 == 0x92).unwrap();
    let mut p = Vec::new();
    p.extend_from_slice(&2u32.to_le_bytes());
    p.extend_from_slice(&0u32.to_le_bytes());
    p.push(0x07);
    p.extend_from_slice(&0u16.to_le_bytes());
    p.extend_from_slice(&2u32.to_le_bytes());
    p.extend_from_slice(&[0x1C, 0x07]);
    p.extend_from_slice(&0u32.to_le_bytes());
    recs.insert(end, (0x000B, p));
    let bytes = rezip(&src, &[("xl/worksheets/sheet1.bin", xlsb_bytes(&recs))]);
    let mut wb: Xlsb<_> = Xlsb::new(Cursor::new(bytes)).unwrap();
    let name = wb.sheet_names()[0].clone();
    let f = wb.worksheet_formula(&name).unwrap();
    assert_eq!(f.get_value((2, 2)), Some(&"#DIV/0!".to_string()));
    let r = wb.worksheet_range(&name).unwrap();
    assert_eq!(r.get_value((2, 2)), Some(&Data::Error(calamine::CellErrorType::Div0)), "a BrtFmlaError cell must contribute its cached error value");
}

#[test]
fn kf_xlsb_integer_rk_with_date_style() {
    let src = fixture("date.xlsb");
    let mut recs = xlsb_records(&member(&src, "xl/worksheets/sheet1.bin"));
    // first BrtCellRk (col 0, style 1 = a date format): store 44197 as an *integer* RK
    let i = recs.iter().position(|r| r.0 == 0x02).unwrap();
    let rk: u32 = ((44197u32) << 2) | 2;
    recs[i].1[8..12].copy_from_slice(&rk.to_le_bytes());
    let bytes = rezip(&src, &[("xl/worksheets/sheet1.bin", xlsb_bytes(&recs))]);
    let mut wb: Xlsb<_> = Xlsb::new(Cursor::new(bytes)).unwrap();
    let name = wb.sheet_names()[0].clone();
    let r = wb.worksheet_range(&name).unwrap();
    assert_eq!(
        r.get_value((0, 0)),
        Some(&Data::DateTime(ExcelDateTime::new(44197.0, ExcelDateTimeType::DateTime, false))),
        "a date-styled number must be DateTime however the number is encoded"
    );
}

// C10 / R-NUMCTOR (xls)

#[test]
fn kf_xls_formula_cached_number_with_date_style() {
    let stream = workbook_stream(&[], &[0, 14], &[number_rec(0, 0, 1, 44197.0), formula_num_rec(0, 1, 1, 44198.0), formula_num_rec(0, 2, 0, 7.5)]);
    let mut wb: Xls<_> = Xls::new(Cursor::new(cfb_with_workbook(&stream))).unwrap();
    let r = wb.worksheet_range("Sheet1").unwrap();
    let d = |v| Data::DateTime(ExcelDateTime::new(v, ExcelDateTimeType::DateTime, false));
    assert_eq!(r.get_value((0, 0)), Some(&d(44197.0)));
    assert_eq!(r.get_value((0, 2)), Some(&Data::Float(7.5)));
    assert_eq!(r.get_value((0, 1)), Some(&d(44198.0)), "a cached formula result styled as a date must be DateTime like a constant cell");
}

// C20 / R-PWD

#[test]
fn kf_xls_filepass_xor_obfuscation_is_password() {
    // FILEPASS with wEncryptionType = 0 (XOR obfuscation): key + verifier
    let stream = workbook_stream(&[(0x002F, vec![0, 0, 0x34, 0x12, 0x78, 0x56])], &[0], &[number_rec(0, 0, 0, 1.0)]);
    let r = Xls::new(Cursor::new(cfb_with_workbook(&stream)));
    assert!(matches!(r, Err(calamine::XlsError::Password)), "any FILEPASS record must be reported as XlsError::Password, got {:?}", r.err());
}

// C10 / R-FMTPREC (xlsb)

#[test]
fn kf_xlsb_declared_format_overrides_builtin_id() {
    // styles.bin re-declares id 14 (a built-in date id) as the plain number format "0.0000000000"
    let src = fixture("date.xlsb");
    let mut recs = xlsb_records(&member(&src, "xl/styles.bin"));
    let f = recs.iter().position(|r| r.0 == 0x2C).unwrap();
    recs[f].1[0..2].copy_from_slice(&14u16.to_le_bytes());
    let code: Vec<u16> = "0.0000000000".encode_utf16().collect();
    assert_eq!(code.len(), 12);
    for (i, c) in code.iter().enumerate() {
        recs[f].1[6 + 2 * i..8 + 2 * i].copy_from_slice(&c.to_le_bytes());
    }
    let begin = recs.iter().position(|r| r.0 == 0x269).unwrap();
    recs[begin + 2].1[2..4].copy_from_slice(&14u16.to_le_bytes()); // cell XF #1 -> ifmt 14
    let bytes = rezip(&src, &[("xl/styles.bin", xlsb_bytes(&recs))]);
    let mut wb: Xlsb<_> = Xlsb::new(Cursor::new(bytes)).unwrap();
    let name = wb.sheet_names()[0].clone();
    let r = wb.worksheet_range(&name).unwrap();
    assert!(
        matches!(r.get_value((0, 0)), Some(Data::Float(_))),
        "the style refers to the declared format \"0.0000000000\", not a date: got {:?}",
        r.get_value((0, 0))
    );
}

// C10 / C17 / R-UNESC

#[test]
fn kf_xlsx_format_code_with_quoted_literal_is_unescaped() {
    // "Week of "mmm d  -- in XML the quotes are written &quot; whose `;` must not end the format scan
    let styles = r#"<?xml version="1.0" encoding="UTF-8"?><styleSheet xmlns="http://schemas.openxmlformats.org/spreadsheetml/2006/main"><numFmts count="1"><numFmt numFmtId="164" formatCode="&quot;Week of &quot;mmm d"/></numFmts><cellXfs count="2"><xf numFmtId="0"/><xf numFmtId="164"/></cellXfs></styleSheet>"#;
    let sh = sheet(r#"<row r="1"><c r="A1" s="1"><v>44197</v></c></row>"#);
    let bytes = rezip(&minimal_xlsx(&sh, None, None), &[("xl/styles.xml", styles.as_bytes().to_vec())]);
    let mut wb: Xlsx<_> = Xlsx::new(Cursor::new(bytes)).unwrap();
    let r = wb.worksheet_range("Sheet1").unwrap();
    assert_eq!(r.get_value((0, 0)), Some(&Data::DateTime(ExcelDateTime::new(44197.0, ExcelDateTimeType::DateTime, false))));
}

#[test]
fn kf_xlsx_table_column_name_is_unescaped() {
    let bytes = temperature_with_table(|t| {
        let i = t.find("<tableColumn ").unwrap();
        let j = t[i..].find("name=\"").unwrap() + i + 6;
        let k = t[j..].find('"').unwrap() + j;
        format!("{}R&amp;D &lt;1&gt;{}", &t[..j], &t[k..])
    });
    let mut wb: Xlsx<_> = Xlsx::new(Cursor::new(bytes)).unwrap();
    wb.load_tables().unwrap();
    let t = wb.table_by_name("Temperature").unwrap();
    assert_eq!(t.columns()[0], "R&D <1>");
}

// C14 / R-TAB-PTG

fn formula_rec_rgce(row: u16, col: u16, rgce: &[u8]) -> (u16, Vec<u8>) {
    let mut d = Vec::new();
    d.extend_from_slice(&row.to_le_bytes());
    d.extend_from_slice(&col.to_le_bytes());
    d.extend_from_slice(&0u16.to_le_bytes());
    d.extend_from_slice(&1.0f64.to_le_bytes());
    d.extend_from_slice(&0u16.to_le_bytes());
    d.extend_from_slice(&0u32.to_le_bytes());
    d.extend_from_slice(&(rgce.len() as u16).to_le_bytes());
    d.extend_from_slice(rgce);
    (0x0006, d)
}

#[test]
fn kf_xls_reference_tokens_render_their_dollar_flags() {
    // ExternSheet with one XTI pointing at sheet 0
    let mut xti = 1u16.to_le_bytes().to_vec();
    xti.extend_from_slice(&[0, 0, 0, 0, 0, 0]);
    let recs = vec![
        formula_rec_rgce(0, 0, &[0x44, 0, 0, 0x00, 0x80]),                      // $A1  (column absolute, row relative)
        formula_rec_rgce(1, 0, &[0x44, 0, 0, 0x00, 0x40]),                      // A$1
        formula_rec_rgce(2, 0, &[0x44, 4, 0, 0x1B, 0xC0]),                      // AB5 relative
        formula_rec_rgce(3, 0, &[0x25, 0, 0, 1, 0, 0x00, 0xC0, 0x01, 0xC0]),     // A1:B2 relative
        formula_rec_rgce(4, 0, &[0x25, 0, 0, 1, 0, 0x00, 0x00, 0x01, 0x00]),     // $A$1:$B$2
        formula_rec_rgce(5, 0, &[0x5A, 0, 0, 0, 0, 0x01, 0xC0]),                // Sheet1!B1 relative
        formula_rec_rgce(6, 0, &[0x5B, 0, 0, 0, 0, 1, 0, 0x00, 0xC0, 0x01, 0xC0]), // Sheet1!A1:B2 relative
    ];
    let stream = workbook_stream(&[(0x0017, xti)], &[0], &recs);
    let mut wb: Xls<_> = Xls::new(Cursor::new(cfb_with_workbook(&stream))).unwrap();
    let f = wb.worksheet_formula("Sheet1").unwrap();
    let got: Vec<String> = (0..7).map(|r| f.get_value((r, 0)).cloned().unwrap_or_default()).collect();
    // column lettering beyond Z: see kf_column_letters_beyond_z
    assert_eq!(got[0], "$A1");
    assert_eq!(got[1], "A$1");
    assert!(!got[2].contains('$') && got[2].ends_with('5'), "{}", got[2]);
    assert_eq!(got[3], "A1:B2");
    assert_eq!(got[4], "$A$1:$B$2");
    assert_eq!(got[5], "Sheet1!B1");
    assert_eq!(got[6], "Sheet1!A1:B2");
}

#[test]
fn kf_xlsb_reference_tokens_render_their_dollar_flags() {
    let src = fixture("date.xlsb");
    let mut recs = xlsb_records(&member(&src, "xl/worksheets/sheet1.bin"));
    let end = recs.iter().position(|r| r.0 == 0x92).unwrap();
    let fmla = |col: u32, rgce: &[u8]| {
        let mut p = Vec::new();
        p.extend_from_slice(&col.to_le_bytes());
        p.extend_from_slice(&0u32.to_le_bytes());
        p.extend_from_slice(&1.0f64.to_le_bytes());
        p.extend_from_slice(&0u16.to_le_bytes());
        p.extend_from_slice(&(rgce.len() as u32).to_le_bytes());
        p.extend_from_slice(rgce);
        p.extend_from_slice(&0u32.to_le_bytes());
        (0x0009u16, p)
    };
    recs.insert(end, fmla(5, &[0x25, 0, 0, 0, 0, 1, 0, 0, 0, 0x00, 0xC0, 0x01, 0xC0])); // A1:B2 relative
    recs.insert(end, fmla(4, &[0x44, 0, 0, 0, 0, 0x00, 0x40]));                          // A$1
    recs.insert(end, fmla(3, &[0x44, 0, 0, 0, 0, 0x00, 0x80]));                          // $A1
    let bytes = rezip(&src, &[("xl/worksheets/sheet1.bin", xlsb_bytes(&recs))]);
    let mut wb: Xlsb<_> = Xlsb::new(Cursor::new(bytes)).unwrap();
    let name = wb.sheet_names()[0].clone();
    let f = wb.worksheet_formula(&name).unwrap();
    assert_eq!(f.get_value((2, 3)), Some(&"$A1".to_string()));
    assert_eq!(f.get_value((2, 4)), Some(&"A$1".to_string()));
    assert_eq!(f.get_value((2, 5)), Some(&"A1:B2".to_string()));
}

#[test]
fn kf_column_letters_beyond_z() {
    // xls: PtgRef (0x44) row 0, relative, columns 25, 26, 27, 51, 52, 255
    let cols: [(u8, &str); 6] = [(25, "Z1"), (26, "AA1"), (27, "AB1"), (51, "AZ1"), (52, "BA1"), (255, "IV1")];
    let recs: Vec<(u16, Vec<u8>)> = cols.iter().enumerate().map(|(i, (c, _))| formula_rec_rgce(i as u16, 0, &[0x44, 0, 0, *c, 0xC0])).collect();
    let stream = workbook_stream(&[], &[0], &recs);
    let mut wb: Xls<_> = Xls::new(Cursor::new(cfb_with_workbook(&stream))).unwrap();
    let f = wb.worksheet_formula("Sheet1").unwrap();
    for (i, (_, want)) in cols.iter().enumerate() {
        assert_eq!(f.get_value((i as u32, 0)).map(|s| s.as_str()), Some(*want), "xls column letters");
    }
    // xlsb: PtgRef with 14-bit columns 701 (ZZ), 702 (AAA), 16383 (XFD)
    let src = fixture("date.xlsb");
    let mut recs = xlsb_records(&member(&src, "xl/worksheets/sheet1.bin"));
    let end = recs.iter().position(|r| r.0 == 0x92).unwrap();
    let fmla = |col: u32, c: u16| {
        let mut p = Vec::new();
        p.extend_from_slice(&col.to_le_bytes());
        p.extend_from_slice(&0u32.to_le_bytes());
        p.extend_from_slice(&1.0f64.to_le_bytes());
        p.extend_from_slice(&0u16.to_le_bytes());
        let c = (c | 0xC000).to_le_bytes();
        let rgce = [0x44u8, 0, 0, 0, 0, c[0], c[1]];
        p.extend_from_slice(&(rgce.len() as u32).to_le_bytes());
        p.extend_from_slice(&rgce);
        p.extend_from_slice(&0u32.to_le_bytes());
        (0x0009u16, p)
    };
    recs.insert(end, fmla(5, 16383));
    recs.insert(end, fmla(4, 702));
    recs.insert(end, fmla(3, 701));
    let bytes = rezip(&src, &[("xl/worksheets/sheet1.bin", xlsb_bytes(&recs))]);
    let mut wb: Xlsb<_> = Xlsb::new(Cursor::new(bytes)).unwrap();
    let name = wb.sheet_names()[0].clone();
    let f = wb.worksheet_formula(&name).unwrap();
    assert_eq!(f.get_value((2, 3)), Some(&"ZZ1".to_string()));
    assert_eq!(f.get_value((2, 4)), Some(&"AAA1".to_string()));
    assert_eq!(f.get_value((2, 5)), Some(&"XFD1".to_string()));
}

#[test]
fn kf_xls_3d_area_tokens_go_through_extern_sheet() {
    // ExternSheet: XTI 0 points at a sheet index that does not exist, XTI 1 at sheet 0
    let mut xti = 2u16.to_le_bytes().to_vec();
    xti.extend_from_slice(&[0, 0, 5, 0, 5, 0]);
    xti.extend_from_slice(&[0, 0, 0, 0, 0, 0]);
    let recs = vec![
        formula_rec_rgce(0, 0, &[0x5A, 1, 0, 0, 0, 0x01, 0xC0]),                   // PtgRef3d   ixti 1 -> Sheet1!B1
        formula_rec_rgce(1, 0, &[0x5B, 1, 0, 0, 0, 1, 0, 0x00, 0xC0, 0x01, 0xC0]), // PtgArea3d  ixti 1 -> Sheet1!A1:B2
        formula_rec_rgce(2, 0, &[0x5C, 1, 0, 0, 0, 0, 0]),                         // PtgRefErr3d
        formula_rec_rgce(3, 0, &[0x5D, 1, 0, 0, 0, 0, 0, 0, 0, 0, 0]),             // PtgAreaErr3d
        formula_rec_rgce(4, 0, &[0x5B, 0, 0, 0, 0, 1, 0, 0x00, 0xC0, 0x01, 0xC0]), // PtgArea3d  ixti 0 -> no such sheet
    ];
    let stream = workbook_stream(&[(0x0017, xti)], &[0], &recs);
    let mut wb: Xls<_> = Xls::new(Cursor::new(cfb_with_workbook(&stream))).unwrap();
    let f = wb.worksheet_formula("Sheet1").unwrap();
    let got: Vec<String> = (0..5).map(|r| f.get_value((r, 0)).cloned().unwrap_or_default()).collect();
    assert_eq!(got[0], "Sheet1!B1");
    assert_eq!(got[1], "Sheet1!A1:B2", "PtgArea3d must resolve its ixti through the ExternSheet table like PtgRef3d");
    assert_eq!(got[2], "Sheet1!#REF!");
    assert_eq!(got[3], "Sheet1!#REF!");
    assert_eq!(got[4], "#REF!A1:B2");
}

#[test]
fn kf_xlsb_attr_choose_has_a_variable_jump_table() {
    // CHOOSE(2,10,20): PtgInt 2, PtgAttrChoose cOffset=2 + 3 offsets, PtgInt 10, PtgAttrGoto, PtgInt 20, PtgAttrGoto, PtgFuncVar(3, CHOOSE=100)
    let rgce: Vec<u8> = vec![
        0x1E, 2, 0, 0x19, 0x04, 2, 0, 6, 0, 13, 0, 20, 0, 0x1E, 10, 0, 0x19, 0x08, 10, 0, 0x1E, 20, 0, 0x19, 0x08, 3, 0, 0x42, 3, 100, 0,
    ];
    let src = fixture("date.xlsb");
    let mut recs = xlsb_records(&member(&src, "xl/worksheets/sheet1.bin"));
    let end = recs.iter().position(|r| r.0 == 0x92).unwrap();
    let mut p = Vec::new();
    p.extend_from_slice(&3u32.to_le_bytes());
    p.extend_from_slice(&0u32.to_le_bytes());
    p.extend_from_slice(&1.0f64.to_le_bytes());
    p.extend_from_slice(&0u16.to_le_bytes());
    p.extend_from_slice(&(rgce.len() as u32).to_le_bytes());
    p.extend_from_slice(&rgce);
    p.extend_from_slice(&0u32.to_le_bytes());
    recs.insert(end, (0x0009u16, p));
    let bytes = rezip(&src, &[("xl/worksheets/sheet1.bin", xlsb_bytes(&recs))]);
    let mut wb: Xlsb<_> = Xlsb::new(Cursor::new(bytes)).unwrap();
    let name = wb.sheet_names()[0].clone();
    let f = wb.worksheet_formula(&name).expect("a CHOOSE with two choices must decode");
    assert_eq!(f.get_value((2, 3)), Some(&"CHOOSE(2,10,20)".to_string()));
}

// C04 / ods::get_range

fn ods_with_rows(rows: &str) -> Vec<u8> {
    let src = fixture("date.ods");
    let content = String::from_utf8(member(&src, "content.xml")).unwrap();
    let cut = content.find("<table:table-row").expect("row");
    let tail = content.find("</table:table>").unwrap();
    rezip(&src, &[("content.xml", format!("{}{}{}", &content[..cut], rows, &content[tail..]).into_bytes())])
}

#[test]
fn kf_ods_interior_empty_row_when_first_column_is_not_a() {
    // B1 = x, row 2 empty, B3 = y, C3 = z : the used rectangle is B1:C3
    let s = |t: &str| format!(r#"<table:table-cell office:value-type="string"><text:p>{t}</text:p></table:table-cell>"#);
    let rows = format!(
        "<table:table-row><table:table-cell/>{}</table:table-row><table:table-row><table:table-cell table:number-columns-repeated=\"3\"/></table:table-row><table:table-row><table:table-cell/>{}{}</table:table-row>",
        s("x"), s("y"), s("z")
    );
    let mut wb: Ods<_> = Ods::new(Cursor::new(ods_with_rows(&rows))).unwrap();
    let name = wb.sheet_names()[0].clone();
    let r = wb.worksheet_range(&name).unwrap();
    assert_eq!((r.start(), r.end()), (Some((0, 1)), Some((2, 2))));
    assert_eq!(r.get_value((0, 1)), Some(&Data::String("x".into())));
    assert_eq!(r.get_value((1, 1)), Some(&Data::Empty));
    assert_eq!(r.get_value((2, 1)), Some(&Data::String("y".into())), "the interior empty row must be as wide as the used rectangle");
    assert_eq!(r.get_value((2, 2)), Some(&Data::String("z".into())));
    assert_eq!(r.rows().count(), 3);
}

#[test]
fn kf_ods_whitespace_and_comments_between_cells_are_ignored() {
    // the same two rows, once compact and once pretty-printed with a comment: both are well-formed ODF
    let s = |t: &str| format!(r#"<table:table-cell office:value-type="string"><text:p>{t}</text:p></table:table-cell>"#);
    let compact = format!("<table:table-row>{}{}</table:table-row><table:table-row>{}{}</table:table-row>", s("a"), s("b"), s("c"), s("d"));
    let pretty = format!(
        "<table:table-row>\n  {}\n  <!-- second column -->\n  {}\n</table:table-row>\n<table:table-row>\n  {}\n  {}\n</table:table-row>\n",
        s("a"), s("b"), s("c"), s("d")
    );
    let read = |rows: &str| {
        let mut wb: Ods<_> = Ods::new(Cursor::new(ods_with_rows(rows))).expect("a pretty-printed content.xml must open");
        let name = wb.sheet_names()[0].clone();
        wb.worksheet_range(&name).unwrap()
    };
    let a = read(&compact);
    let b = read(&pretty);
    assert_eq!((a.start(), a.end()), (b.start(), b.end()));
    assert_eq!(a.cells().collect::<Vec<_>>(), b.cells().collect::<Vec<_>>());
    assert_eq!(b.get_value((1, 1)), Some(&Data::String("d".into())));
}

// C13 / compound file layouts

/// version-4 compound file (4096-byte sectors) whose only stream is at least 4096 bytes long: no mini stream at all
fn cfb4_with_workbook(stream: &[u8]) -> Vec<u8> {
    const FREE: u32 = 0xFFFF_FFFF;
    const EOC: u32 = 0xFFFF_FFFE;
    const FATSECT: u32 = 0xFFFF_FFFD;
    let mut stream = stream.to_vec();
    let size = stream.len().max(4096).next_multiple_of(4096);
    stream.resize(size, 0);
    let n = size / 4096;
    let mut h = vec![0u8; 4096];
    h[..8].copy_from_slice(&[0xD0, 0xCF, 0x11, 0xE0, 0xA1, 0xB1, 0x1A, 0xE1]);
    h[24..26].copy_from_slice(&0x003Eu16.to_le_bytes());
    h[26..28].copy_from_slice(&4u16.to_le_bytes());
    h[28..30].copy_from_slice(&0xFFFEu16.to_le_bytes());
    h[30..32].copy_from_slice(&0x000Cu16.to_le_bytes());
    h[32..34].copy_from_slice(&6u16.to_le_bytes());
    h[40..44].copy_from_slice(&1u32.to_le_bytes()); // directory sectors
    h[44..48].copy_from_slice(&1u32.to_le_bytes()); // FAT sectors
    h[48..52].copy_from_slice(&1u32.to_le_bytes()); // first directory sector
    h[56..60].copy_from_slice(&4096u32.to_le_bytes());
    h[60..64].copy_from_slice(&EOC.to_le_bytes()); // no mini FAT
    h[68..72].copy_from_slice(&EOC.to_le_bytes()); // no DIFAT sector
    for i in 0..109 {
        let v = if i == 0 { 0 } else { FREE };
        h[76 + 4 * i..80 + 4 * i].copy_from_slice(&v.to_le_bytes());
    }
    let mut fat = vec![FREE; 1024];
    fat[0] = FATSECT;
    fat[1] = EOC;
    for i in 0..n {
        fat[2 + i] = if i + 1 == n { EOC } else { 3 + i as u32 };
    }
    let dir_entry = |name: &str, typ: u8, child: u32, start: u32, size: u32| {
        let mut e = vec![0u8; 128];
        let utf16: Vec<u16> = name.encode_utf16().collect();
        for (i, c) in utf16.iter().enumerate() {
            e[2 * i..2 * i + 2].copy_from_slice(&c.to_le_bytes());
        }
        e[64..66].copy_from_slice(&((utf16.len() as u16 + 1) * 2).to_le_bytes());
        e[66] = typ;
        e[67] = 1;
        e[68..72].copy_from_slice(&FREE.to_le_bytes());
        e[72..76].copy_from_slice(&FREE.to_le_bytes());
        e[76..80].copy_from_slice(&child.to_le_bytes());
        e[116..120].copy_from_slice(&start.to_le_bytes());
        e[120..124].copy_from_slice(&size.to_le_bytes());
        e
    };
    let mut out = h;
    for v in &fat {
        out.extend_from_slice(&v.to_le_bytes());
    }
    let mut dir = dir_entry("Root Entry", 5, 1, EOC, 0); // the root has no mini stream: start = ENDOFCHAIN
    dir.extend(dir_entry("Workbook", 2, FREE, 2, size as u32));
    dir.resize(4096, 0);
    out.extend(dir);
    out.extend(stream);
    out
}

#[test]
fn kf_cfb_v4_container_without_mini_stream() {
    let recs = vec![number_rec(0, 0, 0, 42.0)];
    let stream = workbook_stream(&[], &[0], &recs);
    // the same stream in a 512-byte-sector and in a 4096-byte-sector container
    let mut a: Xls<_> = Xls::new(Cursor::new(cfb_with_workbook(&stream))).unwrap();
    let mut b: Xls<_> = Xls::new(Cursor::new(cfb4_with_workbook(&stream))).expect("a version-4 compound file whose streams all live in regular sectors must open");
    let ra = a.worksheet_range("Sheet1").unwrap();
    let rb = b.worksheet_range("Sheet1").unwrap();
    assert_eq!(ra.get_value((0, 0)), Some(&Data::Float(42.0)));
    assert_eq!(rb.get_value((0, 0)), Some(&Data::Float(42.0)));
}

// C16 / C14: XLUnicodeStringNoCch stored as 16-bit characters

#[test]
fn kf_xls_utf16_defined_name_and_formula_string() {
    // ExternSheet: one XTI -> sheet 0
    let mut xti = 1u16.to_le_bytes().to_vec();
    xti.extend_from_slice(&[0, 0, 0, 0, 0, 0]);
    // Lbl: name "\u{3a9}ab" stored with fHighByte = 1, definition Sheet1!$A$1 (PtgRef3d)
    let name: Vec<u16> = "\u{3a9}ab".encode_utf16().collect();
    let rgce = [0x3Au8, 0, 0, 0, 0, 0, 0];
    let mut lbl = vec![0u8, 0, 0, name.len() as u8];
    lbl.extend_from_slice(&(rgce.len() as u16).to_le_bytes());
    lbl.extend_from_slice(&[0u8; 8]);
    lbl.push(1);
    for c in &name {
        lbl.extend_from_slice(&c.to_le_bytes());
    }
    lbl.extend_from_slice(&rgce);
    // formula  "\u{3a9}x"&"y" : PtgStr (16-bit), PtgStr (8-bit), PtgConcat
    let mut f = vec![0x17u8, 2, 1];
    for c in "\u{3a9}x".encode_utf16() {
        f.extend_from_slice(&c.to_le_bytes());
    }
    f.extend_from_slice(&[0x17, 1, 0, b'y', 0x08]);
    let recs = vec![formula_rec_rgce(0, 0, &f)];
    let stream = workbook_stream(&[(0x0017, xti), (0x0018, lbl)], &[0], &recs);
    let mut wb: Xls<_> = Xls::new(Cursor::new(cfb_with_workbook(&stream))).unwrap();
    let names = wb.defined_names().to_vec();
    assert_eq!(names.len(), 1);
    assert_eq!(names[0].0, "\u{3a9}ab", "a defined name stored as 16-bit characters must not be cut in half");
    let fm = wb.worksheet_formula("Sheet1").unwrap();
    assert_eq!(fm.get_value((0, 0)).map(|s| s.as_str()), Some("\"\u{3a9}x\"&\"y\""));
}

// C14: text outside the ASCII range in a shared formula

#[test]
fn kf_xlsx_shared_formula_with_non_ascii_text() {
    let sh = sheet(
        "<row r=\"1\"><c r=\"A1\"><f>1+1</f><v>2</v></c><c r=\"B1\" t=\"str\"><f t=\"shared\" ref=\"B1:B3\" si=\"0\">A1&amp;\"\u{e9}t\u{e9} \u{2211}\"</f><v>x</v></c></row>\
         <row r=\"2\"><c r=\"B2\" t=\"str\"><f t=\"shared\" si=\"0\"/><v>x</v></c></row>\
         <row r=\"3\"><c r=\"B3\" t=\"str\"><f t=\"shared\" si=\"0\"/><v>x</v></c></row>",
    );
    let mut wb: Xlsx<_> = Xlsx::new(Cursor::new(minimal_xlsx(&sh, None, None))).unwrap();
    let f = wb.worksheet_formula("Sheet1").expect("a string literal with non-ASCII characters in a shared formula must not make the whole sheet's formulas unreadable");
    assert_eq!(f.get_value((0, 0)).map(|s| s.as_str()), Some("1+1"));
    assert_eq!(f.get_value((0, 1)).map(|s| s.as_str()), Some("A1&\"\u{e9}t\u{e9} \u{2211}\""));
    assert_eq!(f.get_value((1, 1)).map(|s| s.as_str()), Some("A2&\"\u{e9}t\u{e9} \u{2211}\""));
    assert_eq!(f.get_value((2, 1)).map(|s| s.as_str()), Some("A3&\"\u{e9}t\u{e9} \u{2211}\""));
}

// shared formulas are looked up by their `si`, whatever the order and the magnitude of the indices

#[test]
fn kf_xlsx_shared_formula_masters_out_of_si_order() {
    // the master of group 1 comes before the master of group 0; a third group uses a large index
    let sh = sheet(
        "<row r=\"1\"><c r=\"A1\"><f t=\"shared\" ref=\"A1:A2\" si=\"1\">C1+1</f><v>1</v></c><c r=\"B1\"><f t=\"shared\" ref=\"B1:B2\" si=\"0\">D1*2</f><v>1</v></c><c r=\"E1\"><f t=\"shared\" ref=\"E1:E2\" si=\"70000\">F1-3</f><v>1</v></c></row>\
         <row r=\"2\"><c r=\"A2\"><f t=\"shared\" si=\"1\"/><v>1</v></c><c r=\"B2\"><f t=\"shared\" si=\"0\"/><v>1</v></c><c r=\"E2\"><f t=\"shared\" si=\"70000\"/><v>1</v></c></row>",
    );
    let mut wb: Xlsx<_> = Xlsx::new(Cursor::new(minimal_xlsx(&sh, None, None))).unwrap();
    let f = wb.worksheet_formula("Sheet1").unwrap();
    assert_eq!(f.get_value((1, 0)).map(|s| s.as_str()), Some("C2+1"), "member of group 1");
    assert_eq!(f.get_value((1, 1)).map(|s| s.as_str()), Some("D2*2"), "member of group 0");
    assert_eq!(f.get_value((1, 4)).map(|s| s.as_str()), Some("F2-3"), "member of group 70000");
}

// C10 / R-FMT-SCAN

#[test]
fn kf_format_escape_characters_inside_quotes_are_literal() {
    // "Date_"dd/mm/yyyy : the underscore sits inside a quoted literal, the closing quote must still close it
    let styles = r#"<?xml version="1.0" encoding="UTF-8"?><styleSheet xmlns="http://schemas.openxmlformats.org/spreadsheetml/2006/main"><numFmts count="2"><numFmt numFmtId="164" formatCode="&quot;Date_&quot;dd/mm/yyyy"/><numFmt numFmtId="165" formatCode="&quot;C:\&quot;yyyy"/></numFmts><cellXfs count="3"><xf numFmtId="0"/><xf numFmtId="164"/><xf numFmtId="165"/></cellXfs></styleSheet>"#;
    let sh = sheet(r#"<row r="1"><c r="A1" s="1"><v>44197</v></c><c r="B1" s="2"><v>44198</v></c></row>"#);
    let bytes = rezip(&minimal_xlsx(&sh, None, None), &[("xl/styles.xml", styles.as_bytes().to_vec())]);
    let mut wb: Xlsx<_> = Xlsx::new(Cursor::new(bytes)).unwrap();
    let r = wb.worksheet_range("Sheet1").unwrap();
    let d = |v| Data::DateTime(ExcelDateTime::new(v, ExcelDateTimeType::DateTime, false));
    assert_eq!(r.get_value((0, 0)), Some(&d(44197.0)));
    assert_eq!(r.get_value((0, 1)), Some(&d(44198.0)));
}
