// ---------------------------------------------------------------------------
// Triage demonstrations for the VBA reader (C18).  Helpers written by a seeding sub-agent (MS-OVBA compressor (explicit tokenisation), dir stream builder and a
// minimal MS-CFB (v3, 512-byte sectors, mini stream supported) writer.
// Only std + calamine are used.
// ---------------------------------------------------------------------------
#![allow(dead_code)]

use calamine::vba::VbaProject;
use std::io::Cursor;

#[derive(Clone, Copy, Debug)]
enum Tok {
    Lit(u8),
    Copy { off: usize, len: usize },
}

/// MS-OVBA 2.4.1.3.19.1 CopyToken Help: number of offset bits for a token that
/// starts when `dl` bytes of the current chunk are already decompressed
fn bit_count(dl: usize) -> usize {
    let mut b = 4;
    while (1usize << b) < dl {
        b += 1;
    }
    b
}

/// All literal tokens
fn tok_literal(src: &[u8]) -> Vec<Tok> {
    src.iter().map(|b| Tok::Lit(*b)).collect()
}

/// Greedy longest-match tokenisation of one chunk (<= 4096 source bytes)
fn tok_greedy(src: &[u8]) -> Vec<Tok> {
    assert!(src.len() <= 4096);
    let mut toks = Vec::new();
    let mut p = 0;
    while p < src.len() {
        let mut best = (0usize, 0usize); // (len, off)
        if p > 0 {
            let b = bit_count(p);
            let max_len = ((0xFFFFusize >> b) + 3).min(src.len() - p);
            for cand in 0..p {
                let mut l = 0;
                while l < max_len && src[cand + l] == src[p + l] {
                    l += 1;
                }
                if l > best.0 {
                    best = (l, p - cand);
                }
            }
        }
        if best.0 >= 3 {
            toks.push(Tok::Copy {
                off: best.1,
                len: best.0,
            });
            p += best.0;
        } else {
            toks.push(Tok::Lit(src[p]));
            p += 1;
        }
    }
    toks
}

/// Reference expansion of a token list (used to sanity check the test's own encoder)
fn expand(toks: &[Tok]) -> Vec<u8> {
    let mut out = Vec::new();
    for t in toks {
        match *t {
            Tok::Lit(b) => out.push(b),
            Tok::Copy { off, len } => {
                for _ in 0..len {
                    let b = out[out.len() - off];
                    out.push(b);
                }
            }
        }
    }
    out
}

/// Encodes one compressed chunk (header included) from its token list
fn chunk_compressed(toks: &[Tok]) -> Vec<u8> {
    let mut data = Vec::new();
    let mut dl = 0usize;
    for group in toks.chunks(8) {
        let flag_pos = data.len();
        data.push(0u8);
        for (k, t) in group.iter().enumerate() {
            match *t {
                Tok::Lit(b) => {
                    data.push(b);
                    dl += 1;
                }
                Tok::Copy { off, len } => {
                    let b = bit_count(dl);
                    assert!(dl > 0 && off >= 1 && off <= dl && off <= (1 << b));
                    assert!(len >= 3 && len <= (0xFFFF >> b) + 3);
                    let tok = (((off - 1) << (16 - b)) | (len - 3)) as u16;
                    data.extend_from_slice(&tok.to_le_bytes());
                    data[flag_pos] |= 1 << k;
                    dl += len;
                }
            }
        }
    }
    assert!(dl <= 4096, "a chunk holds at most 4096 decompressed bytes");
    assert!(data.len() <= 4096, "compressed data too large: must be a raw chunk");
    // CompressedChunkSize = (2 + data.len()) - 3, signature 0b011, flag 1
    let header: u16 = 0x8000 | 0x3000 | (data.len() + 2 - 3) as u16;
    let mut out = header.to_le_bytes().to_vec();
    out.extend_from_slice(&data);
    out
}

/// Encodes one raw chunk (exactly 4096 source bytes)
fn chunk_raw(src: &[u8]) -> Vec<u8> {
    assert_eq!(src.len(), 4096);
    // CompressedChunkSize = 4098 - 3 = 4095, signature 0b011, flag 0
    let header: u16 = 0x3000 | 0x0FFF;
    let mut out = header.to_le_bytes().to_vec();
    out.extend_from_slice(src);
    out
}

/// A compressed container out of already encoded chunks
fn container(chunks: &[Vec<u8>]) -> Vec<u8> {
    let mut out = vec![0x01u8];
    for c in chunks {
        out.extend_from_slice(c);
    }
    out
}

/// Compressed container, greedy tokenisation of every 4096-byte chunk
fn compress_greedy(src: &[u8]) -> Vec<u8> {
    let chunks: Vec<Vec<u8>> = src
        .chunks(4096)
        .map(|c| chunk_compressed(&tok_greedy(c)))
        .collect();
    container(&chunks)
}

// ------------------------------- dir stream --------------------------------

fn rec(out: &mut Vec<u8>, id: u16, data: &[u8]) {
    out.extend_from_slice(&id.to_le_bytes());
    out.extend_from_slice(&(data.len() as u32).to_le_bytes());
    out.extend_from_slice(data);
}

fn utf16(s: &str) -> Vec<u8> {
    s.encode_utf16().flat_map(|u| u.to_le_bytes()).collect()
}

struct ModuleSpec {
    name: &'static str,
    stream_name: &'static str,
    text_offset: u32,
}

/// Uncompressed MS-OVBA dir stream: code page 1252, one registered reference
/// (`stdole`), the given modules
fn dir_stream(modules: &[ModuleSpec]) -> Vec<u8> {
    let mut d = Vec::new();
    rec(&mut d, 0x0001, &1u32.to_le_bytes()); // PROJECTSYSKIND
    rec(&mut d, 0x0002, &0x0409u32.to_le_bytes()); // PROJECTLCID
    rec(&mut d, 0x0014, &0x0409u32.to_le_bytes()); // PROJECTLCIDINVOKE
    rec(&mut d, 0x0003, &1252u16.to_le_bytes()); // PROJECTCODEPAGE
    rec(&mut d, 0x0004, b"VBAProject"); // PROJECTNAME
    rec(&mut d, 0x0005, b""); // PROJECTDOCSTRING
    rec(&mut d, 0x0040, b"");
    rec(&mut d, 0x0006, b""); // PROJECTHELPFILEPATH
    rec(&mut d, 0x003D, b"");
    rec(&mut d, 0x0007, &0u32.to_le_bytes()); // PROJECTHELPCONTEXT
    rec(&mut d, 0x0008, &0u32.to_le_bytes()); // PROJECTLIBFLAGS
    d.extend_from_slice(&0x0009u16.to_le_bytes()); // PROJECTVERSION
    d.extend_from_slice(&4u32.to_le_bytes());
    d.extend_from_slice(&1u32.to_le_bytes());
    d.extend_from_slice(&1u16.to_le_bytes());
    rec(&mut d, 0x000C, b""); // PROJECTCONSTANTS
    rec(&mut d, 0x003C, b"");

    // REFERENCE: name + registered
    rec(&mut d, 0x0016, b"stdole");
    rec(&mut d, 0x003E, &utf16("stdole"));
    let libid: &[u8] =
        b"*\\G{00020430-0000-0000-C000-000000000046}#2.0#0#C:\\Windows\\System32\\stdole2.tlb#OLE Automation";
    d.extend_from_slice(&0x000Du16.to_le_bytes());
    d.extend_from_slice(&((4 + libid.len() + 6) as u32).to_le_bytes());
    d.extend_from_slice(&(libid.len() as u32).to_le_bytes());
    d.extend_from_slice(libid);
    d.extend_from_slice(&[0u8; 6]);

    // PROJECTMODULES
    rec(&mut d, 0x000F, &(modules.len() as u16).to_le_bytes());
    rec(&mut d, 0x0013, &0xFFFFu16.to_le_bytes()); // PROJECTCOOKIE
    for m in modules {
        rec(&mut d, 0x0019, m.name.as_bytes());
        rec(&mut d, 0x0047, &utf16(m.name));
        rec(&mut d, 0x001A, m.stream_name.as_bytes());
        rec(&mut d, 0x0032, &utf16(m.stream_name));
        rec(&mut d, 0x001C, b"");
        rec(&mut d, 0x0048, b"");
        rec(&mut d, 0x0031, &m.text_offset.to_le_bytes()); // MODULEOFFSET
        rec(&mut d, 0x001E, &0u32.to_le_bytes()); // MODULEHELPCONTEXT
        rec(&mut d, 0x002C, &0xFFFFu16.to_le_bytes()); // MODULECOOKIE
        rec(&mut d, 0x0021, b""); // MODULETYPE procedural
        rec(&mut d, 0x002B, b""); // terminator
    }
    rec(&mut d, 0x0010, b""); // dir terminator
    d
}

// ------------------------------- CFB writer --------------------------------

const FREESECT: u32 = 0xFFFF_FFFF;
const ENDOFCHAIN: u32 = 0xFFFF_FFFE;
const FATSECT: u32 = 0xFFFF_FFFD;

fn pad_to(v: &mut Vec<u8>, m: usize) {
    while v.len() % m != 0 {
        v.push(0);
    }
}

/// Writes a version 3 compound file holding the given streams (flat, all children of
/// the root entry). Streams shorter than 4096 bytes go to the mini stream.
fn build_cfb(streams: &[(&str, Vec<u8>)]) -> Vec<u8> {
    let mut sectors: Vec<u8> = Vec::new(); // sector area (after the header)
    let mut fat: Vec<u32> = Vec::new();

    fn alloc(sectors: &mut Vec<u8>, fat: &mut Vec<u32>, data: &[u8]) -> u32 {
        if data.is_empty() {
            return ENDOFCHAIN;
        }
        let first = fat.len() as u32;
        let n = (data.len() + 511) / 512;
        for k in 0..n {
            fat.push(if k + 1 == n {
                ENDOFCHAIN
            } else {
                first + k as u32 + 1
            });
        }
        sectors.extend_from_slice(data);
        pad_to(sectors, 512);
        first
    }

    // stream placement
    let mut mini: Vec<u8> = Vec::new();
    let mut minifat: Vec<u32> = Vec::new();
    let mut entries: Vec<(String, u32, usize)> = Vec::new(); // name, start, len
    for (name, data) in streams {
        assert!(!data.is_empty());
        if data.len() < 4096 {
            let first = minifat.len() as u32;
            let n = (data.len() + 63) / 64;
            for k in 0..n {
                minifat.push(if k + 1 == n {
                    ENDOFCHAIN
                } else {
                    first + k as u32 + 1
                });
            }
            mini.extend_from_slice(data);
            pad_to(&mut mini, 64);
            entries.push((name.to_string(), first, data.len()));
        } else {
            let first = alloc(&mut sectors, &mut fat, data);
            entries.push((name.to_string(), first, data.len()));
        }
    }

    let mini_len = mini.len();
    let mini_start = alloc(&mut sectors, &mut fat, &mini);
    let mut minifat_bytes: Vec<u8> = minifat.iter().flat_map(|v| v.to_le_bytes()).collect();
    while minifat_bytes.len() % 512 != 0 {
        minifat_bytes.extend_from_slice(&FREESECT.to_le_bytes());
    }
    let minifat_sectors = minifat_bytes.len() / 512;
    let minifat_start = alloc(&mut sectors, &mut fat, &minifat_bytes);

    // directory
    fn dir_entry(name: &str, typ: u8, child: u32, right: u32, start: u32, len: usize) -> Vec<u8> {
        let mut e = vec![0u8; 128];
        let n = utf16(name);
        assert!(n.len() <= 62);
        e[..n.len()].copy_from_slice(&n);
        e[64..66].copy_from_slice(&((n.len() + 2) as u16).to_le_bytes());
        e[66] = typ;
        e[67] = 1; // black
        e[68..72].copy_from_slice(&FREESECT.to_le_bytes()); // left
        e[72..76].copy_from_slice(&right.to_le_bytes());
        e[76..80].copy_from_slice(&child.to_le_bytes());
        e[116..120].copy_from_slice(&start.to_le_bytes());
        e[120..124].copy_from_slice(&(len as u32).to_le_bytes());
        e
    }
    let mut dir = dir_entry("Root Entry", 5, 1, FREESECT, mini_start, mini_len);
    for (k, (name, start, len)) in entries.iter().enumerate() {
        let right = if k + 1 == entries.len() {
            FREESECT
        } else {
            k as u32 + 2
        };
        dir.extend_from_slice(&dir_entry(name, 2, FREESECT, right, *start, *len));
    }
    while dir.len() % 512 != 0 {
        // unused entry
        let mut e = vec![0u8; 128];
        e[68..72].copy_from_slice(&FREESECT.to_le_bytes());
        e[72..76].copy_from_slice(&FREESECT.to_le_bytes());
        e[76..80].copy_from_slice(&FREESECT.to_le_bytes());
        dir.extend_from_slice(&e);
    }
    let dir_start = alloc(&mut sectors, &mut fat, &dir);

    // FAT sectors
    let mut nfat = 1;
    while nfat * 128 < fat.len() + nfat {
        nfat += 1;
    }
    assert!(nfat <= 109);
    let fat_first = fat.len() as u32;
    for _ in 0..nfat {
        fat.push(FATSECT);
    }
    while fat.len() % 128 != 0 {
        fat.push(FREESECT);
    }
    for v in &fat {
        sectors.extend_from_slice(&v.to_le_bytes());
    }

    // header
    let mut h = vec![0u8; 512];
    h[..8].copy_from_slice(&[0xD0, 0xCF, 0x11, 0xE0, 0xA1, 0xB1, 0x1A, 0xE1]);
    h[24..26].copy_from_slice(&0x003Eu16.to_le_bytes());
    h[26..28].copy_from_slice(&3u16.to_le_bytes());
    h[28..30].copy_from_slice(&0xFFFEu16.to_le_bytes());
    h[30..32].copy_from_slice(&9u16.to_le_bytes());
    h[32..34].copy_from_slice(&6u16.to_le_bytes());
    h[40..44].copy_from_slice(&0u32.to_le_bytes()); // dir sectors (0 in v3)
    h[44..48].copy_from_slice(&(nfat as u32).to_le_bytes());
    h[48..52].copy_from_slice(&dir_start.to_le_bytes());
    h[56..60].copy_from_slice(&4096u32.to_le_bytes());
    h[60..64].copy_from_slice(&minifat_start.to_le_bytes());
    h[64..68].copy_from_slice(&(minifat_sectors as u32).to_le_bytes());
    h[68..72].copy_from_slice(&ENDOFCHAIN.to_le_bytes());
    h[72..76].copy_from_slice(&0u32.to_le_bytes());
    for k in 0..109 {
        let v = if k < nfat {
            fat_first + k as u32
        } else {
            FREESECT
        };
        h[76 + 4 * k..80 + 4 * k].copy_from_slice(&v.to_le_bytes());
    }
    h.extend_from_slice(&sectors);
    h
}

/// Builds a vbaProject.bin with one module per `(name, compressed container)`;
/// every module stream starts with `junk` bytes of performance cache before the
/// compressed source (MODULEOFFSET = junk)
fn build_project(modules: &[(&'static str, Vec<u8>)], junk: usize) -> Vec<u8> {
    let specs: Vec<ModuleSpec> = modules
        .iter()
        .map(|(n, _)| ModuleSpec {
            name: n,
            stream_name: n,
            text_offset: junk as u32,
        })
        .collect();
    let dir = compress_greedy(&dir_stream(&specs));
    let mut streams: Vec<(&str, Vec<u8>)> = vec![("dir", dir)];
    for (n, c) in modules {
        let mut s: Vec<u8> = (0..junk).map(|k| (k * 7 + 3) as u8).collect();
        s.extend_from_slice(c);
        streams.push((n, s));
    }
    build_cfb(&streams)
}

fn open_project(bin: &[u8]) -> VbaProject {
    VbaProject::new(&mut Cursor::new(bin), bin.len()).expect("vba project")
}

/// Deterministic pseudo random bytes in `lo..=hi`
fn prng(seed: u32, n: usize, lo: u8, hi: u8) -> Vec<u8> {
    let mut x = seed;
    (0..n)
        .map(|_| {
            x ^= x << 13;
            x ^= x >> 17;
            x ^= x << 5;
            lo + (x % (hi - lo + 1) as u32) as u8
        })
        .collect()
}

/// Common checks: names, reference, raw content and decoded text of every module
fn check(bin: &[u8], expected: &[(&str, &[u8])]) {
    let vba = open_project(bin);
    let mut names: Vec<&str> = expected.iter().map(|(n, _)| *n).collect();
    names.sort();
    assert_eq!(vba.get_module_names(), names);
    let refs = vba.get_references();
    assert_eq!(refs.len(), 1);
    assert_eq!(refs[0].name, "stdole");
    assert_eq!(refs[0].description, "OLE Automation");
    for (n, src) in expected {
        let raw = vba.get_module_raw(n).unwrap();
        assert_eq!(raw.len(), src.len(), "module {} length", n);
        assert!(raw == *src, "module {} content differs", n);
        // sources used here are ASCII: text == bytes
        assert_eq!(vba.get_module(n).unwrap().as_bytes(), *src);
    }
}

// ---------------------------------------------------------------------------
// a non-final compressed chunk whose token count is a multiple of 8

#[test]
fn kf_vba_chunk_with_token_count_multiple_of_eight() {
    // chunk 1: 8 tokens (exactly one flag group) expanding to 4096 bytes; chunk 2: a literal line
    let t1 = vec![
        Tok::Lit(b'x'),
        Tok::Copy { off: 1, len: 4089 },
        Tok::Lit(b'a'),
        Tok::Lit(b'b'),
        Tok::Lit(b'c'),
        Tok::Lit(b'd'),
        Tok::Lit(b'e'),
        Tok::Lit(b'f'),
    ];
    assert_eq!(t1.len() % 8, 0);
    assert_eq!(expand(&t1).len(), 4096);
    let t2 = tok_literal(b"Sub Last()\r\nEnd Sub\r\n");
    let mut src = expand(&t1);
    src.extend(expand(&t2));
    let c = container(&[chunk_compressed(&t1), chunk_compressed(&t2)]);
    let bin = build_project(&[("Module1", c)], 0);
    let r = std::panic::catch_unwind(|| check(&bin, &[("Module1", &src)]));
    assert!(r.is_ok(), "a valid two-chunk container whose first chunk ends on a full flag group must decompress");
}

/// control: the same content with 9 tokens in the first chunk
#[test]
fn kf_vba_chunk_with_other_token_count_control() {
    let t1 = vec![
        Tok::Lit(b'x'),
        Tok::Copy { off: 1, len: 4088 },
        Tok::Lit(b'x'),
        Tok::Lit(b'a'),
        Tok::Lit(b'b'),
        Tok::Lit(b'c'),
        Tok::Lit(b'd'),
        Tok::Lit(b'e'),
        Tok::Lit(b'f'),
    ];
    assert_eq!(expand(&t1).len(), 4096);
    let t2 = tok_literal(b"Sub Last()\r\nEnd Sub\r\n");
    let mut src = expand(&t1);
    src.extend(expand(&t2));
    let c = container(&[chunk_compressed(&t1), chunk_compressed(&t2)]);
    let bin = build_project(&[("Module1", c)], 0);
    check(&bin, &[("Module1", &src)]);
}
