//! Demonstrations for the C06 findings recorded in known_findings.json (triage aid, see kf_demos.rs).
//! Every test asserts what C06 demands (no panic, no hang, memory in proportion to the input) and
//! therefore FAILS on the tree as long as the finding is open.
#![allow(dead_code)]

use calamine::{open_workbook_auto_from_rs, Ods, Reader, ReaderRef, Xls, Xlsb, Xlsx};
use std::alloc::{GlobalAlloc, Layout, System};
use std::io::{Cursor, Read, Write};
use std::sync::atomic::{AtomicUsize, Ordering};

// ---- allocation accounting ----------------------------------------------------------------
struct Counting;
static CUR: AtomicUsize = AtomicUsize::new(0);
static PEAK: AtomicUsize = AtomicUsize::new(0);
static BIGGEST: AtomicUsize = AtomicUsize::new(0);
unsafe impl GlobalAlloc for Counting {
    unsafe fn alloc(&self, l: Layout) -> *mut u8 {
        BIGGEST.fetch_max(l.size(), Ordering::Relaxed);
        // refuse absurd requests instead of taking the machine down: the caller sees an allocation failure
        if l.size() > (1usize << 32) {
            return std::ptr::null_mut();
        }
        let p = System.alloc(l);
        if !p.is_null() {
            let c = CUR.fetch_add(l.size(), Ordering::Relaxed) + l.size();
            PEAK.fetch_max(c, Ordering::Relaxed);
        }
        p
    }
    unsafe fn dealloc(&self, p: *mut u8, l: Layout) {
        CUR.fetch_sub(l.size(), Ordering::Relaxed);
        System.dealloc(p, l)
    }
}
#[global_allocator]
static A: Counting = Counting;

fn reset_peak() {
    PEAK.store(CUR.load(Ordering::Relaxed), Ordering::Relaxed);
    BIGGEST.store(0, Ordering::Relaxed);
}
fn peak_since_reset() -> usize {
    PEAK.load(Ordering::Relaxed)
}

// ---- helpers (same as kf_demos.rs) ------------------------------------------------------------
fn fixture(name: &str) -> Vec<u8> {
    std::fs::read(format!("{}/tests/{}", env!("CARGO_MANIFEST_DIR"), name)).unwrap()
}
fn unzip(src: &[u8]) -> Vec<(String, Vec<u8>)> {
    let mut z = zip::ZipArchive::new(Cursor::new(src.to_vec())).unwrap();
    (0..z.len())
        .map(|i| {
            let mut f = z.by_index(i).unwrap();
            let mut d = Vec::new();
            f.read_to_end(&mut d).unwrap();
            (f.name().to_string(), d)
        })
        .collect()
}
fn zipup(parts: &[(String, Vec<u8>)]) -> Vec<u8> {
    let mut out = zip::ZipWriter::new(Cursor::new(Vec::new()));
    let opt = zip::write::SimpleFileOptions::default().compression_method(zip::CompressionMethod::Stored);
    for (n, d) in parts {
        out.start_file(n.as_str(), opt).unwrap();
        out.write_all(d).unwrap();
    }
    out.finish().unwrap().into_inner()
}
fn rezip(src: &[u8], edits: &[(&str, Vec<u8>)]) -> Vec<u8> {
    let mut parts = unzip(src);
    for (n, d) in edits {
        match parts.iter_mut().find(|p| p.0 == *n) {
            Some(p) => p.1 = d.clone(),
            None => parts.push((n.to_string(), d.clone())),
        }
    }
    zipup(&parts)
}
fn member(src: &[u8], name: &str) -> Vec<u8> {
    unzip(src).into_iter().find(|p| p.0 == name).unwrap().1
}
fn with_timeout<T: Send + 'static>(secs: u64, f: impl FnOnce() -> T + Send + 'static) -> Option<T> {
    let (tx, rx) = std::sync::mpsc::channel();
    std::thread::spawn(move || {
        let _ = tx.send(f());
    });
    rx.recv_timeout(std::time::Duration::from_secs(secs)).ok()
}
static LAST_LOC: std::sync::Mutex<String> = std::sync::Mutex::new(String::new());
static FOUND: std::sync::Mutex<Vec<String>> = std::sync::Mutex::new(Vec::new());
fn enumerate_mode() -> bool {
    std::env::var("KF_ENUMERATE").is_ok()
}
fn install_hook() {
    static ONCE: std::sync::Once = std::sync::Once::new();
    ONCE.call_once(|| {
        let prev = std::panic::take_hook();
        std::panic::set_hook(Box::new(move |info| {
            let loc = info.location().map(|l| format!("{}:{}", l.file(), l.line())).unwrap_or_default();
            let bt = std::backtrace::Backtrace::force_capture().to_string();
            let mut frames: Vec<String> = Vec::new();
            for l in bt.lines() {
                let l = l.trim();
                if let Some(i) = l.find("/src/") {
                    if l.starts_with("at ") && !l.contains("/rustc/") && !l.contains(".cargo") && !l.contains("tests/") {
                        let r = &l[i + 1..];
                        let r = r.rsplitn(2, ':').nth(1).unwrap_or(r).to_string();
                        if frames.last() != Some(&r) {
                            frames.push(r);
                        }
                    }
                }
            }
            frames.truncate(4);
            if loc.contains("src/") && !loc.contains("tests/") {
                *LAST_LOC.lock().unwrap() = format!("{} | {}", loc.rsplit("repo/").next().unwrap_or(&loc), frames.join(" < "));
            }
            if !enumerate_mode() {
                prev(info)
            }
        }));
    });
}
/// runs `f`; a panic inside the reader is a failure of the demonstration.  With KF_ENUMERATE=1 every
/// failing case is recorded with its panic location and the test goes on (used to map sites to inputs).
fn no_panic<T: Default>(what: &str, f: impl FnOnce() -> T + std::panic::UnwindSafe) -> T {
    install_hook();
    if enumerate_mode() {
        static N: AtomicUsize = AtomicUsize::new(0);
        let n = N.fetch_add(1, Ordering::Relaxed);
        let skip: usize = std::env::var("KF_SKIP").ok().and_then(|s| s.parse().ok()).unwrap_or(0);
        if n < skip {
            return T::default();
        }
        println!("CASE\t{}\t{}", n, what);
        let _ = std::io::stdout().flush();
    }
    match std::panic::catch_unwind(f) {
        Ok(v) => v,
        Err(e) => {
            let msg = e.downcast_ref::<String>().cloned().or_else(|| e.downcast_ref::<&str>().map(|s| s.to_string())).unwrap_or_default();
            if enumerate_mode() {
                let rec = format!("{}\t{}\t{}", LAST_LOC.lock().unwrap(), what, msg.replace('\n', " "));
                println!("KF\t{}", rec);
                let _ = std::io::stdout().flush();
                FOUND.lock().unwrap().push(rec);
                return T::default();
            }
            panic!("{what}: the reader panicked ({msg}) instead of returning Ok/Err")
        }
    }
}
fn finish() {
    if enumerate_mode() {
        let f = FOUND.lock().unwrap();
        assert!(f.is_empty(), "{} case(s) panicked", f.len());
    }
}
fn exercise(bytes: Vec<u8>, kind: &str) {
    fn all<R: Reader<Cursor<Vec<u8>>>>(mut wb: R) {
        for n in wb.sheet_names().iter().take(4) {
            let _ = wb.worksheet_range(n);
            let _ = wb.worksheet_formula(n);
        }
        let _ = wb.vba_project().map(|v| {
            v.map(|v| {
                let v = v.into_owned();
                let _ = v.get_references().len();
                for m in v.get_module_names().iter().take(3) {
                    let _ = v.get_module(m);
                }
            })
        });
    }
    match kind {
        "xls" => {
            if let Ok(wb) = Xls::new(Cursor::new(bytes)) {
                all(wb)
            }
        }
        "xlsx" => {
            if let Ok(mut wb) = Xlsx::new(Cursor::new(bytes)) {
                let _ = wb.load_merged_regions();
                if wb.load_tables().is_ok() {
                    let names: Vec<String> = wb.table_names().into_iter().cloned().collect();
                    for t in names.iter().take(3) {
                        let _ = wb.table_by_name(t);
                    }
                }
                all(wb)
            }
        }
        "xlsb" => {
            if let Ok(wb) = Xlsb::new(Cursor::new(bytes)) {
                all(wb)
            }
        }
        "ods" => {
            if let Ok(wb) = Ods::new(Cursor::new(bytes)) {
                all(wb)
            }
        }
        _ => {
            let _ = open_workbook_auto_from_rs(Cursor::new(bytes));
        }
    }
}
fn kind_of(name: &str) -> &'static str {
    match name.rsplit('.').next().unwrap() {
        "xls" | "xla" => "xls",
        "xlsx" | "xlsm" | "xlam" => "xlsx",
        "xlsb" => "xlsb",
        "ods" => "ods",
        _ => "auto",
    }
}

fn minimal_xlsx(sheet_xml: &str, extra: &[(&str, &str)]) -> Vec<u8> {
    let mut parts: Vec<(String, Vec<u8>)> = vec![
        ("[Content_Types].xml".into(), br#"<?xml version="1.0" encoding="UTF-8"?><Types xmlns="http://schemas.openxmlformats.org/package/2006/content-types"><Default Extension="rels" ContentType="application/vnd.openxmlformats-package.relationships+xml"/><Default Extension="xml" ContentType="application/xml"/></Types>"#.to_vec()),
        ("_rels/.rels".into(), br#"<?xml version="1.0" encoding="UTF-8"?><Relationships xmlns="http://schemas.openxmlformats.org/package/2006/relationships"><Relationship Id="rId1" Type="http://schemas.openxmlformats.org/officeDocument/2006/relationships/officeDocument" Target="xl/workbook.xml"/></Relationships>"#.to_vec()),
        ("xl/_rels/workbook.xml.rels".into(), br#"<?xml version="1.0" encoding="UTF-8"?><Relationships xmlns="http://schemas.openxmlformats.org/package/2006/relationships"><Relationship Id="rId1" Type="http://schemas.openxmlformats.org/officeDocument/2006/relationships/worksheet" Target="worksheets/sheet1.xml"/></Relationships>"#.to_vec()),
        ("xl/workbook.xml".into(), br#"<?xml version="1.0" encoding="UTF-8"?><workbook xmlns="http://schemas.openxmlformats.org/spreadsheetml/2006/main" xmlns:r="http://schemas.openxmlformats.org/officeDocument/2006/relationships"><sheets><sheet name="Sheet1" sheetId="1" r:id="rId1"/></sheets></workbook>"#.to_vec()),
        ("xl/worksheets/sheet1.xml".into(), sheet_xml.as_bytes().to_vec()),
    ];
    for (n, d) in extra {
        parts.push((n.to_string(), d.as_bytes().to_vec()));
    }
    zipup(&parts)
}
fn sheet(rows: &str) -> String {
    format!(r#"<?xml version="1.0" encoding="UTF-8"?><worksheet xmlns="http://schemas.openxmlformats.org/spreadsheetml/2006/main"><sheetData>{}</sheetData></worksheet>"#, rows)
}
fn ods_with_rows(rows: &str) -> Vec<u8> {
    let src = fixture("date.ods");
    let content = String::from_utf8(member(&src, "content.xml")).unwrap();
    let cut = content.find("<table:table-row").expect("row");
    let tail = content.find("</table:table>").unwrap();
    rezip(&src, &[("content.xml", format!("{}{}{}", &content[..cut], rows, &content[tail..]).into_bytes())])
}

// ---- BIFF8 / CFB builder ------------------------------------------------------------------
fn rec(out: &mut Vec<u8>, typ: u16, data: &[u8]) {
    out.extend_from_slice(&typ.to_le_bytes());
    out.extend_from_slice(&(data.len() as u16).to_le_bytes());
    out.extend_from_slice(data);
}
fn bof(out: &mut Vec<u8>, dt: u16) {
    let mut d = Vec::new();
    d.extend_from_slice(&0x0600u16.to_le_bytes());
    d.extend_from_slice(&dt.to_le_bytes());
    d.extend_from_slice(&[0xBB, 0x0D, 0xCC, 0x07, 0, 0, 0, 0, 6, 0, 0, 0]);
    rec(out, 0x0809, &d);
}
fn workbook_stream(extra_globals: &[(u16, Vec<u8>)], sheet_records: &[(u16, Vec<u8>)]) -> Vec<u8> {
    let mut g = Vec::new();
    bof(&mut g, 0x0005);
    rec(&mut g, 0x0042, &1200u16.to_le_bytes());
    let mut xf = vec![0u8; 20];
    xf[2] = 0;
    rec(&mut g, 0x00E0, &xf);
    let bs_pos = g.len() + 4;
    let mut bs = vec![0u8; 4];
    bs.extend_from_slice(&[0, 0, 6, 0]);
    bs.extend_from_slice(b"Sheet1");
    rec(&mut g, 0x0085, &bs);
    for (t, d) in extra_globals {
        rec(&mut g, *t, d);
    }
    rec(&mut g, 0x000A, &[]);
    let sheet_pos = g.len() as u32;
    g[bs_pos..bs_pos + 4].copy_from_slice(&sheet_pos.to_le_bytes());
    bof(&mut g, 0x0010);
    for (t, d) in sheet_records {
        rec(&mut g, *t, d);
    }
    rec(&mut g, 0x000A, &[]);
    g
}
const FREE: u32 = 0xFFFF_FFFF;
const EOC: u32 = 0xFFFF_FFFE;
const FATSECT: u32 = 0xFFFF_FFFD;
/// compound file with one regular-sector stream; `patch_fat` may rewrite FAT entries, `patch_hdr` header bytes
fn cfb_custom(stream_name: &str, stream: &[u8], patch_fat: impl Fn(&mut Vec<u32>), patch_hdr: impl Fn(&mut Vec<u8>)) -> Vec<u8> {
    let mut stream = stream.to_vec();
    let size = stream.len().max(4096).next_multiple_of(512);
    stream.resize(size, 0);
    let n = size / 512;
    let mut h = vec![0u8; 512];
    h[..8].copy_from_slice(&[0xD0, 0xCF, 0x11, 0xE0, 0xA1, 0xB1, 0x1A, 0xE1]);
    h[24..26].copy_from_slice(&0x003Eu16.to_le_bytes());
    h[26..28].copy_from_slice(&3u16.to_le_bytes());
    h[28..30].copy_from_slice(&0xFFFEu16.to_le_bytes());
    h[30..32].copy_from_slice(&9u16.to_le_bytes());
    h[32..34].copy_from_slice(&6u16.to_le_bytes());
    h[44..48].copy_from_slice(&1u32.to_le_bytes());
    h[48..52].copy_from_slice(&1u32.to_le_bytes());
    h[56..60].copy_from_slice(&4096u32.to_le_bytes());
    h[60..64].copy_from_slice(&EOC.to_le_bytes());
    h[68..72].copy_from_slice(&EOC.to_le_bytes());
    for i in 0..109 {
        let v = if i == 0 { 0 } else { FREE };
        h[76 + 4 * i..80 + 4 * i].copy_from_slice(&v.to_le_bytes());
    }
    patch_hdr(&mut h);
    let mut fat = vec![FREE; 128];
    fat[0] = FATSECT;
    fat[1] = EOC;
    for i in 0..n {
        fat[2 + i] = if i + 1 == n { EOC } else { 3 + i as u32 };
    }
    patch_fat(&mut fat);
    fn dir_entry(name: &str, typ: u8, child: u32, start: u32, size: u32) -> Vec<u8> {
        let mut e = vec![0u8; 128];
        let utf16: Vec<u16> = name.encode_utf16().collect();
        for (i, c) in utf16.iter().enumerate() {
            e[2 * i..2 * i + 2].copy_from_slice(&c.to_le_bytes());
        }
        e[64..66].copy_from_slice(&((utf16.len() as u16 + 1) * 2).to_le_bytes());
        e[66] = typ;
        e[67] = 1;
        e[68..72].copy_from_slice(&FREE.to_le_bytes());
        e[72..76].copy_from_slice(&FREE.to_le_bytes());
        e[76..80].copy_from_slice(&child.to_le_bytes());
        e[116..120].copy_from_slice(&start.to_le_bytes());
        e[120..124].copy_from_slice(&size.to_le_bytes());
        e
    }
    let mut out = h;
    for v in &fat {
        out.extend_from_slice(&v.to_le_bytes());
    }
    out.extend(dir_entry("Root Entry", 5, 1, EOC, 0));
    out.extend(dir_entry(stream_name, 2, FREE, 2, size as u32));
    out.extend(vec![0u8; 256]);
    out.extend(stream);
    out
}
/// compound file whose single stream (< 4096 bytes) lives in the mini stream, with its exact length
fn cfb_mini(stream_name: &str, data: &[u8]) -> Vec<u8> {
    assert!(data.len() < 4096);
    let n_mini = data.len().div_ceil(64).max(1);
    let mut mini = data.to_vec();
    mini.resize(n_mini * 64, 0);
    let mini_secs = (mini.len()).div_ceil(512);
    mini.resize(mini_secs * 512, 0);
    let mut h = vec![0u8; 512];
    h[..8].copy_from_slice(&[0xD0, 0xCF, 0x11, 0xE0, 0xA1, 0xB1, 0x1A, 0xE1]);
    h[24..26].copy_from_slice(&0x003Eu16.to_le_bytes());
    h[26..28].copy_from_slice(&3u16.to_le_bytes());
    h[28..30].copy_from_slice(&0xFFFEu16.to_le_bytes());
    h[30..32].copy_from_slice(&9u16.to_le_bytes());
    h[32..34].copy_from_slice(&6u16.to_le_bytes());
    h[44..48].copy_from_slice(&1u32.to_le_bytes()); // FAT sectors
    h[48..52].copy_from_slice(&1u32.to_le_bytes()); // directory at sector 1
    h[56..60].copy_from_slice(&4096u32.to_le_bytes());
    h[60..64].copy_from_slice(&2u32.to_le_bytes()); // mini FAT at sector 2
    h[64..68].copy_from_slice(&1u32.to_le_bytes());
    h[68..72].copy_from_slice(&EOC.to_le_bytes());
    for i in 0..109 {
        let v = if i == 0 { 0 } else { FREE };
        h[76 + 4 * i..80 + 4 * i].copy_from_slice(&v.to_le_bytes());
    }
    let mut fat = vec![FREE; 128];
    fat[0] = FATSECT;
    fat[1] = EOC;
    fat[2] = EOC;
    for i in 0..mini_secs {
        fat[3 + i] = if i + 1 == mini_secs { EOC } else { 4 + i as u32 };
    }
    let mut minifat = vec![FREE; 128];
    for i in 0..n_mini {
        minifat[i] = if i + 1 == n_mini { EOC } else { 1 + i as u32 };
    }
    fn dir_entry(name: &str, typ: u8, child: u32, start: u32, size: u32) -> Vec<u8> {
        let mut e = vec![0u8; 128];
        let utf16: Vec<u16> = name.encode_utf16().collect();
        for (i, c) in utf16.iter().enumerate() {
            e[2 * i..2 * i + 2].copy_from_slice(&c.to_le_bytes());
        }
        e[64..66].copy_from_slice(&((utf16.len() as u16 + 1) * 2).to_le_bytes());
        e[66] = typ;
        e[67] = 1;
        e[68..72].copy_from_slice(&FREE.to_le_bytes());
        e[72..76].copy_from_slice(&FREE.to_le_bytes());
        e[76..80].copy_from_slice(&child.to_le_bytes());
        e[116..120].copy_from_slice(&start.to_le_bytes());
        e[120..124].copy_from_slice(&size.to_le_bytes());
        e
    }
    let mut out = h;
    for v in &fat {
        out.extend_from_slice(&v.to_le_bytes());
    }
    out.extend(dir_entry("Root Entry", 5, 1, 3, (n_mini * 64) as u32));
    out.extend(dir_entry(stream_name, 2, FREE, 0, data.len() as u32));
    out.extend(vec![0u8; 256]);
    for v in &minifat {
        out.extend_from_slice(&v.to_le_bytes());
    }
    out.extend(mini);
    out
}
fn xls_file(extra_globals: &[(u16, Vec<u8>)], sheet_records: &[(u16, Vec<u8>)]) -> Vec<u8> {
    cfb_custom("Workbook", &workbook_stream(extra_globals, sheet_records), |_| {}, |_| {})
}
fn open_xls_all(bytes: Vec<u8>) {
    exercise(bytes, "xls")
}

// ==========================================================================================
// R-CHASE

#[test]
fn kf_c06_cfb_cyclic_fat_chain_terminates() {
    // the Workbook stream's chain loops back onto itself
    let bytes = cfb_custom("Workbook", &workbook_stream(&[], &[]), |fat| fat[3] = 2, |_| {});
    let r = with_timeout(15, move || {
        reset_peak();
        let r = Xls::new(Cursor::new(bytes)).is_ok();
        (r, peak_since_reset())
    });
    let (_, peak) = r.expect("Xls::new must terminate on a cyclic FAT chain");
    assert!(peak < 64 << 20, "peak allocation {peak} bytes for a 6 KB file");
}

#[test]
fn kf_c06_cfb_cyclic_difat_chain_terminates() {
    // first DIFAT sector = sector 1, whose last entry (the "next DIFAT sector" link) points at sector 1 again
    let bytes = cfb_custom("Workbook", &workbook_stream(&[], &[]), |_| {}, |h| h[68..72].copy_from_slice(&1u32.to_le_bytes()));
    let mut bytes = bytes;
    // sector 1 is the directory; make its last u32 (offset 512 + 512 + 508) point to itself
    let off = 512 + 512 + 508;
    bytes[off..off + 4].copy_from_slice(&1u32.to_le_bytes());
    let r = with_timeout(15, move || {
        reset_peak();
        let r = Xls::new(Cursor::new(bytes)).is_ok();
        (r, peak_since_reset())
    });
    let (_, peak) = r.expect("Cfb::new must terminate on a cyclic DIFAT chain");
    assert!(peak < 64 << 20, "peak allocation {peak} bytes");
}

// R-ALLOC (cfb / xls / xlsb)

#[test]
fn kf_c06_cfb_header_counts_do_not_size_allocations() {
    for (what, off) in [("number of FAT sectors", 44usize), ("number of directory sectors", 40), ("first directory sector", 48), ("bytes 62..66 (read as the DIFAT count)", 62)] {
        let bytes = cfb_custom("Workbook", &workbook_stream(&[], &[]), |_| {}, |h| h[off..off + 4].copy_from_slice(&0x0FFF_FFF0u32.to_le_bytes()));
        reset_peak();
        let _ = no_panic(what, || Xls::new(Cursor::new(bytes)).is_ok());
        let big = BIGGEST.load(Ordering::Relaxed);
        assert!(big < 64 << 20, "{what} = 0x0FFFFFF0 in a 6 KB file requested one allocation of {big} bytes");
    }
}

#[test]
fn kf_c06_cfb_reserved_sector_ids_are_not_sectors() {
    // (a) the header's DIFAT array lists 0xFFFFFFFA (MAXREGSECT, reserved) as a FAT sector
    let bytes = cfb_custom("Workbook", &workbook_stream(&[], &[]), |_| {}, |h| h[80..84].copy_from_slice(&0xFFFF_FFFAu32.to_le_bytes()));
    reset_peak();
    let _ = no_panic("DIFAT entry 0xFFFFFFFA", || Xls::new(Cursor::new(bytes)).is_ok());
    let big = BIGGEST.load(Ordering::Relaxed);
    assert!(big < 64 << 20, "a reserved id in the DIFAT array of a 6 KB file requested one allocation of {big} bytes");
}

#[test]
fn kf_c06_cfb_chain_running_into_freesect() {
    // (b) the directory chain runs into FREESECT (0xFFFFFFFF) instead of ENDOFCHAIN
    let bytes = cfb_custom("Workbook", &workbook_stream(&[], &[]), |fat| fat[1] = FREE, |_| {});
    reset_peak();
    let _ = no_panic("directory chain ending in FREESECT", || Xls::new(Cursor::new(bytes)).is_ok());
    let big = BIGGEST.load(Ordering::Relaxed);
    assert!(big < 64 << 20, "a FREESECT link in the directory chain of a 6 KB file requested one allocation of {big} bytes");
}

#[test]
fn kf_c06_xls_sst_count_does_not_size_allocation() {
    // SST record: cstTotal, cstUnique = 0x7FFFFFF0, no strings
    let mut sst = 0u32.to_le_bytes().to_vec();
    sst.extend_from_slice(&0x7FFF_FFF0u32.to_le_bytes());
    let bytes = xls_file(&[(0x00FC, sst)], &[]);
    reset_peak();
    let _ = no_panic("SST", || Xls::new(Cursor::new(bytes)).is_ok());
    let big = BIGGEST.load(Ordering::Relaxed);
    assert!(big < 64 << 20, "an SST declaring 2^31 strings requested one allocation of {big} bytes");
}

#[test]
fn kf_c06_xls_sst_negative_count() {
    let mut sst = 0u32.to_le_bytes().to_vec();
    sst.extend_from_slice(&(-1i32).to_le_bytes());
    let bytes = xls_file(&[(0x00FC, sst)], &[]);
    no_panic("SST with cstUnique = -1", || {
        let _ = Xls::new(Cursor::new(bytes));
    });
}

#[test]
fn kf_c06_xls_dimensions_do_not_size_allocation_and_do_not_underflow() {
    // DIMENSIONS rwMic=5, rwMac=2 (reversed), colMic=3, colMac=1
    let mut d = Vec::new();
    d.extend_from_slice(&5u32.to_le_bytes());
    d.extend_from_slice(&2u32.to_le_bytes());
    d.extend_from_slice(&3u16.to_le_bytes());
    d.extend_from_slice(&1u16.to_le_bytes());
    d.extend_from_slice(&0u16.to_le_bytes());
    no_panic("reversed DIMENSIONS", || open_xls_all(xls_file(&[], &[(0x0200, d)])));
    // huge but ordered
    let mut d = Vec::new();
    d.extend_from_slice(&0u32.to_le_bytes());
    d.extend_from_slice(&0xFFFF_FFF0u32.to_le_bytes());
    d.extend_from_slice(&0u16.to_le_bytes());
    d.extend_from_slice(&0xFFF0u16.to_le_bytes());
    d.extend_from_slice(&0u16.to_le_bytes());
    reset_peak();
    let bytes = xls_file(&[], &[(0x0200, d)]);
    let _ = std::panic::catch_unwind(|| open_xls_all(bytes));
    let big = BIGGEST.load(Ordering::Relaxed);
    assert!(big < 64 << 20, "DIMENSIONS of 2^32 x 2^16 requested one allocation of {big} bytes");
    finish();
}

#[test]
fn kf_c06_xlsb_record_length_does_not_size_allocation() {
    // a sheet part whose first record declares a 0x0FFFFFFF byte payload
    let src = fixture("date.xlsb");
    let bytes = rezip(&src, &[("xl/worksheets/sheet1.bin", vec![0x94, 0x01, 0xFF, 0xFF, 0xFF, 0x7F])]);
    reset_peak();
    let _ = std::panic::catch_unwind(|| exercise(bytes, "xlsb"));
    let big = BIGGEST.load(Ordering::Relaxed);
    assert!(big < 64 << 20, "a 6 byte sheet part requested one allocation of {big} bytes");
}

// R-AMP

#[test]
fn kf_c06_ods_repeat_counts_do_not_amplify() {
    for (what, rows) in [
        ("number-columns-repeated on a value cell", r#"<table:table-row><table:table-cell office:value-type="float" office:value="1" table:number-columns-repeated="4000000"/></table:table-row>"#.to_string()),
        ("number-columns-repeated on empty cells before a value", r#"<table:table-row><table:table-cell table:number-columns-repeated="4000000"/><table:table-cell office:value-type="float" office:value="1"/></table:table-row>"#.to_string()),
        ("number-rows-repeated on a value row", r#"<table:table-row table:number-rows-repeated="4000000"><table:table-cell office:value-type="float" office:value="1"/></table:table-row>"#.to_string()),
        ("number-rows-repeated on empty rows between values", r#"<table:table-row><table:table-cell office:value-type="float" office:value="1"/></table:table-row><table:table-row table:number-rows-repeated="4000000"><table:table-cell/></table:table-row><table:table-row><table:table-cell office:value-type="float" office:value="2"/></table:table-row>"#.to_string()),
        ("text:s count", r#"<table:table-row><table:table-cell office:value-type="string"><text:p>a<text:s text:c="200000000"/>b</text:p></table:table-cell></table:table-row>"#.to_string()),
    ] {
        let bytes = ods_with_rows(&rows);
        let n = bytes.len();
        let r = with_timeout(60, move || {
            reset_peak();
            let _ = std::panic::catch_unwind(|| Ods::new(Cursor::new(bytes)).map(|mut w| { let n = w.sheet_names()[0].clone(); w.worksheet_range(&n).map(|r| r.get_size()) }));
            peak_since_reset()
        });
        let peak = r.unwrap_or(usize::MAX);
        assert!(peak < 32 << 20, "{what}: a {n} byte ods made the reader allocate {peak} bytes");
    }
}

#[test]
fn kf_c06_xlsx_shared_formula_ref_does_not_amplify() {
    let sh = sheet(r#"<row r="1"><c r="A1"><f t="shared" ref="A1:A1048576" si="0">B1</f><v>1</v></c></row>"#);
    let bytes = minimal_xlsx(&sh, &[]);
    let n = bytes.len();
    reset_peak();
    let _ = std::panic::catch_unwind(|| {
        let mut wb: Xlsx<_> = Xlsx::new(Cursor::new(bytes)).unwrap();
        wb.worksheet_formula("Sheet1").map(|r| r.get_size())
    });
    let peak = peak_since_reset();
    assert!(peak < 16 << 20, "a {n} byte xlsx with one shared formula made worksheet_formula allocate {peak} bytes");
}

#[test]
fn kf_c06_xlsx_shared_formula_index_does_not_amplify() {
    // the shared-formula table is a Vec indexed by `si`: a master formula with a large `si` makes next_formula
    // push one `None` per missing index (`while self.formulas.len() < shared_index { push(None) }`)
    let sh = sheet(r#"<row r="1"><c r="A1"><f t="shared" ref="A1:A1" si="3000000">B1</f><v>1</v></c></row>"#);
    let bytes = minimal_xlsx(&sh, &[]);
    let n = bytes.len();
    reset_peak();
    let _ = std::panic::catch_unwind(|| {
        let mut wb: Xlsx<_> = Xlsx::new(Cursor::new(bytes)).unwrap();
        wb.worksheet_formula("Sheet1").map(|r| r.get_size())
    });
    let peak = peak_since_reset();
    assert!(peak < 16 << 20, "a {n} byte xlsx with one shared formula (si = 3000000) made worksheet_formula allocate {peak} bytes");
}

#[test]
fn kf_c06_format_code_with_256_open_brackets() {
    // detect_custom_number_format counts `[` in a u8: the 256th unmatched one overflows (panic with overflow checks,
    // wrap to 0 -- and a wrong classification of what follows -- without)
    let code = format!("{}h]:mm", "[".repeat(256));
    let styles = format!(r#"<?xml version="1.0" encoding="UTF-8"?><styleSheet xmlns="http://schemas.openxmlformats.org/spreadsheetml/2006/main"><numFmts count="1"><numFmt numFmtId="164" formatCode="{code}"/></numFmts><cellXfs count="2"><xf numFmtId="0"/><xf numFmtId="164"/></cellXfs></styleSheet>"#);
    let sh = sheet(r#"<row r="1"><c r="A1" s="1"><v>1.5</v></c></row>"#);
    let bytes = rezip(&minimal_xlsx(&sh, &[]), &[("xl/styles.xml", styles.into_bytes())]);
    no_panic("formatCode with 256 unmatched `[`", || exercise(bytes, "xlsx"));
    finish();
}

// R-ARITH / R-INDEX xlsx

#[test]
fn kf_c06_xlsx_hostile_cell_references() {
    for (what, rows) in [
        ("ten-digit row number", r#"<row r="1"><c r="A99999999999"><v>1</v></c></row>"#),
        ("row number 4294967296", r#"<row r="4294967296"><c><v>1</v></c></row>"#),
        ("eight-letter column", r#"<row r="1"><c r="ZZZZZZZZ1"><v>1</v></c></row>"#),
        ("rows out of order", r#"<row r="5"><c r="A5"><v>1</v></c></row><row r="2"><c r="A2"><v>2</v></c></row>"#),
        ("implicit cell after column 4294967295", r#"<row r="1"><c r="MWLQKWU1"><v>1</v></c><c><v>2</v></c></row>"#),
        ("shared string index out of range", r#"<row r="1"><c r="A1" t="s"><v>7</v></c></row>"#),
        ("shared formula with reversed ref", r#"<row r="1"><c r="A5"><f t="shared" ref="A5:A1" si="0">B1</f><v>1</v></c></row>"#),
        ("shared formula moving a reference above row 1", r#"<row r="3"><c r="A3"><f t="shared" ref="A1:A3" si="0">B2</f><v>1</v></c></row><row r="4"><c r="A1"><f t="shared" si="0"/><v>1</v></c></row>"#),
    ] {
        let bytes = minimal_xlsx(&sheet(rows), &[]);
        no_panic(what, || exercise(bytes, "xlsx"));
    }
    // declared dimension reversed
    let sh = r#"<?xml version="1.0" encoding="UTF-8"?><worksheet xmlns="http://schemas.openxmlformats.org/spreadsheetml/2006/main"><dimension ref="B2:A1"/><sheetData><row r="1"><c r="A1"><v>1</v></c></row></sheetData></worksheet>"#;
    no_panic("reversed <dimension>", || exercise(minimal_xlsx(sh, &[]), "xlsx"));
    finish();
}

#[test]
fn kf_c06_xlsx_shared_formula_offset_above_first_row() {
    // master at A3 with ref A1:A3 and formula B2; the member A1 (offset -2 rows) would refer to row -1
    let sh = sheet(r#"<row r="3"><c r="A3"><f t="shared" ref="A1:A3" si="0">B2</f><v>1</v></c></row><row r="1"><c r="A1"><f t="shared" si="0"/><v>1</v></c></row>"#);
    let bytes = minimal_xlsx(&sh, &[]);
    no_panic("shared formula translated above row 1", || {
        let mut wb: Xlsx<_> = Xlsx::new(Cursor::new(bytes)).unwrap();
        let mut cr = wb.worksheet_cells_reader("Sheet1").unwrap();
        while let Ok(Some(_)) = cr.next_formula() {}
    });
    finish();
}

#[test]
fn kf_c06_xlsx_hostile_table_metadata() {
    let src = fixture("temperature-table.xlsx");
    let t = String::from_utf8(member(&src, "xl/tables/table1.xml")).unwrap();
    for (what, edit) in [
        ("headerRowCount = 4294967295", t.replace(r#"totalsRowShown="0""#, r#"headerRowCount="4294967295""#)),
        ("totalsRowCount larger than the table", t.replace(r#"totalsRowShown="0""#, r#"totalsRowCount="9""#)),
        ("insertRow on a one-row table", t.replace(r#"ref="A1:B3" totalsRowShown"#, r#"ref="A1:B1" headerRowCount="0" insertRow="1" totalsRowShown"#)),
    ] {
        let bytes = rezip(&src, &[("xl/tables/table1.xml", edit.into_bytes())]);
        no_panic(what, || exercise(bytes, "xlsx"));
    }
    finish();
}

// R-ARITH ods

#[test]
fn kf_c06_ods_repeat_count_arithmetic() {
    let rows = r#"<table:table-row table:number-rows-repeated="18446744073709551615"><table:table-cell office:value-type="float" office:value="1"/></table:table-row><table:table-row><table:table-cell office:value-type="float" office:value="2"/></table:table-row>"#;
    let bytes = ods_with_rows(rows);
    let r = with_timeout(30, move || std::panic::catch_unwind(|| Ods::new(Cursor::new(bytes)).is_ok()).is_ok());
    assert_eq!(r, Some(true), "number-rows-repeated = usize::MAX must not panic (or hang)");
}

// R-INDEX xls records

#[test]
fn kf_c06_xls_short_records() {
    // every record kind the reader interprets, with payloads shorter than the fields it reads
    let globals: &[(&str, u16)] = &[("CodePage", 0x0042), ("Date1904", 0x0022), ("Format", 0x041E), ("BoundSheet8", 0x0085), ("BOF", 0x0809), ("Lbl", 0x0018), ("ExternSheet", 0x0017), ("SST", 0x00FC), ("XF", 0x00E0), ("FilePass", 0x002F)];
    for (name, typ) in globals {
        for (len, fill) in (0usize..=20).flat_map(|e| [(e, 0x10u8), (e, 0x00u8), (e, 0xFFu8)]) {
            let payload: Vec<u8> = (0..len).map(|i| if fill == 0x10 { (0x10 + i) as u8 } else { fill }).collect();
            let bytes = xls_file(&[(*typ, payload)], &[]);
            no_panic(&format!("{name} record of {len} bytes"), || open_xls_all(bytes));
        }
    }
    let sheet_recs: &[(&str, u16)] = &[("MergeCells", 0x00E5), ("MulRk", 0x00BD), ("Formula", 0x0006), ("LabelSst", 0x00FD), ("Label", 0x0204), ("String", 0x0207), ("Dimensions", 0x0200), ("Rk", 0x027E), ("Number", 0x0203), ("BoolErr", 0x0205)];
    for (name, typ) in sheet_recs {
        for (len, fill) in (0usize..=26).flat_map(|e| [(e, 0xF0u8), (e, 0x00u8), (e, 0x01u8)]) {
            let payload: Vec<u8> = (0..len).map(|i| if fill == 0xF0 { (0xF0u8).wrapping_add(i as u8) } else { fill }).collect();
            let bytes = xls_file(&[], &[(*typ, payload)]);
            no_panic(&format!("{name} record of {len} bytes"), || open_xls_all(bytes));
        }
    }
    finish();
}

#[test]
fn kf_c06_xls_sst_strings_truncated() {
    // SST with one string whose header promises more than the record holds
    let sst = |tail: &[u8]| {
        let mut d = 1u32.to_le_bytes().to_vec();
        d.extend_from_slice(&1u32.to_le_bytes());
        d.extend_from_slice(tail);
        d
    };
    let cases: Vec<(&str, Vec<(u16, Vec<u8>)>)> = vec![
        ("rich-text flag without cRun", vec![(0x00FC, sst(&[2, 0, 0x08]))]),
        ("rich-text flag with one byte of cRun", vec![(0x00FC, sst(&[2, 0, 0x08, 1]))]),
        ("extended flag without cbExtRst", vec![(0x00FC, sst(&[2, 0, 0x04, 1, 0]))]),
        ("both flags, header cut", vec![(0x00FC, sst(&[2, 0, 0x0C, 1, 0, 1]))]),
        ("characters continue in an empty CONTINUE record", vec![(0x00FC, sst(&[5, 0, 0x00, b'a', b'b'])), (0x003C, vec![])]),
        ("characters continue, CONTINUE holds only the flag byte", vec![(0x00FC, sst(&[5, 0, 0x01, b'a', 0])), (0x003C, vec![1])]),
        ("negative cbExtRst", vec![(0x00FC, sst(&[1, 0, 0x04, 0xFF, 0xFF, 0xFF, 0xFF, b'a']))]),
        ("huge cRun", vec![(0x00FC, sst(&[1, 0, 0x08, 0xFF, 0xFF, b'a']))]),
    ];
    for (what, globals) in cases {
        let bytes = xls_file(&globals, &[]);
        no_panic(what, || open_xls_all(bytes));
    }
    finish();
}

#[test]
fn kf_c06_xls_formula_tokens_truncated() {
    // a FORMULA record whose token stream ends right after each token id calamine knows
    for ptg in 0u8..=0x7F {
        for (extra, fill) in (0usize..=14).flat_map(|e| [(e, 0xFFu8), (e, 0x00u8)]) {
            let mut d = vec![0u8; 20];
            d[6..14].copy_from_slice(&1.0f64.to_le_bytes());
            let mut rgce = vec![ptg];
            rgce.extend(std::iter::repeat(fill).take(extra));
            d.extend_from_slice(&(rgce.len() as u16).to_le_bytes());
            d.extend_from_slice(&rgce);
            let bytes = xls_file(&[], &[(0x0006, d)]);
            no_panic(&format!("FORMULA with token 0x{ptg:02X} followed by {extra} byte(s) 0x{fill:02X}"), || open_xls_all(bytes));
        }
    }
    // cce larger than the record
    let mut d = vec![0u8; 20];
    d.extend_from_slice(&500u16.to_le_bytes());
    d.push(0x1E);
    no_panic("FORMULA with cce beyond the record", || open_xls_all(xls_file(&[], &[(0x0006, d)])));
    finish();
}

#[test]
fn kf_c06_xls_boundsheet_position_beyond_stream() {
    let mut bytes = workbook_stream(&[], &[]);
    // BoundSheet8 lbPlyPos -> far beyond the stream
    let pos = bytes.windows(2).position(|w| w == [0x85, 0x00]).unwrap() + 4;
    bytes[pos..pos + 4].copy_from_slice(&0x00FF_FFFFu32.to_le_bytes());
    let file = cfb_custom("Workbook", &bytes, |_| {}, |_| {});
    no_panic("BoundSheet8 position beyond the stream", || open_xls_all(file));
}

// R-INDEX xlsb records

#[test]
fn kf_c06_xlsb_short_records() {
    let src = fixture("date.xlsb");
    let enc = |recs: &[(u16, Vec<u8>)]| {
        let mut out = Vec::new();
        for (t, p) in recs {
            if *t >= 0x80 {
                out.push((*t & 0x7f) as u8 | 0x80);
                out.push((*t >> 7) as u8);
            } else {
                out.push(*t as u8);
            }
            assert!(p.len() < 128);
            out.push(p.len() as u8);
            out.extend_from_slice(p);
        }
        out
    };
    // sheet part: BrtWsDim (short), then each cell record kind with a short payload
    for typ in [0x0000u16, 0x0002, 0x0003, 0x0004, 0x0005, 0x0006, 0x0007, 0x0008, 0x0009, 0x000A, 0x000B] {
        for (len, fill) in (0usize..=24).flat_map(|e| [(e, 0x41u8), (e, 0x00u8), (e, 0xFFu8)]) {
            let recs = vec![(0x0094u16, vec![0u8; 16]), (0x0091, vec![]), (0x0000, vec![0u8; 25]), (typ, vec![fill; len]), (0x0092, vec![])];
            let bytes = rezip(&src, &[("xl/worksheets/sheet1.bin", enc(&recs))]);
            no_panic(&format!("xlsb cell record 0x{typ:04X} of {len} bytes"), || exercise(bytes, "xlsb"));
        }
    }
    let recs = vec![(0x0094u16, vec![0u8; 7]), (0x0091, vec![]), (0x0092, vec![])];
    no_panic("BrtWsDim of 7 bytes", || exercise(rezip(&src, &[("xl/worksheets/sheet1.bin", enc(&recs))]), "xlsb"));
    // workbook / styles / sst parts
    for (part, typ) in [("xl/workbook.bin", 0x009Cu16), ("xl/workbook.bin", 0x0099), ("xl/workbook.bin", 0x016A), ("xl/workbook.bin", 0x0027), ("xl/styles.bin", 0x0267), ("xl/styles.bin", 0x0269), ("xl/sharedStrings.bin", 0x009F)] {
        for (len, fill) in (0usize..=20).flat_map(|e| [(e, 0x01u8), (e, 0x00u8), (e, 0xFFu8)]) {
            let mut recs = vec![(typ, vec![fill; len])];
            if part == "xl/workbook.bin" && typ != 0x009C && typ != 0x0099 {
                recs.insert(0, (0x0090, vec![]));
            }
            recs.push((0x0090, vec![]));
            recs.push((0x009D, vec![]));
            let bytes = rezip(&src, &[(part, enc(&recs))]);
            no_panic(&format!("{part}: record 0x{typ:04X} of {len} bytes"), || exercise(bytes, "xlsb"));
        }
    }
    finish();
}

#[test]
fn kf_c06_xlsb_formula_tokens_truncated() {
    let src = fixture("date.xlsb");
    // every token byte, then every PtgAttr sub-kind (0x19 xx), each followed by 0..16 payload bytes
    let heads: Vec<Vec<u8>> = (0u8..=0x7F).map(|p| vec![p]).chain([0x01u8, 0x02, 0x04, 0x08, 0x10, 0x20, 0x40, 0x80].into_iter().map(|s| vec![0x19, s])).collect();
    for head in heads {
        let ptg = head[0] as u16 * 256 + *head.last().unwrap() as u16;
        for (extra, fill) in (0usize..=16).flat_map(|e| [(e, 0xFFu8), (e, 0x00u8), (e, 0x05u8)]) {
            let mut rgce = head.clone();
            rgce.extend(std::iter::repeat(fill).take(extra));
            let mut p = Vec::new();
            p.extend_from_slice(&0u32.to_le_bytes());
            p.extend_from_slice(&0u32.to_le_bytes());
            p.extend_from_slice(&1.0f64.to_le_bytes());
            p.extend_from_slice(&0u16.to_le_bytes());
            p.extend_from_slice(&(rgce.len() as u32).to_le_bytes());
            p.extend_from_slice(&rgce);
            let mut part = vec![0x94, 0x01, 16];
            part.extend_from_slice(&[0u8; 16]);
            part.extend_from_slice(&[0x91, 0x01, 0]);
            part.extend_from_slice(&[0x00, 25]);
            part.extend_from_slice(&[0u8; 25]);
            part.push(0x09);
            part.push(p.len() as u8);
            part.extend_from_slice(&p);
            part.extend_from_slice(&[0x92, 0x01, 0]);
            let bytes = rezip(&src, &[("xl/worksheets/sheet1.bin", part)]);
            no_panic(&format!("BrtFmlaNum with token 0x{ptg:04X} followed by {extra} byte(s) 0x{fill:02X}"), || exercise(bytes, "xlsb"));
        }
    }
    finish();
}

// R-INDEX vba

/// MS-OVBA compressed container holding `data` as literal tokens only
fn ovba_compress_literal(data: &[u8]) -> Vec<u8> {
    let mut out = vec![0x01u8];
    for chunk in data.chunks(4096) {
        let mut body = Vec::new();
        for eight in chunk.chunks(8) {
            body.push(0x00);
            body.extend_from_slice(eight);
        }
        let hdr: u16 = 0xB000 | ((body.len() + 2 - 3) as u16 & 0x0FFF);
        out.extend_from_slice(&hdr.to_le_bytes());
        out.extend_from_slice(&body);
    }
    out
}

#[test]
fn kf_c06_vba_dir_stream_truncated() {
    // the decompressed `dir` stream of tests/vba.xlsm, cut at every length
    let dir = include_bytes!("vba_dir.bin");
    for cut in 0..dir.len() {
        let comp = ovba_compress_literal(&dir[..cut]);
        let file = cfb_mini("dir", &comp);
        let n = file.len();
        no_panic(&format!("vba dir stream cut at {cut} of {} bytes", dir.len()), move || {
            let _ = calamine::vba::VbaProject::new(&mut Cursor::new(file), n);
        });
    }
    finish();
}

#[test]
fn kf_c06_vba_reference_control_truncated() {
    // a REFERENCECONTROL record (0x002F) whose tail is missing: `*stream = &stream[4..]` after the 0x0030 token and
    // `*stream = &stream[26..]` after the second libid are unchecked.  The record is appended where the reference
    // records of tests/vba.xlsm's dir stream begin (every offset holding a REFERENCENAME id is tried).
    let dir = include_bytes!("vba_dir.bin");
    let mut head = vec![0x2Fu8, 0x00];
    head.extend_from_slice(&[0; 4]); // SizeTwiddled
    head.extend_from_slice(&0u32.to_le_bytes()); // libid (empty)
    head.extend_from_slice(&[0; 6]); // reserved
    head.extend_from_slice(&[0x30, 0x00]); // Reserved3
    for (what, tail) in [
        ("cut after the 0x0030 token", vec![0u8; 2]),
        ("cut inside the GUID / cookie after the extended libid", {
            let mut t = vec![0u8; 4];
            t.extend_from_slice(&0u32.to_le_bytes());
            t.extend_from_slice(&[0; 10]);
            t
        }),
    ] {
        for cut in (0..dir.len() - 1).filter(|&i| dir[i] == 0x16 && dir[i + 1] == 0x00) {
            let mut d = dir[..cut].to_vec();
            d.extend_from_slice(&head);
            d.extend_from_slice(&tail);
            let file = cfb_mini("dir", &ovba_compress_literal(&d));
            let n = file.len();
            no_panic(&format!("REFERENCECONTROL at {cut}, {what}"), move || {
                let _ = calamine::vba::VbaProject::new(&mut Cursor::new(file), n);
            });
        }
    }
    finish();
}

#[test]
fn kf_c06_vba_compressed_container_hostile() {
    // chunk header with a wrong signature; uncompressed chunk shorter than 4096 bytes; copy token before any literal
    for (what, comp) in [
        ("chunk signature 0b000", vec![0x01u8, 0x05, 0x80, 0, b'a', b'b', b'c']),
        ("raw chunk of 3 bytes", vec![0x01u8, 0x02, 0x30, b'a', b'b', b'c']),
        ("copy token with nothing to copy", vec![0x01u8, 0x03, 0xB0, 0x01, 0x00, 0x00]),
        ("empty stream", vec![]),
        ("header cut after the signature byte", vec![0x01u8, 0x03]),
    ] {
        let file = cfb_mini("dir", &comp);
        let n = file.len();
        no_panic(what, move || {
            let _ = calamine::vba::VbaProject::new(&mut Cursor::new(file), n);
        });
    }
    finish();
}

// R-PANIC

#[test]
fn kf_c06_sheets_worksheet_range_ref_is_total() {
    let wb = open_workbook_auto_from_rs(Cursor::new(fixture("date.xls"))).unwrap();
    let mut wb = wb;
    let name = wb.sheet_names()[0].clone();
    no_panic("Sheets::worksheet_range_ref on an xls workbook", move || {
        let _ = wb.worksheet_range_ref(&name).map(|r| r.get_size());
    });
}

// mutation recipes recorded by the triage harness (fixture, part, operation) ----------------------

// ==========================================================================================
// feature "picture": OfficeArt records of the MsoDrawingGroup record (run with `--features picture`)
#[cfg(feature = "picture")]
fn art(ver_ins: u16, typ: u16, data: &[u8]) -> Vec<u8> {
    let mut v = Vec::new();
    v.extend_from_slice(&ver_ins.to_le_bytes());
    v.extend_from_slice(&typ.to_le_bytes());
    v.extend_from_slice(&(data.len() as u32).to_le_bytes());
    v.extend_from_slice(data);
    v
}
#[cfg(feature = "picture")]
#[test]
fn kf_c06_xls_art_records_hostile() {
    let open = |group: Vec<u8>| {
        let bytes = xls_file(&[(0x00EB, group)], &[]);
        if let Ok(wb) = Xls::new(Cursor::new(bytes)) {
            let _ = wb.pictures();
        }
    };
    // OfficeArtFBSE shorter than its fixed part, and with a name length pointing beyond it
    for len in [0usize, 10, 33, 34, 36, 40] {
        let mut d = vec![0u8; len];
        if len > 33 {
            d[33] = 200;
        }
        let g = art(0x0002, 0xF007, &d);
        no_panic(&format!("OfficeArtFBSE of {len} bytes"), || open(g));
    }
    // blip records with an instance the reader does not list, and shorter than their header
    for typ in [0xF01Au16, 0xF01B, 0xF01C, 0xF01D, 0xF01E, 0xF01F, 0xF029, 0xF02A] {
        let g = art(0x0000, typ, &[0u8; 80]);
        no_panic(&format!("blip {typ:#06x} with instance 0"), || open(g));
        let inst: u16 = match typ { 0xF01A => 0x3D4, 0xF01B => 0x216, 0xF01C => 0x542, 0xF01D | 0xF02A => 0x46A, 0xF01E => 0x6E0, 0xF01F => 0x7A8, _ => 0x6E4 };
        let g = art(inst << 4, typ, &[0u8; 5]);
        no_panic(&format!("blip {typ:#06x} of 5 bytes"), || open(g));
    }
    finish();
}

#[test]
fn kf_c06_mutation_recipes() {
    let list = include_str!("c06_mutations.tsv");
    let mut failures = Vec::new();
    for line in list.lines() {
        if line.is_empty() || line.starts_with('#') {
            continue;
        }
        let f: Vec<&str> = line.split('\t').collect();
        let (fx, part, op, a, b) = (f[0], f[1], f[2], f[3].parse::<usize>().unwrap(), f[4].parse::<usize>().unwrap());
        let src = fixture(fx);
        let bytes = if part == "-" {
            let mut m = src.clone();
            if op == "set" {
                m[a] = b as u8
            } else {
                m.truncate(a)
            }
            m
        } else {
            let mut parts = unzip(&src);
            let p = parts.iter_mut().find(|p| p.0 == part).unwrap();
            if op == "set" {
                p.1[a] = b as u8
            } else {
                p.1.truncate(a)
            }
            zipup(&parts)
        };
        let kind = kind_of(fx);
        let r = with_timeout(20, move || std::panic::catch_unwind(|| exercise(bytes, kind)).is_ok());
        match r {
            Some(true) => {}
            Some(false) => failures.push(format!("{fx} {part} {op} {a} {b}: panic (expected site {})", f.get(5).unwrap_or(&""))),
            None => failures.push(format!("{fx} {part} {op} {a} {b}: no result within 20 s")),
        }
    }
    assert!(failures.is_empty(), "{} of the recorded single-byte mutations / truncations still fail:\n{}", failures.len(), failures.join("\n"));
}
