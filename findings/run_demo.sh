#!/bin/sh
# findings/run_demo.sh <worktree-of-calamine> [demo-file] [test filter] [cargo feature flags]
# Copies a demo file into <worktree>/tests, runs it offline, removes it again.  Triage aid only.
set -e
WT="$1"; DEMO="${2:-$(dirname "$0")/demos/kf_demos.rs}"; FILTER="$3"; FEAT="$4"
NAME="zz_$(basename "$DEMO" .rs)"
cp "$DEMO" "$WT/tests/$NAME.rs"
trap 'rm -f "$WT/tests/$NAME.rs"' EXIT
cd "$WT" && CARGO_NET_OFFLINE=true cargo test --offline $FEAT --test "$NAME" -- $FILTER 2>&1 | grep -E "^test |test result|error|panicked|warning: unused" | head -80
