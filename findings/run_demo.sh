#!/bin/sh
# findings/run_demo.sh <worktree-of-calamine> [demo-file] [test filter] [cargo feature flags]
# Copies a demo file (and its data files) into <worktree>/tests, builds it offline and runs every test in its
# own process under a 4 GB address-space limit (a demonstration may abort on allocation failure).  Triage aid only.
WT="$1"; DEMO="${2:-$(dirname "$0")/demos/kf_demos.rs}"; FILTER="$3"; FEAT="$4"
NAME="zz_$(basename "$DEMO" .rs)"
cp "$DEMO" "$WT/tests/$NAME.rs"
cp "$(dirname "$DEMO")"/*.tsv "$(dirname "$DEMO")"/*.bin "$WT/tests/" 2>/dev/null || true
trap 'rm -f "$WT/tests/$NAME.rs" "$WT"/tests/c06_mutations.tsv "$WT"/tests/vba_dir.bin' EXIT
cd "$WT" || exit 2
BIN=$(CARGO_NET_OFFLINE=true cargo test --offline $FEAT --test "$NAME" --no-run --message-format=json 2>/dev/null | python3 -c "
import sys,json
for l in sys.stdin:
    try: d=json.loads(l)
    except Exception: continue
    if d.get('reason')=='compiler-artifact' and d.get('executable') and d['target']['name']=='$NAME': print(d['executable'])
" | tail -1)
if [ -z "$BIN" ]; then CARGO_NET_OFFLINE=true cargo test --offline $FEAT --test "$NAME" --no-run 2>&1 | grep -E "^error" -A6 | head -40; echo "BUILD FAILED"; exit 2; fi
pass=0; fail=0
for t in $("$BIN" --list 2>/dev/null | grep ": test" | sed 's/: test//' | grep "$FILTER"); do
  out=$( (ulimit -v 4000000; timeout 300 "$BIN" --exact "$t" --test-threads 1 2>&1) ); rc=$?
  if [ $rc -eq 0 ]; then echo "test $t ... ok"; pass=$((pass+1)); else
    why=$(echo "$out" | grep -E "panicked at|the reader panicked|memory allocation|must |allocate|assertion|bytes" | head -3 | cut -c1-300 | tr '\n' ' ')
    echo "test $t ... FAILED (exit $rc) $why"; fail=$((fail+1)); fi
done
echo "demo result: $pass passed; $fail failed"
