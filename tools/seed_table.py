#!/usr/bin/env python3
"""tools/seed_table.py -- markdown table of seeded changes vs the checks that report them (from seeded/matrix.json),
and refresh of each seeded/<id>/meta.json (caught_by, violations_reported)."""
import json, os, re, sys
VERIF = os.path.dirname(os.path.dirname(os.path.abspath(__file__)))
M = json.load(open(os.path.join(VERIF, "seeded", "matrix.json")))
rows = []
for name in sorted(M, key=lambda n: (n.split("_")[0], "r2" in n, n)):
    e = M[name]
    d = os.path.join(VERIF, "seeded", name)
    if not os.path.isdir(d):
        continue
    mp = os.path.join(d, "meta.json")
    meta = json.load(open(mp)) if os.path.exists(mp) else {}
    caught = e.get("caught_by", [])
    vio = {p: v.get("violations", [])[:4] for p, v in e.get("results", {}).items() if v.get("exit") == 1}
    if "--write" in sys.argv:
        meta["caught_by"] = caught
        meta["violations_reported"] = vio
        json.dump(meta, open(mp, "w"), indent=1)
    # one-line description: first changed file + first added line of the patch
    patch = open(os.path.join(d, "patch.diff")).read()
    f = re.search(r"^\+\+\+ b/(\S+)", patch, re.M)
    rules = sorted({k.split("|")[1] if "|" in k else k for v in vio.values() for k in v})
    own = name.split("_")[0]
    rows.append((name, f.group(1) if f else "?", "yes" if own in caught else ("other: " + ",".join(caught) if caught else "**no**"), ", ".join(caught), ", ".join(rules)[:90]))
print("| change | file | reported by its own property's check | all checks reporting | rules |")
print("|---|---|---|---|---|")
for r in rows:
    print("| %s | %s | %s | %s | %s |" % r)
n = len(rows)
print()
print("%d changes; %d reported by the check of their own property; %d reported by some check; %d reported by none" % (
    n, sum(1 for r in rows if r[2] == "yes"), sum(1 for r in rows if r[3]), sum(1 for r in rows if not r[3])))
