#!/usr/bin/env python3
"""Pretty-print the MIR facts of one function: tools/mirpp.py <fn-name-suffix> [config]"""
import sys, json, os
sys.path.insert(0, os.path.dirname(os.path.dirname(os.path.abspath(__file__))))
from rules import extract
from rules.kit import Facts, norm

def pl(p):
    s = "_%d" % p["l"]
    for e in p.get("p") or []:
        if e == "*": s = "(*%s)" % s
        elif isinstance(e, str): s += "." + e
        elif "f" in e: s += ".%s" % (e.get("n") or e["f"])
        elif "idx" in e: s += "[_%d]" % e["idx"]
        elif "cidx" in e: s += "[%s%d of %d]" % ("-" if e["from_end"] else "", e["cidx"], e["minlen"])
        elif "sub_from" in e: s += "[%d..%s%d]" % (e["sub_from"], "-" if e["from_end"] else "", e["sub_to"])
        elif "dc" in e: s = "(%s as %s)" % (s, e.get("n") or e["dc"])
    return s
def op(o):
    if "copy" in o: return pl(o["copy"])
    if "move" in o: return "move " + pl(o["move"])
    c = o["const"]
    for k in ("int", "str", "fn", "float", "txt"):
        if k in c: return "const %s%s" % (("" if k != "fn" else "fn "), repr(c[k]) if k == "str" else c[k])
    return "const ?" + c.get("ty", "")
def rv(r):
    k = r["k"]
    if k == "Use": return op(r["a"])
    if k == "Ref": return "&%s%s" % ("mut " if r["mut"] else "", pl(r["place"]))
    if k == "RawPtr": return "&raw " + pl(r["place"])
    if k == "Cast": return "%s as %s (%s)" % (op(r["a"]), r["ty"], r["ck"])
    if k == "BinaryOp": return "%s(%s, %s)" % (r["op"], op(r["a"]), op(r["b"]))
    if k == "UnaryOp": return "%s(%s)" % (r["op"], op(r["a"]))
    if k == "Discriminant": return "discr(%s)" % pl(r["place"])
    if k == "Aggregate": return "%s%s(%s)" % (r["ak"], (":" + r.get("adt", "") + "::" + r.get("variant", "")) if r["ak"] == "Adt" else "", ", ".join(op(x) for x in r["ops"]))
    if k == "Repeat": return "[%s; %s]" % (op(r["a"]), r.get("n"))
    return k
def main():
    name = sys.argv[1]; cfg = sys.argv[2] if len(sys.argv) > 2 else "default"
    p, h, s = extract.ensure_facts(os.environ.get("CALAMIR_REPO", "/repo"), cfg)
    F = Facts(p)
    for n, ms in F.mir.items():
        if not n.endswith(name): continue
        for m in ms:
            print("fn", n, m["span"]["f"], m["span"]["l"], "args", m["arg_count"])
            names = {d["place"]["l"]: d["name"] for d in m["dbg"] if not d["place"].get("p")}
            for i, l in enumerate(m["locals"]):
                print("  let _%d: %s  %s" % (i, l["ty"], names.get(i, "")))
            for bi, b in enumerate(m["blocks"]):
                print(" bb%d%s:" % (bi, " (cleanup)" if b["cleanup"] else ""))
                for st in b["stmts"]:
                    if st["k"] == "Assign": print("    %s = %s    // %s:%d" % (pl(st["place"]), rv(st["rv"]), st["span"]["f"].split("/")[-1], st["span"]["l"]))
                    else: print("    ", st["k"], st.get("txt", ""))
                t = b["term"]
                if not t: continue
                k = t["k"]
                if k == "Call": print("    %s = %s(%s) -> bb%s    // %s" % (pl(t["dest"]), norm(t.get("resolved") or t.get("callee")) or op(t["func"]), ", ".join(op(a) for a in t["args"]), t.get("t"), t["span"]["l"]))
                elif k == "SwitchInt": print("    switch(%s) [%s] else bb%d" % (op(t["discr"]), ", ".join("%d: bb%d" % (v, g) for v, g in zip(t["vals"], t["tgts"])), t["otherwise"]))
                elif k == "Assert": print("    assert(%s == %s) %s -> bb%d   // %d" % (op(t["cond"]), t["expected"], {kk: (op(vv) if isinstance(vv, dict) else vv) for kk, vv in t["msg"].items()}, t["t"], t["span"]["l"]))
                elif k in ("Goto", "Drop"): print("    %s -> bb%d" % (k.lower() + ((" " + pl(t["place"])) if k == "Drop" else ""), t["t"]))
                else: print("    " + k)
main()
