#!/usr/bin/env python3
"""tools/c06_sites.py <repo> <out.json>: dump the MIR sites (key, kind, file, line, proved, tainted, detail) of a tree"""
import sys, os, json
sys.path.insert(0, os.path.dirname(os.path.dirname(os.path.abspath(__file__))))
repo, out = sys.argv[1], sys.argv[2]
os.environ["CALAMIR_REPO"] = repo
from rules import runner, r_c06
ctx = runner.Ctx(repo, "quick")
rows = []
for key, s, r in r_c06.site_rows(ctx, "default"):
    rows.append({"key": key, "kind": s.kind, "file": s.span.get("f"), "line": s.span.get("l"), "proved": s.proved, "tainted": s.tainted, "req": bool(s.req), "detail": s.detail, "fn": s.fn})
json.dump(rows, open(out, "w"), indent=0)
print(len(rows), "sites;", sum(1 for r in rows if not r["proved"] and r["tainted"] and not r["req"]), "open")
