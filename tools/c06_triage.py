#!/usr/bin/env python3
"""tools/c06_triage.py  -- match open C06 sites with panics recorded by the mutation harness (/tmp/tri/out),
via the key -> line map of the tree the harness was built from (/tmp/sites_old.json)."""
import json, glob, os, re, sys, collections
old = json.load(open("/tmp/sites_old.json"))
new = json.load(open("/tmp/sites_new.json"))
old_by_key = {r["key"]: r for r in old}
# fuzz records
recs = []   # (fixture, mutation, frames[list of file:line], loc, msg)
for p in glob.glob("/tmp/tri/out/*.txt"):
    fx = os.path.basename(p)[:-4]
    for line in open(p):
        line = line.rstrip("\n")
        if not line or line.startswith("ABORT"):
            if line.startswith("ABORT"):
                k, v = line.split("\t", 1)
                mut, why = v.split(" :: ", 1)
                recs.append((fx, mut, [], "ABORT", why.strip()))
            continue
        k, v = line.split("\t", 1)
        mut, rest = v.split(" :: ", 1)
        parts = rest.split(" | ")
        frames = parts[0].split(" < ") if parts[0] else []
        loc = parts[1].replace("/repo/", "") if len(parts) > 1 else ""
        msg = parts[2] if len(parts) > 2 else ""
        recs.append((fx, mut, frames, loc, msg))
by_line = collections.defaultdict(list)
for fx, mut, frames, loc, msg in recs:
    lines = [loc] + frames[:3]
    for i, l in enumerate(lines):
        if l and l != "ABORT":
            by_line[l].append((i, fx, mut, loc, msg))
open_new = [r for r in new if not r["proved"] and r["tainted"] and not r["req"]]
demo = {}
for r in open_new:
    o = old_by_key.get(r["key"])
    if not o:
        continue
    l = "%s:%s" % (o["file"], o["line"])
    if l in by_line:
        best = sorted(by_line[l])[0]
        demo[r["key"]] = {"fixture": best[1], "mutation": best[2], "panic_at": best[3], "message": best[4], "line_in_e368ea1": l}
groups = collections.OrderedDict()
for r in open_new:
    groups.setdefault(r["fn"], []).append(r)
summary = []
for fn, rs in groups.items():
    d = [r["key"] for r in rs if r["key"] in demo]
    summary.append((fn, len(rs), len(d)))
for fn, n, d in sorted(summary, key=lambda x: -x[1]):
    print("%3d sites %3d demonstrated  %s" % (n, d, fn))
print("total open", len(open_new), "demonstrated", len(demo), "groups", len(groups), "groups with demo", sum(1 for _, n, d in summary if d))
json.dump({"demo": demo, "groups": {fn: [r["key"] for r in rs] for fn, rs in groups.items()}}, open("/verif/findings/c06_triage.json", "w"), indent=1)

# ---- second source: enumerated demo cases on the current tree (/tmp/kf_enum.txt: test \t loc | frames \t case \t msg)
enum_by_line = collections.defaultdict(list)
if os.path.exists("/tmp/kf_enum.txt"):
    for line in open("/tmp/kf_enum.txt"):
        f = line.rstrip("\n").split("\t")
        if f and f[0] == "KF":
            f = f[1:]
        if len(f) < 4:
            continue
        test, locf, case, msg = f[0], f[1], f[2], f[3]
        loc, _, frames = locf.partition(" | ")
        fr = [x.strip() for x in frames.split(" < ") if x.strip()]
        lines = [loc.strip()] + fr[:3]
        for i, l in enumerate(lines):
            enum_by_line[l].append((i, test, case, loc.strip(), msg))
demo2 = {}
for r in open_new:
    l = "%s:%s" % (r["file"], r["line"])
    if l in enum_by_line:
        b = sorted(enum_by_line[l])[0]
        demo2[r["key"]] = {"demo_test": b[1], "case": b[2], "panic_at": b[3], "message": b[4][:120]}
alld = set(demo) | set(demo2)
print("enumerated-demo matches", len(demo2), "union", len(alld))
summary = []
for fn, rs in groups.items():
    d = [r["key"] for r in rs if r["key"] in alld]
    summary.append((fn, len(rs), len(d)))
for fn, n, d in sorted(summary, key=lambda x: -x[1]):
    print("%3d sites %3d demonstrated  %s" % (n, d, fn))
print("groups", len(groups), "with demo", sum(1 for _, n, d in summary if d), "sites", len(open_new), "demonstrated", len(alld))
json.dump({"demo": demo, "demo2": demo2, "groups": {fn: [r["key"] for r in rs] for fn, rs in groups.items()}, "rows": {r["key"]: r for r in open_new}}, open("/verif/findings/c06_triage.json", "w"), indent=1)
