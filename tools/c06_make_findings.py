#!/usr/bin/env python3
"""tools/c06_make_findings.py -- (triage aid) turn /verif/findings/c06_triage.json into known_findings.json entries
and audited_safe.json entries for C06.  Run by hand after triage; the result is committed; checks never write it."""
import json, re, collections, os
VERIF = os.path.dirname(os.path.dirname(os.path.abspath(__file__)))
t = json.load(open("/verif/findings/c06_triage.json"))
rows, groups = t["rows"], t["groups"]
direct = dict(t["demo2"])
for k, v in t["demo"].items():
    direct.setdefault(k, v)

# The analysis became more precise after the triage run (argument intervals of private functions bound their
# parameters; a constant need on `param[c..]` moves to the parameter and from there to the call sites; guard helpers
# are summarised).  Same sites, new signatures:
REKEY = {
    "vba::VbaProject::from_cfb|R-INDEX|call from_stream needs 4 of local#Continue.0": "vba::VbaProject::from_cfb|R-INDEX|call from_stream needs 10 of local",
    "vba::VbaProject::from_cfb|R-INDEX|call read_dir_information needs 10 of local#Continue.0": "vba::VbaProject::from_cfb|R-INDEX|call read_dir_information needs 20 of local",
    "vba::VbaProject::from_cfb|R-INDEX|call read_modules needs 4 of local#Continue.0": "vba::VbaProject::from_cfb|R-INDEX|call read_modules needs 12 of local",
    "vba::read_variable_record|R-INDEX|split_at bounded64 of arg1": "vba::read_variable_record|R-INDEX|split_at bounded32 of arg1",
    "xls::read_dbcs|R-ARITH|u64 bounded64 - src64": "xls::read_dbcs|R-ARITH|u64 bounded16 - src64",
}
# ... and sites that are now discharged: fixed-offset reads behind `param[c..]` whose need is reported once at the call
# site in from_cfb (listed above); `len * mult` with mult always 1; a capacity bounded by 65535
GONE = {
    "vba::Reference::from_stream|R-INDEX|[a..] 6 of arg1", "vba::Reference::from_stream|R-INDEX|[a..] 6 of arg1#2", "vba::Reference::from_stream|R-INDEX|[a..] 6 of arg1#3",
    "vba::read_dir_information|R-INDEX|[a..] 10 of arg1#2", "vba::read_dir_information|R-INDEX|[a..b] 2 of arg1", "vba::read_modules|R-INDEX|[a..] 8 of arg1",
    "vba::read_variable_record|R-ARITH|u64 src32 * param2", "xls::read_dbcs|R-ALLOC|with_capacity bounded64",
    # the shared-formula table became a map (fix a32db5e): nothing is left of these
}
groups = {fn: [REKEY.get(k, k) for k in ks if k not in GONE] for fn, ks in groups.items()}
for o, n in REKEY.items():
    if o in direct:
        direct[n] = direct.pop(o)
    if o in rows:
        rows[n] = rows[o]

AUDIT = [
    # (function regex, key regex, reason)
    (r"<xls[bx]::Xls[bx] as ReaderRef>::worksheet_range_ref$", r"R-PANIC\|expect", "the enclosing `if cells.first().map_or(false, ..)` is only true when `cells` is non-empty, so `cells.first()` is Some"),
    (r"xlsx::Xlsx::(get_table_meta|merged_regions|table_names|table_names_in_sheet)$", r"R-PANIC\|expect", "documented call-order precondition of the public API (load_tables / load_merged_regions first); does not depend on the file"),
    (r"xlsx::Xlsx::read_table_metadata$", r"R-PANIC\|expect", "sheet paths are normalised by read_workbook to `xl/<kind>/..` with kind in worksheets|chartsheets|dialogsheets (anything else is rejected), so both rfind('/') calls find a separator"),
    (r"xlsx::Xlsx::read_table_metadata$", r"R-INDEX\|\[(\.\.b|a\.\.)\]", "`new_index` comes from rfind on the same string; `target` was tested with starts_with(\"../\") so it has at least 3 bytes"),
    (r"cfb::Cfb::new$", r"R-PANIC\|unwrap", "`difat` starts with the 109 header entries and is only extended before each pop, so pop() is Some"),
    (r"cfb::Header::from_reader::\{closure#0\}$", r"R-PANIC", "the slice comes from `buf.get(0..8)`: exactly 8 bytes"),
    (r"cfb::decompress_stream::\{closure#0\}$", r"", "`i` ranges over 4..16 and POWER_2 has 16 entries"),
    (r"utils::to_u32::\{closure#0\}$", r"", "chunks(4) of a slice whose length was asserted to be a multiple of 4 (the assert itself is a separate finding)"),
    (r"xls::rk_num$", r"copy_from_slice", "both callers pass exactly 6 bytes (parse_rk slices r[4..10]; parse_mul_rk iterates chunks(6) over r[4..len-2] after checking len == 6 + 6n), so rk[2..] has the 4 bytes of v[4..]"),
    (r"xls::parse_mul_rk$", r"call rk_num needs 3", "chunks(6) over a region whose length is a non-zero multiple of 6 (checked by `r.len() != 6 + 6 * n`): every chunk has 6 bytes"),
    (r"cfb::XlsEncoding::decode_to$", r"", "`i < l` from take(l).enumerate() and bytes.len() == 2*l; l <= stream.len() <= isize::MAX so 2*i and l*2 cannot overflow"),
    (r"xlsb::RecordIter::fill_buffer$", r"R-ARITH", "the loop runs at most three times adding 7-bit groups shifted by 7, 14, 21: len < 2^28"),
    (r"xlsx::cells_reader::XlsxCellReader::next_(cell|formula)$", r"R-ARITH\|u32 src32 \+ 1", "row / column indices come from references of at most 9 digits / 6 letters (longer ones already fail in get_row_and_optional_column, see that finding) or grow by one per element read: an overflow needs more than 2^32 XML elements"),
    (r"xlsx::offset_cell_name$", r"R-ARITH\|i64", "the offsets are differences of u32 coordinates plus a u32 (|offset| < 2^34), the cell coordinate is a u32: the i64 sum cannot overflow"),
    (r"xlsx::cells_reader::XlsxCellReader::next_formula$", r"R-ARITH\|u32 src32 \+ iter", "i <= end - start, so start + i <= end (a u32)"),
    (r"xlsb::Xlsb::read_workbook::\{closure#0\}$", r"R-INDEX\|index src32 of", "the arm's match guard is `p >= 0 && (p as usize) < sheets.len()`"),
    (r"xls::parse_formula$", r"R-INDEX\|\[a\.\.\] bounded64 of sub\(arg1\)$", "`rgce = &rgce[1 + used..]` (fix 32fe2c7): `used` = 1 + the byte count XlsEncoding::decode_to returns for the slice `&rgce[2..]`, which is at most that slice's length (decode_to slices `&stream[..bytes]` itself, proved there), so 1 + used <= rgce.len(); the analysis has no return summary for tuple results"),
    (r"xls::(parse_formula|read_unicode_string_no_cch)$", r"R-ARITH\|u64 1 \+ src64$", "1 + the byte count returned by XlsEncoding::decode_to (fix 32fe2c7): the count is bounded by the length of a slice in memory (<= isize::MAX), so the addition cannot overflow"),
    (r"ods::get_range$", r"R-INDEX\|\[a\.\.\] unk of local$", "`&empty_cells[col_min..]` (fix d253b15): empty_cells has col_max + 1 entries and col_min <= col_max, both being positions of non-empty cells (position <= rposition of the same row) in rows that exist because row_min is Some"),
    (r"ods::get_range$", r"R-INDEX", "cols[] holds prefix lengths of `cells` (pushed by read_table after every row, monotone, last == cells.len()); col_min / col_max are positions of non-empty cells inside the rows that reach these slices (empty rows `continue` first); the Less/Equal/Greater arms compare row.len() with col_max + 1"),
    (r"ods::get_range$", r"R-ALLOC", "cells_len and col_max + 1 are extents of vectors already materialised from the input (indices, not repeat counts)"),
]
MANUAL_DEMO = {
    "ods::get_range": "kf_c06_ods_repeat_count_arithmetic (panic at the repeat-count additions), kf_c06_ods_repeat_counts_do_not_amplify (memory)",
    "ods::read_row": "kf_c06_ods_repeat_counts_do_not_amplify (number-columns-repeated cases: 490 MB for a 45 KB file)",
    "ods::get_datatype": "kf_c06_ods_repeat_counts_do_not_amplify (text:s count case)",
    "xlsx::cells_reader::XlsxCellReader::next_formula": "kf_c06_xlsx_shared_formula_ref_does_not_amplify (78 MB for a 2 KB file); the two `end - start` subtractions repeat the subtraction that already fails in xlsx::get_dimension (kf_c06_xlsx_hostile_cell_references, reversed ref)",
    "xlsb::RecordIter::fill_buffer": "kf_c06_xlsb_record_length_does_not_size_allocation (a 6 byte part requests 268435455 bytes)",
    "cfb::Header::from_reader": "kf_c06_cfb_header_counts_do_not_size_allocations (bytes 62..66)",
    "cfb::Cfb::new": "kf_c06_cfb_header_counts_do_not_size_allocations; kf_c06_cfb_cyclic_difat_chain_terminates",
    "cfb::Sectors::get": "kf_c06_cfb_header_counts_do_not_size_allocations (first directory sector); mutation recipes",
    "cfb::Sectors::get_chain": "kf_c06_cfb_cyclic_fat_chain_terminates; mutation recipes",
    "xls::parse_sst": "kf_c06_xls_sst_negative_count; kf_c06_xls_sst_count_does_not_size_allocation",
    "xls::Xls::parse_workbook": "kf_c06_xls_short_records; kf_c06_xls_dimensions_do_not_size_allocation_and_do_not_underflow; kf_c06_xls_boundsheet_position_beyond_stream",
    "<auto::Sheets as ReaderRef>::worksheet_range_ref": "kf_c06_sheets_worksheet_range_ref_is_total",
}

# sites that appeared after the triage run (e.g. through a fix: commit that follows the surrounding unchecked style):
# fn -> [(key, demonstration)]
LATER = {
    "vba::Reference::from_stream": [
        ("vba::Reference::from_stream|R-INDEX|[a..] 4 of arg1#2", "kf_c06_vba_reference_control_truncated: a REFERENCECONTROL record cut after its 0x0030 token panics at src/vba.rs:251 (range start index 4 out of range for slice of length 2)"),
        ("vba::Reference::from_stream|R-INDEX|[a..] 26 of arg1", "kf_c06_vba_reference_control_truncated: a REFERENCECONTROL record cut inside the GUID / cookie panics at src/vba.rs:253 (range start index 26 out of range for slice of length 10)"),
    ],
    "xls::parse_formula": [("xls::parse_formula|R-INDEX|[a..] bounded64 of sub(arg1)", "audited"), ("xls::parse_formula|R-ARITH|u64 1 + src64", "audited")],
    "xls::read_unicode_string_no_cch": [("xls::read_unicode_string_no_cch|R-ARITH|u64 1 + src64", "audited")],
    "ods::get_range": [("ods::get_range|R-INDEX|[a..] unk of local", "audited")],
    "xlsb::parse_formula": [
        ("xlsb::parse_formula|R-INDEX|[..b] 2 of sub(sub(arg1))", "kf_c06_xlsb_formula_tokens_truncated: token 0x19 0x04 followed by 0 or 1 payload bytes panics at the cOffset read (fix 5cb8b00 reads it as unchecked as its neighbours)"),
        ("xlsb::parse_formula|R-INDEX|[a..] 2*src16+4 of sub(sub(arg1))", "kf_c06_xlsb_formula_tokens_truncated: token 0x19 0x04 with cOffset 0x0505 and no jump table panics at the skip"),
    ],
}
audited, findings, leftovers = [], [], []
for fn, keys in groups.items():
    keys = list(dict.fromkeys(list(keys) + [k for k, _ in LATER.get(fn, [])]))
    for k, d in LATER.get(fn, []):
        direct[k] = {"demo_test": d.split(":")[0], "case": d, "message": ""}
    open_keys = []
    for k in keys:
        hit = None
        for fre, kre, why in AUDIT:
            if re.search(fre, fn) and re.search(kre, k.split("|", 1)[1]):
                hit = why
                break
        if hit:
            audited.append({"key": k, "reason": hit})
        else:
            open_keys.append(k)
    if not open_keys:
        continue
    dk = [k for k in open_keys if k in direct]
    if not dk and fn not in MANUAL_DEMO:
        leftovers.append((fn, open_keys))
        continue
    kinds = sorted({k.split("|")[1] for k in open_keys})
    demos = collections.Counter()
    examples = []
    for k in dk:
        d = direct[k]
        name = d.get("demo_test") or ("mutation of tests/%s" % d.get("fixture"))
        demos[name] += 1
        if len(examples) < 3:
            examples.append("%s -> %s" % (d.get("case") or d.get("mutation"), (d.get("message") or "")[:80]))
    findings.append({
        "id": "KF-C06-%s" % re.sub(r"[^A-Za-z0-9]+", "-", fn).strip("-"),
        "property": "C06",
        "rule": "/".join(kinds),
        "what_fails": "%s: %d unchecked site(s) (%s) reachable with file-derived data; %d demonstrated directly by a failing input, the others are further reads of the same record / token payload behind them" % (fn, len(open_keys), ", ".join(kinds), len(dk)),
        "demo": ("; ".join("%s (%d site(s))" % (n, c) for n, c in demos.most_common()) + ("; " + MANUAL_DEMO[fn] if fn in MANUAL_DEMO else "")) or MANUAL_DEMO.get(fn, ""),
        "examples": examples,
        "directly_demonstrated": sorted(dk),
        "site_keys": sorted(open_keys),
    })
findings.append({"id": "KF-C06-cfb-chase-fat", "property": "C06", "also_properties": ["C13"], "rule": "R-CHASE",
    "what_fails": "cfb::Sectors::get_chain follows `sector_id = fats[sector_id]` until ENDOFCHAIN with no other exit: a cyclic FAT chain never ends and the output vector grows until allocation fails (every reader that sniffs CFB is affected: xls, vba, and the xlsx/xlsb password check)",
    "demo": "kf_c06_cfb_cyclic_fat_chain_terminates (a 6 KB file aborts with 'memory allocation of 4294967296 bytes failed')",
    "directly_demonstrated": ["cfb::Sectors::get_chain|R-CHASE|while#1"], "site_keys": ["cfb::Sectors::get_chain|R-CHASE|while#1"]})
findings.append({"id": "KF-C06-cfb-chase-difat", "property": "C06", "also_properties": ["C13"], "rule": "R-CHASE",
    "what_fails": "cfb::Cfb::new walks the DIFAT chain (`sector_id = difat.pop()`; source comment: TODO check if in infinite loop) with no other exit: a DIFAT sector whose link points to itself is re-read forever while `difat` grows",
    "demo": "kf_c06_cfb_cyclic_difat_chain_terminates (no result within 15 s)",
    "directly_demonstrated": ["cfb::Cfb::new|R-CHASE|while#1"], "site_keys": ["cfb::Cfb::new|R-CHASE|while#1"]})
PIC_KEYS = ["xls::parse_pictures|R-INDEX|index 33 of local.data", "xls::parse_pictures|R-INDEX|[a..] src8+36 of local.data", "xls::parse_pictures|R-INDEX|[a..] src64 of local.data"] + \
    ["xls::parse_pictures|R-PANIC|panic unreachable" + ("" if i == 1 else "#%d" % i) for i in range(1, 8)]
findings.append({"id": "KF-C06-xls-parse-pictures", "property": "C06", "rule": "R-INDEX,R-PANIC", "config": "feature picture",
    "what_fails": "xls::parse_pictures (feature `picture`): an OfficeArtFBSE record shorter than 34 bytes or whose name length points beyond it is indexed unchecked (`r.data[33]`, `&r.data[skip..]`), a blip record with an unlisted instance hits `unreachable!()` (7 arms), and a blip shorter than its header is sliced unchecked (`&r.data[ext_skip.1..]`): Xls::new panics instead of returning Err",
    "demo": "kf_c06_xls_art_records_hostile (--features picture; 22 inputs, every one of the 10 sites reached: src/xls.rs:1537, 1538, 1548..1602, 1609)",
    "directly_demonstrated": PIC_KEYS, "site_keys": PIC_KEYS})
findings.append({"id": "KF-C06-cfb-reserved-sector-ids", "property": "C06", "rule": "R-CFBRES",
    "what_fails": "cfb: reserved sector numbers (>= 0xFFFFFFFA) reach Sectors::get: the FAT loader only filters ids >= DIFSECT (0xFFFFFFFC), so a DIFAT entry 0xFFFFFFFA / 0xFFFFFFFB is read as a sector; Sectors::get_chain only stops at ENDOFCHAIN, so a chain that runs into FREESECT / FATSECT / DIFSECT is followed.  get() computes id * sector_size and resizes its buffer to it: a 6 KB file aborts the process with 'memory allocation of 2199023252992 bytes failed'",
    "demo": "kf_c06_cfb_reserved_sector_ids_are_not_sectors (DIFAT entry 0xFFFFFFFA); kf_c06_cfb_chain_running_into_freesect (directory chain linked to FREESECT)",
    "directly_demonstrated": ["cfb::Cfb::new|R-CFBRES|get#2", "cfb::Sectors::get_chain|R-CFBRES|get#1"],
    "site_keys": ["cfb::Cfb::new|R-CFBRES|get#2", "cfb::Sectors::get_chain|R-CFBRES|get#1"]})
print("findings", len(findings), "sites", sum(len(f["site_keys"]) for f in findings), "audited", len(audited), "leftover groups", len(leftovers))
for fn, ks in leftovers:
    print("LEFTOVER", fn)
    for k in ks:
        print("    ", k.split("|", 1)[1][:80], "|", rows[k]["file"], rows[k]["line"], rows[k]["detail"][:80])
kf = json.load(open(os.path.join(VERIF, "known_findings.json")))
kf["findings"] = [f for f in kf["findings"] if f.get("property") != "C06" or not f["id"].startswith("KF-C06-")] + findings
json.dump(kf, open(os.path.join(VERIF, "known_findings.json"), "w"), indent=1)
au = json.load(open(os.path.join(VERIF, "audited_safe.json")))
au["sites"] = [a for a in au["sites"] if not a.get("c06")] + [dict(a, c06=True) for a in audited]
json.dump(au, open(os.path.join(VERIF, "audited_safe.json"), "w"), indent=1)
# mutation recipes for the demo file
rec = []
seen = set()
for k, d in t["demo"].items():
    if k in t["demo2"]:
        continue
    m = re.match(r"(?:part (\S+) )?(set byte|truncate to) (\d+)(?: to 0x([0-9A-F]{2}))?", d["mutation"])
    if not m:
        continue
    part, op, a, b = m.group(1) or "-", ("set" if m.group(2) == "set byte" else "trunc"), int(m.group(3)), int(m.group(4) or "0", 16)
    key = (d["fixture"], part, op, a, b)
    if key in seen:
        continue
    seen.add(key)
    rec.append("%s\t%s\t%s\t%d\t%d\t%s" % (d["fixture"], part, op, a, b, d["panic_at"]))
open(os.path.join(VERIF, "findings", "demos", "c06_mutations.tsv"), "w").write("# fixture\tpart\top\ta\tb\tpanic site (in the tree the harness was built from)\n" + "\n".join(sorted(rec)) + "\n")
print("mutation recipes", len(rec))
