#!/usr/bin/env python3
"""tools/prop_table.py -- markdown summary of the registry (rules/props.py): per property the rules run and what is / is not decided."""
import os, sys
sys.path.insert(0, os.path.dirname(os.path.dirname(os.path.abspath(__file__))))
from rules import props
R = props.registry()
for p in sorted(R):
    m = R[p]
    names = []
    for r in m["rules"]:
        n = getattr(r, "__name__", "rule")
        names.append(n)
    print("### %s" % p)
    print()
    print("*Rules run*: %s." % ", ".join("`%s`" % n for n in names))
    print()
    print("*Decided*: %s" % m["explanation"])
    print()
    print("*Not decided*: %s." % m["not_decided"].rstrip("."))
    print()
for p, why in sorted(props.NOT_APPLICABLE.items()):
    print("### %s — not applicable" % p)
    print()
    print(why + ".")
    print()
