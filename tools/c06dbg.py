#!/usr/bin/env python3
"""tools/c06dbg.py [fn-suffix ...]  -- run the MIR engine and print sites (all unproved if no fn given)"""
import sys, os, time, collections
sys.path.insert(0, os.path.dirname(os.path.dirname(os.path.abspath(__file__))))
from rules import extract, mirflow
from rules.kit import Facts
p, h, s = extract.ensure_facts(os.environ.get("CALAMIR_REPO", "/repo"))
F = Facts(p)
P = mirflow.Program(F)
files = {"src/cfb.rs", "src/vba.rs", "src/xls.rs", "src/xlsb/mod.rs", "src/xlsb/cells_reader.rs", "src/xlsx/mod.rs", "src/xlsx/cells_reader.rs", "src/ods.rs", "src/utils.rs", "src/auto.rs"}
t = time.time()
res = P.analyse(files)
c = collections.Counter()
for n, sites in res.items():
    for s_ in sites.values():
        c[(s_.kind, "proved" if s_.proved else ("req" if s_.req else ("unproved" if s_.tainted else "untainted")))] += 1
print("time %.1fs" % (time.time() - t), dict(sorted(c.items(), key=str)))
print("requires", {n: r for n, r in P.requires.items() if r})
want = sys.argv[1:]
for n in sorted(res):
    if want and not any(n.endswith(w) for w in want):
        continue
    ss = [s_ for k, s_ in sorted(res[n].items(), key=lambda kv: (kv[1].span.get("l", 0), str(kv[0])))]
    if not want:
        ss = [s_ for s_ in ss if not s_.proved and s_.tainted and not s_.req]
    if not ss:
        continue
    print("==", n)
    for s_ in ss:
        print("   %s %-8s %-24s %-40s | %s" % ("OK " if s_.proved else ("REQ" if s_.req else "-- "), s_.kind, s_.where, s_.sig[:40], s_.detail[:150]))
