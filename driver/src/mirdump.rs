//! MIR of every fn-like body, with resolved callees.

use crate::hirdump::{def_path, span_j};
use crate::json::J;
use rustc_hir::def_id::LocalDefId;
use rustc_middle::mir::{
    self, AggregateKind, AssertKind, BasicBlock, Body, Const, Operand, Place, PlaceElem, Rvalue, StatementKind, TerminatorKind,
};
use rustc_middle::ty::{self, Ty, TyCtxt};

struct Mx<'a, 'tcx> {
    tcx: TyCtxt<'tcx>,
    body: &'a Body<'tcx>,
    owner: LocalDefId,
}

fn ty_class<'tcx>(t: Ty<'tcx>) -> String {
    // coarse class used by the dataflow rules
    match t.kind() {
        ty::Bool => "bool".into(),
        ty::Char => "char".into(),
        ty::Int(i) => format!("i{}", i.bit_width().unwrap_or(64)),
        ty::Uint(u) => format!("u{}", u.bit_width().unwrap_or(64)),
        ty::Float(_) => "float".into(),
        ty::Ref(_, inner, _) | ty::RawPtr(inner, _) => format!("&{}", ty_class(*inner)),
        ty::Slice(inner) => format!("[{}]", ty_class(*inner)),
        ty::Array(inner, n) => {
            let n = n.try_to_target_usize_opt();
            match n {
                Some(n) => format!("[{};{}]", ty_class(*inner), n),
                None => format!("[{};?]", ty_class(*inner)),
            }
        }
        ty::Str => "str".into(),
        ty::Adt(def, args) => {
            let name = format!("{:?}", def.did());
            let _ = name;
            let mut s = String::from("adt:");
            s.push_str(&rustc_middle::ty::print::with_no_trimmed_paths!(format!("{}", t)));
            let _ = args;
            s
        }
        ty::Tuple(ts) if ts.is_empty() => "()".into(),
        ty::Tuple(_) => "tuple".into(),
        ty::Closure(..) => "closure".into(),
        ty::FnDef(..) => "fndef".into(),
        ty::FnPtr(..) => "fnptr".into(),
        ty::Never => "!".into(),
        ty::Param(_) => "param".into(),
        _ => "other".into(),
    }
}

trait ConstUsize {
    fn try_to_target_usize_opt(&self) -> Option<u64>;
}
impl<'tcx> ConstUsize for ty::Const<'tcx> {
    fn try_to_target_usize_opt(&self) -> Option<u64> {
        match self.kind() {
            ty::ConstKind::Value(v) => v.try_to_leaf().map(|s| s.to_uint(s.size()) as u64),
            _ => None,
        }
    }
}

impl<'a, 'tcx> Mx<'a, 'tcx> {
    fn place(&self, p: &Place<'tcx>) -> J {
        let mut projs = Vec::new();
        let mut pty = mir::PlaceTy::from_ty(self.body.local_decls[p.local].ty);
        for elem in p.projection.iter() {
            let j = match elem {
                PlaceElem::Deref => J::s("*"),
                PlaceElem::Field(idx, fty) => {
                    let mut name: Option<String> = None;
                    if let ty::Adt(adt, _) = pty.ty.kind() {
                        let vidx = pty.variant_index.unwrap_or(rustc_abi::FIRST_VARIANT);
                        if adt.is_enum() || adt.is_struct() || adt.is_union() {
                            if (vidx.as_usize()) < adt.variants().len() {
                                let v = adt.variant(vidx);
                                if idx.as_usize() < v.fields.len() {
                                    name = Some(v.fields[idx].name.as_str().to_string());
                                }
                            }
                        }
                    }
                    J::obj().fi("f", idx.as_usize() as i128).fo("n", name.map(J::Str)).fs("ty", ty_class(fty)).done()
                }
                PlaceElem::Index(l) => J::obj().fi("idx", l.as_usize() as i128).done(),
                PlaceElem::ConstantIndex { offset, min_length, from_end } => {
                    J::obj().fi("cidx", offset as i128).fi("minlen", min_length as i128).fb("from_end", from_end).done()
                }
                PlaceElem::Subslice { from, to, from_end } => J::obj().fi("sub_from", from as i128).fi("sub_to", to as i128).fb("from_end", from_end).done(),
                PlaceElem::Downcast(name, vidx) => {
                    J::obj().fi("dc", vidx.as_usize() as i128).fo("n", name.map(|n| J::s(n.as_str()))).done()
                }
                PlaceElem::OpaqueCast(_) => J::s("opaque"),
                PlaceElem::UnwrapUnsafeBinder(_) => J::s("unwrap_binder"),
            };
            projs.push(j);
            pty = pty.projection_ty(self.tcx, elem);
        }
        J::obj().fi("l", p.local.as_usize() as i128).f("p", if projs.is_empty() { J::Null } else { J::Arr(projs) }).done()
    }

    fn konst(&self, c: &mir::ConstOperand<'tcx>) -> J {
        let ty = c.const_.ty();
        let mut o = J::obj().fs("ty", ty_class(ty));
        match ty.kind() {
            ty::FnDef(did, args) => {
                o = o.fs("fn", def_path(self.tcx, *did));
                let env = ty::TypingEnv::post_analysis(self.tcx, self.owner);
                if args.len() != self.tcx.generics_of(*did).count() {
                } else if let Ok(Some(inst)) = ty::Instance::try_resolve(self.tcx, env, *did, args) {
                    if inst.def_id() != *did {
                        o = o.fs("resolved", def_path(self.tcx, inst.def_id()));
                    }
                }
                o = o.fs("fnty", format!("{}", ty));
            }
            _ => {
                let env = ty::TypingEnv::post_analysis(self.tcx, self.owner);
                if ty.is_integral() || ty.is_bool() || ty.is_char() {
                    if let Some(s) = c.const_.try_eval_scalar_int(self.tcx, env) {
                        let size = s.size();
                        let v: i128 = if ty.is_signed() { s.to_int(size) } else { s.to_uint(size) as i128 };
                        o = o.fi("int", v);
                    }
                } else if let Const::Val(mir::ConstValue::Slice { .. }, _) = c.const_ {
                    // string / byte-string literal
                    if let Const::Val(cv, cty) = c.const_ {
                        if let Some(bytes) = cv.try_get_slice_bytes_for_diagnostics(self.tcx) {
                            let _ = cty;
                            o = o.fs("str", String::from_utf8_lossy(bytes).to_string());
                        }
                    }
                } else if ty.is_floating_point() {
                    o = o.fs("float", format!("{}", c.const_));
                } else {
                    // promoted / unevaluated / ADT constants: keep the printed form (short)
                    let s = format!("{}", c.const_);
                    if s.len() < 200 {
                        o = o.fs("txt", s);
                    }
                    if let Const::Unevaluated(uv, _) = c.const_ {
                        o = o.fs("uneval", def_path(self.tcx, uv.def));
                        if let Some(p) = uv.promoted {
                            o = o.fi("promoted", p.as_usize() as i128);
                        }
                    }
                }
            }
        }
        o.done()
    }

    fn operand(&self, op: &Operand<'tcx>) -> J {
        match op {
            Operand::Copy(p) => J::obj().f("copy", self.place(p)).done(),
            Operand::Move(p) => J::obj().f("move", self.place(p)).done(),
            Operand::Constant(c) => J::obj().f("const", self.konst(c)).done(),
            Operand::RuntimeChecks(_) => J::obj().f("const", J::obj().fs("ty", "bool").fs("txt", "runtime_checks").done()).done(),
        }
    }

    fn rvalue(&self, rv: &Rvalue<'tcx>) -> J {
        match rv {
            Rvalue::Use(op, _) => J::obj().fs("k", "Use").f("a", self.operand(op)).done(),
            Rvalue::Repeat(op, n) => J::obj().fs("k", "Repeat").f("a", self.operand(op)).fo("n", n.try_to_target_usize_opt().map(|n| J::Int(n as i128))).done(),
            Rvalue::Ref(_, bk, p) => J::obj().fs("k", "Ref").fb("mut", matches!(bk, mir::BorrowKind::Mut { .. })).f("place", self.place(p)).done(),
            Rvalue::ThreadLocalRef(_) => J::obj().fs("k", "ThreadLocalRef").done(),
            Rvalue::RawPtr(_, p) => J::obj().fs("k", "RawPtr").f("place", self.place(p)).done(),
            Rvalue::Cast(kind, op, ty) => J::obj()
                .fs("k", "Cast")
                .fs("ck", format!("{:?}", kind).split('(').next().unwrap_or("").to_string())
                .f("a", self.operand(op))
                .fs("ty", ty_class(*ty))
                .done(),
            Rvalue::BinaryOp(op, ab) => J::obj().fs("k", "BinaryOp").fs("op", format!("{:?}", op)).f("a", self.operand(&ab.0)).f("b", self.operand(&ab.1)).done(),
            Rvalue::UnaryOp(op, a) => J::obj().fs("k", "UnaryOp").fs("op", format!("{:?}", op)).f("a", self.operand(a)).done(),
            Rvalue::Discriminant(p) => J::obj().fs("k", "Discriminant").f("place", self.place(p)).done(),
            Rvalue::Aggregate(kind, ops) => {
                let mut o = J::obj().fs("k", "Aggregate");
                match &**kind {
                    AggregateKind::Array(_) => o = o.fs("ak", "Array"),
                    AggregateKind::Tuple => o = o.fs("ak", "Tuple"),
                    AggregateKind::Adt(did, vidx, _, _, _) => {
                        let adt = self.tcx.adt_def(*did);
                        let v = adt.variant(*vidx);
                        o = o.fs("ak", "Adt").fs("adt", def_path(self.tcx, *did)).fs("variant", v.name.as_str()).f(
                            "fields",
                            J::Arr(v.fields.iter().map(|f| J::s(f.name.as_str())).collect()),
                        );
                    }
                    AggregateKind::Closure(did, _) => o = o.fs("ak", "Closure").fs("closure", def_path(self.tcx, *did)),
                    AggregateKind::RawPtr(..) => o = o.fs("ak", "RawPtr"),
                    _ => o = o.fs("ak", "Other"),
                }
                o.f("ops", J::Arr(ops.iter().map(|x| self.operand(x)).collect())).done()
            }
            Rvalue::CopyForDeref(p) => J::obj().fs("k", "Use").f("a", J::obj().f("copy", self.place(p)).done()).done(),
            Rvalue::WrapUnsafeBinder(op, _) => J::obj().fs("k", "Use").f("a", self.operand(op)).done(),
        }
    }

    fn bb(&self, b: BasicBlock) -> J {
        J::Int(b.as_usize() as i128)
    }

    fn assert_kind(&self, k: &AssertKind<Operand<'tcx>>) -> J {
        match k {
            AssertKind::BoundsCheck { len, index } => J::obj().fs("k", "BoundsCheck").f("len", self.operand(len)).f("index", self.operand(index)).done(),
            AssertKind::Overflow(op, a, b) => J::obj().fs("k", "Overflow").fs("op", format!("{:?}", op)).f("a", self.operand(a)).f("b", self.operand(b)).done(),
            AssertKind::OverflowNeg(a) => J::obj().fs("k", "OverflowNeg").f("a", self.operand(a)).done(),
            AssertKind::DivisionByZero(a) => J::obj().fs("k", "DivisionByZero").f("a", self.operand(a)).done(),
            AssertKind::RemainderByZero(a) => J::obj().fs("k", "RemainderByZero").f("a", self.operand(a)).done(),
            AssertKind::MisalignedPointerDereference { .. } => J::obj().fs("k", "Misaligned").done(),
            AssertKind::NullPointerDereference => J::obj().fs("k", "NullDeref").done(),
            AssertKind::InvalidEnumConstruction(_) => J::obj().fs("k", "InvalidEnum").done(),
            _ => J::obj().fs("k", "Other").done(),
        }
    }

    fn terminator(&self, t: &mir::Terminator<'tcx>) -> J {
        let sp = span_j(self.tcx, t.source_info.span);
        match &t.kind {
            TerminatorKind::Goto { target } => J::obj().fs("k", "Goto").f("t", self.bb(*target)).done(),
            TerminatorKind::SwitchInt { discr, targets } => {
                let mut vals = Vec::new();
                let mut tgts = Vec::new();
                for (v, t) in targets.iter() {
                    vals.push(J::Int(v as i128));
                    tgts.push(self.bb(t));
                }
                J::obj()
                    .fs("k", "SwitchInt")
                    .f("discr", self.operand(discr))
                    .fs("dty", ty_class(discr.ty(self.body, self.tcx)))
                    .f("vals", J::Arr(vals))
                    .f("tgts", J::Arr(tgts))
                    .f("otherwise", self.bb(targets.otherwise()))
                    .f("span", sp)
                    .done()
            }
            TerminatorKind::UnwindResume => J::obj().fs("k", "Resume").done(),
            TerminatorKind::UnwindTerminate(_) => J::obj().fs("k", "Terminate").done(),
            TerminatorKind::Return => J::obj().fs("k", "Return").f("span", sp).done(),
            TerminatorKind::Unreachable => J::obj().fs("k", "Unreachable").done(),
            TerminatorKind::Drop { place, target, .. } => J::obj().fs("k", "Drop").f("place", self.place(place)).f("t", self.bb(*target)).done(),
            TerminatorKind::Call { func, args, destination, target, fn_span, .. } => {
                let mut o = J::obj().fs("k", "Call").f("func", self.operand(func));
                let fty = func.ty(self.body, self.tcx);
                if let ty::FnDef(did, gargs) = fty.kind() {
                    o = o.fs("callee", def_path(self.tcx, *did));
                    let env = ty::TypingEnv::post_analysis(self.tcx, self.owner);
                    if gargs.len() != self.tcx.generics_of(*did).count() {
                    } else if let Ok(Some(inst)) = ty::Instance::try_resolve(self.tcx, env, *did, gargs) {
                        if inst.def_id() != *did {
                            o = o.fs("resolved", def_path(self.tcx, inst.def_id()));
                        }
                    }
                    // generic arguments as printed types (Self type first for trait methods)
                    let gs: Vec<J> = gargs.iter().filter_map(|g| g.as_type()).map(|t| J::s(format!("{}", t))).collect();
                    if !gs.is_empty() {
                        o = o.f("targs", J::Arr(gs));
                    }
                }
                o.f("args", J::Arr(args.iter().map(|a| self.operand(&a.node)).collect()))
                    .f("dest", self.place(destination))
                    .fo("t", target.map(|t| self.bb(t)))
                    .f("span", span_j(self.tcx, *fn_span))
                    .f("cspan", sp)
                    .done()
            }
            TerminatorKind::TailCall { func, args, .. } => J::obj()
                .fs("k", "TailCall")
                .f("func", self.operand(func))
                .f("args", J::Arr(args.iter().map(|a| self.operand(&a.node)).collect()))
                .done(),
            TerminatorKind::Assert { cond, expected, msg, target, .. } => J::obj()
                .fs("k", "Assert")
                .f("cond", self.operand(cond))
                .fb("expected", *expected)
                .f("msg", self.assert_kind(msg))
                .f("t", self.bb(*target))
                .f("span", sp)
                .done(),
            TerminatorKind::FalseEdge { real_target, .. } => J::obj().fs("k", "Goto").f("t", self.bb(*real_target)).done(),
            TerminatorKind::FalseUnwind { real_target, .. } => J::obj().fs("k", "Goto").f("t", self.bb(*real_target)).done(),
            TerminatorKind::Yield { .. } => J::obj().fs("k", "Yield").done(),
            TerminatorKind::CoroutineDrop => J::obj().fs("k", "CoroutineDrop").done(),
            TerminatorKind::InlineAsm { .. } => J::obj().fs("k", "InlineAsm").done(),
        }
    }
}

pub fn dump_body<'tcx>(tcx: TyCtxt<'tcx>, ldid: LocalDefId) -> J {
    let body: &Body<'tcx> = tcx.optimized_mir(ldid.to_def_id());
    let mx = Mx { tcx, body, owner: ldid };
    let mut locals = Vec::new();
    for (_l, d) in body.local_decls.iter_enumerated() {
        locals.push(J::obj().fs("ty", format!("{}", d.ty)).fs("c", ty_class(d.ty)).done());
    }
    let mut dbg = Vec::new();
    for v in body.var_debug_info.iter() {
        if let mir::VarDebugInfoContents::Place(p) = &v.value {
            dbg.push(J::obj().fs("name", v.name.as_str()).f("place", mx.place(p)).done());
        }
    }
    let mut blocks = Vec::new();
    for (_bb, data) in body.basic_blocks.iter_enumerated() {
        let mut stmts = Vec::new();
        for s in data.statements.iter() {
            match &s.kind {
                StatementKind::Assign(b) => {
                    let (p, rv) = &**b;
                    stmts.push(
                        J::obj().fs("k", "Assign").f("place", mx.place(p)).f("rv", mx.rvalue(rv)).f("span", span_j(tcx, s.source_info.span)).done(),
                    );
                }
                StatementKind::SetDiscriminant { place, variant_index } => {
                    stmts.push(J::obj().fs("k", "SetDiscriminant").f("place", mx.place(place)).fi("v", variant_index.as_usize() as i128).done());
                }
                StatementKind::Intrinsic(i) => {
                    stmts.push(J::obj().fs("k", "Intrinsic").fs("txt", format!("{:?}", i)).done());
                }
                _ => {}
            }
        }
        let term = match &data.terminator {
            Some(t) => mx.terminator(t),
            None => J::Null,
        };
        blocks.push(J::obj().f("stmts", J::Arr(stmts)).f("term", term).fb("cleanup", data.is_cleanup).done());
    }
    let did = ldid.to_def_id();
    let mut o = J::obj()
        .fs("def", def_path(tcx, did))
        .fs("dk", format!("{:?}", tcx.def_kind(did)))
        .f("span", span_j(tcx, body.span))
        .fi("arg_count", body.arg_count as i128)
        .f("locals", J::Arr(locals))
        .f("dbg", J::Arr(dbg))
        .f("blocks", J::Arr(blocks));
    if matches!(tcx.def_kind(did), rustc_hir::def::DefKind::Closure) {
        o = o.fs("parent", def_path(tcx, tcx.typeck_root_def_id(did)));
    }
    o.done()
}
