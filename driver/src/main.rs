//! calamir — fact extractor for the calamine static checks.
//!
//! Injected with RUSTC_WORKSPACE_WRAPPER under `cargo +nightly check`.  For every crate whose
//! name is listed in $CALAMIR_CRATES it writes $CALAMIR_OUT/<crate>.json holding
//!   * typed HIR of every fn-like body (generic JSON tree, resolved paths, types),
//!   * MIR of every fn-like body and closure (resolved callees, asserts, places),
//!   * ADT / impl / const facts.
//! All other crates are compiled by the unmodified compiler pipeline.

#![feature(rustc_private)]
#![allow(clippy::all)]

extern crate rustc_abi;
extern crate rustc_ast;
extern crate rustc_driver;
extern crate rustc_hir;
extern crate rustc_interface;
extern crate rustc_middle;
extern crate rustc_span;

mod hirdump;
mod json;
mod mirdump;

use json::J;
use rustc_driver::Compilation;
use rustc_hir::def::DefKind;
use rustc_hir::def_id::LOCAL_CRATE;
use rustc_middle::ty::TyCtxt;

struct Cb {
    crates: Vec<String>,
    out_dir: String,
}

impl rustc_driver::Callbacks for Cb {
    fn after_analysis<'tcx>(
        &mut self,
        _c: &rustc_interface::interface::Compiler,
        tcx: TyCtxt<'tcx>,
    ) -> Compilation {
        let name = tcx.crate_name(LOCAL_CRATE).to_string();
        if !self.crates.iter().any(|c| *c == name) {
            return Compilation::Continue;
        }
        // only the library target (cargo check --lib); a bin/test target of the same name is skipped
        let is_test = tcx.sess.opts.test;
        if is_test {
            return Compilation::Continue;
        }
        let facts = rustc_middle::ty::print::with_no_visible_paths!(rustc_middle::ty::print::with_no_trimmed_paths!(extract(tcx, &name)));
        let mut s = String::with_capacity(8 << 20);
        facts.write(&mut s);
        let path = format!("{}/{}.json", self.out_dir, name);
        let tmp = format!("{}.tmp.{}", path, std::process::id());
        std::fs::write(&tmp, s).expect("calamir: cannot write fact file");
        std::fs::rename(&tmp, &path).expect("calamir: cannot rename fact file");
        Compilation::Continue
    }
}

fn extract<'tcx>(tcx: TyCtxt<'tcx>, name: &str) -> J {
    let mut hir_bodies = Vec::new();
    let mut mir_bodies = Vec::new();
    for ldid in tcx.hir_body_owners() {
        let dk = tcx.def_kind(ldid);
        match dk {
            DefKind::Fn | DefKind::AssocFn => {
                hir_bodies.push(hirdump::dump_fn(tcx, ldid));
                mir_bodies.push(mirdump::dump_body(tcx, ldid));
            }
            DefKind::Closure => {
                mir_bodies.push(mirdump::dump_body(tcx, ldid));
            }
            DefKind::Const { .. } | DefKind::Static { .. } | DefKind::AssocConst { .. } => {
                hir_bodies.push(hirdump::dump_const(tcx, ldid));
            }
            _ => {}
        }
    }
    J::obj()
        .fs("crate", name)
        .f("features", J::Arr(features(tcx)))
        .f("hir", J::Arr(hir_bodies))
        .f("mir", J::Arr(mir_bodies))
        .f("adts", hirdump::dump_adts(tcx))
        .f("impls", hirdump::dump_impls(tcx))
        .done()
}

fn features<'tcx>(tcx: TyCtxt<'tcx>) -> Vec<J> {
    let mut v = Vec::new();
    for (k, val) in tcx.sess.config.iter() {
        if k.as_str() == "feature" {
            if let Some(val) = val {
                v.push(J::s(val.as_str()));
            }
        }
    }
    v
}

fn main() {
    let mut args: Vec<String> = std::env::args().collect();
    // RUSTC_WORKSPACE_WRAPPER: argv[1] is the real rustc path
    if args.len() > 1 && (args[1].ends_with("rustc") || args[1].contains("/rustc")) {
        args.remove(1);
    }
    let crates = std::env::var("CALAMIR_CRATES").unwrap_or_else(|_| "calamine".to_string());
    let out_dir = std::env::var("CALAMIR_OUT").unwrap_or_else(|_| ".".to_string());
    let mut cb = Cb { crates: crates.split(',').map(|s| s.trim().to_string()).collect(), out_dir };
    rustc_driver::run_compiler(&args, &mut cb);
}
