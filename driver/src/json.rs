//! Minimal JSON value + writer (the driver has no cargo dependencies).

use std::fmt::Write;

#[derive(Clone, Debug)]
pub enum J {
    Null,
    Bool(bool),
    Int(i128),
    Str(String),
    Arr(Vec<J>),
    Obj(Vec<(&'static str, J)>),
}

impl J {
    pub fn s<S: Into<String>>(s: S) -> J {
        J::Str(s.into())
    }
    pub fn obj() -> ObjB {
        ObjB(Vec::new())
    }
    pub fn write(&self, out: &mut String) {
        match self {
            J::Null => out.push_str("null"),
            J::Bool(b) => out.push_str(if *b { "true" } else { "false" }),
            J::Int(i) => {
                // JSON numbers beyond 2^53 lose precision in some readers; Python keeps them exact.
                let _ = write!(out, "{}", i);
            }
            J::Str(s) => write_str(s, out),
            J::Arr(a) => {
                out.push('[');
                for (i, v) in a.iter().enumerate() {
                    if i > 0 {
                        out.push(',');
                    }
                    v.write(out);
                }
                out.push(']');
            }
            J::Obj(o) => {
                out.push('{');
                let mut first = true;
                for (k, v) in o.iter() {
                    if let J::Null = v {
                        continue;
                    }
                    if !first {
                        out.push(',');
                    }
                    first = false;
                    write_str(k, out);
                    out.push(':');
                    v.write(out);
                }
                out.push('}');
            }
        }
    }
}

pub struct ObjB(Vec<(&'static str, J)>);
impl ObjB {
    pub fn f(mut self, k: &'static str, v: J) -> Self {
        self.0.push((k, v));
        self
    }
    pub fn fs<S: Into<String>>(self, k: &'static str, v: S) -> Self {
        self.f(k, J::Str(v.into()))
    }
    pub fn fi(self, k: &'static str, v: i128) -> Self {
        self.f(k, J::Int(v))
    }
    pub fn fb(self, k: &'static str, v: bool) -> Self {
        self.f(k, J::Bool(v))
    }
    pub fn fo(self, k: &'static str, v: Option<J>) -> Self {
        match v {
            Some(v) => self.f(k, v),
            None => self,
        }
    }
    pub fn done(self) -> J {
        J::Obj(self.0)
    }
}

fn write_str(s: &str, out: &mut String) {
    out.push('"');
    for c in s.chars() {
        match c {
            '"' => out.push_str("\\\""),
            '\\' => out.push_str("\\\\"),
            '\n' => out.push_str("\\n"),
            '\r' => out.push_str("\\r"),
            '\t' => out.push_str("\\t"),
            c if (c as u32) < 0x20 => {
                let _ = write!(out, "\\u{:04x}", c as u32);
            }
            c => out.push(c),
        }
    }
    out.push('"');
}
