//! Typed HIR as a generic JSON tree.

use crate::json::J;
use rustc_ast::ast::LitKind;
use rustc_hir as hir;
use rustc_hir::def::{DefKind, Res};
use rustc_hir::def_id::{DefId, LocalDefId};
use rustc_middle::ty::{self, TyCtxt, TypeckResults};
use rustc_span::hygiene::{DesugaringKind, ExpnKind};
use rustc_span::Span;

pub fn span_j<'tcx>(tcx: TyCtxt<'tcx>, sp: Span) -> J {
    let sm = tcx.sess.source_map();
    // outermost call site when the span comes from a macro / desugaring
    let cs = sp.source_callsite();
    let lo = sm.lookup_char_pos(cs.lo());
    let hi = sm.lookup_char_pos(cs.hi());
    let file = match &lo.file.name {
        rustc_span::FileName::Real(r) => match r.local_path() {
            Some(p) => p.to_string_lossy().to_string(),
            None => format!("{:?}", r),
        },
        other => format!("{:?}", other),
    };
    let mut o = J::obj()
        .fs("f", file)
        .fi("l", lo.line as i128)
        .fi("c", lo.col.0 as i128 + 1)
        .fi("el", hi.line as i128)
        .fi("ec", hi.col.0 as i128 + 1);
    if sp.from_expansion() {
        let ed = sp.ctxt().outer_expn_data();
        match ed.kind {
            ExpnKind::Macro(_, name) => {
                o = o.fs("mac", name.as_str());
            }
            ExpnKind::Desugaring(k) => {
                o = o.fs("desugar", desugar_name(k));
            }
            _ => {
                o = o.fs("mac", "?");
            }
        }
        // the outermost macro too (a `?` inside `vec![..]` etc.)
        let mut cur = sp;
        let mut outer: Option<String> = None;
        while cur.from_expansion() {
            let ed = cur.ctxt().outer_expn_data();
            if let ExpnKind::Macro(_, name) = ed.kind {
                outer = Some(name.as_str().to_string());
            }
            cur = ed.call_site;
        }
        if let Some(m) = outer {
            o = o.fs("omac", m);
        }
    }
    o.done()
}

fn desugar_name(k: DesugaringKind) -> &'static str {
    match k {
        DesugaringKind::QuestionMark => "QuestionMark",
        DesugaringKind::ForLoop => "ForLoop",
        DesugaringKind::WhileLoop => "WhileLoop",
        DesugaringKind::TryBlock => "TryBlock",
        DesugaringKind::Async => "Async",
        DesugaringKind::Await => "Await",
        DesugaringKind::RangeExpr => "RangeExpr",
        DesugaringKind::FormatLiteral { .. } => "FormatLiteral",
        _ => "Other",
    }
}

pub fn def_path<'tcx>(tcx: TyCtxt<'tcx>, did: DefId) -> String {
    let krate = tcx.crate_name(did.krate);
    let p = tcx.def_path_str(did);
    if did.is_local() {
        format!("{}::{}", krate, p)
    } else {
        p
    }
}

struct Cx<'tcx> {
    tcx: TyCtxt<'tcx>,
    tr: &'tcx TypeckResults<'tcx>,
    owner: LocalDefId,
}

impl<'tcx> Cx<'tcx> {
    fn ty_of(&self, id: hir::HirId) -> J {
        match self.tr.node_type_opt(id) {
            Some(t) => J::s(format!("{}", t)),
            None => J::Null,
        }
    }

    fn res_j(&self, res: Res) -> J {
        match res {
            Res::Def(kind, did) => {
                let mut o = J::obj().fs("def", def_path(self.tcx, did)).fs("dk", kind_short(kind));
                // constructor -> the variant / struct it builds
                if let DefKind::Ctor(..) = kind {
                    let parent = self.tcx.parent(did);
                    o = o.fs("ctor_of", def_path(self.tcx, parent));
                }
                if let DefKind::Const { .. } | DefKind::AssocConst { .. } = kind {
                    if let Some(v) = const_int(self.tcx, did) {
                        o = o.fi("cval", v);
                    }
                }
                o.done()
            }
            Res::Local(hid) => J::obj().fs("local", self.tcx.hir_name(hid).as_str()).fi("lid", hid.local_id.as_u32() as i128).done(),
            Res::SelfCtor(did) | Res::SelfTyAlias { alias_to: did, .. } => {
                J::obj().fs("def", def_path(self.tcx, did)).fs("dk", "SelfTy").done()
            }
            Res::PrimTy(p) => J::obj().fs("prim", p.name_str()).done(),
            other => J::obj().fs("other", format!("{:?}", other)).done(),
        }
    }

    fn qpath(&self, qp: &hir::QPath<'tcx>, id: hir::HirId) -> J {
        let res = self.tr.qpath_res(qp, id);
        let mut j = self.res_j(res);
        // last segment text (useful for enum-variant paths and method names)
        let seg = match qp {
            hir::QPath::Resolved(_, p) => p.segments.last().map(|s| s.ident.as_str().to_string()),
            hir::QPath::TypeRelative(_, s) => Some(s.ident.as_str().to_string()),
        };
        if let (J::Obj(v), Some(seg)) = (&mut j, seg) {
            v.push(("seg", J::s(seg)));
        }
        j
    }

    fn lit(&self, l: &hir::Lit, negated: bool) -> J {
        match &l.node {
            LitKind::Str(s, _) => J::obj().fs("lit", "str").fs("v", s.as_str()).done(),
            LitKind::ByteStr(b, _) | LitKind::CStr(b, _) => {
                let bytes = b.as_byte_str();
                let text = String::from_utf8_lossy(bytes).to_string();
                J::obj()
                    .fs("lit", "bstr")
                    .fs("v", text)
                    .f("bytes", J::Arr(bytes.iter().map(|x| J::Int(*x as i128)).collect()))
                    .done()
            }
            LitKind::Byte(b) => J::obj().fs("lit", "int").fi("v", *b as i128).fb("byte", true).done(),
            LitKind::Char(c) => J::obj().fs("lit", "char").fs("v", c.to_string()).done(),
            LitKind::Int(n, _) => {
                let v = n.get() as i128;
                J::obj().fs("lit", "int").fi("v", if negated { -v } else { v }).done()
            }
            LitKind::Float(s, _) => J::obj().fs("lit", "float").fs("v", format!("{}{}", if negated { "-" } else { "" }, s.as_str())).done(),
            LitKind::Bool(b) => J::obj().fs("lit", "bool").fb("v", *b).done(),
            LitKind::Err(_) => J::Null,
        }
    }

    fn block(&self, b: &'tcx hir::Block<'tcx>) -> J {
        let mut stmts = Vec::new();
        for s in b.stmts {
            stmts.push(self.stmt(s));
        }
        J::obj()
            .fs("k", "Block")
            .f("span", span_j(self.tcx, b.span))
            .f("stmts", J::Arr(stmts))
            .fo("expr", b.expr.map(|e| self.expr(e)))
            .done()
    }

    fn stmt(&self, s: &'tcx hir::Stmt<'tcx>) -> J {
        match s.kind {
            hir::StmtKind::Let(l) => J::obj()
                .fs("k", "Let")
                .f("span", span_j(self.tcx, s.span))
                .f("pat", self.pat(l.pat))
                .fo("init", l.init.map(|e| self.expr(e)))
                .fo("els", l.els.map(|b| self.block(b)))
                .done(),
            hir::StmtKind::Item(_) => J::obj().fs("k", "Item").done(),
            hir::StmtKind::Expr(e) => J::obj().fs("k", "Expr").f("e", self.expr(e)).done(),
            hir::StmtKind::Semi(e) => J::obj().fs("k", "Semi").f("e", self.expr(e)).done(),
        }
    }

    fn pat_expr(&self, pe: &'tcx hir::PatExpr<'tcx>) -> J {
        match &pe.kind {
            hir::PatExprKind::Lit { lit, negated } => self.lit(lit, *negated),
            hir::PatExprKind::Path(qp) => J::obj().fs("k", "Path").f("res", self.qpath(qp, pe.hir_id)).done(),
        }
    }

    fn pat(&self, p: &'tcx hir::Pat<'tcx>) -> J {
        let base = J::obj().f("span", span_j(self.tcx, p.span)).f("ty", self.ty_of(p.hir_id));
        let o = match p.kind {
            hir::PatKind::Missing => base.fs("k", "Missing"),
            hir::PatKind::Wild => base.fs("k", "Wild"),
            hir::PatKind::Never => base.fs("k", "Never"),
            hir::PatKind::Binding(mode, hid, ident, sub) => base
                .fs("k", "Binding")
                .fs("name", ident.as_str())
                .fi("lid", hid.local_id.as_u32() as i128)
                .fs("mode", format!("{:?}", mode))
                .fo("sub", sub.map(|s| self.pat(s))),
            hir::PatKind::Struct(ref qp, fields, _) => base
                .fs("k", "Struct")
                .f("res", self.qpath(qp, p.hir_id))
                .f(
                    "fields",
                    J::Arr(fields.iter().map(|f| J::obj().fs("name", f.ident.as_str()).f("pat", self.pat(f.pat)).done()).collect()),
                ),
            hir::PatKind::TupleStruct(ref qp, pats, ddpos) => base
                .fs("k", "TupleStruct")
                .f("res", self.qpath(qp, p.hir_id))
                .f("pats", J::Arr(pats.iter().map(|x| self.pat(x)).collect()))
                .fo("dd", ddpos.as_opt_usize().map(|u| J::Int(u as i128))),
            hir::PatKind::Or(pats) => base.fs("k", "Or").f("pats", J::Arr(pats.iter().map(|x| self.pat(x)).collect())),
            hir::PatKind::Tuple(pats, ddpos) => base
                .fs("k", "Tuple")
                .f("pats", J::Arr(pats.iter().map(|x| self.pat(x)).collect()))
                .fo("dd", ddpos.as_opt_usize().map(|u| J::Int(u as i128))),
            hir::PatKind::Box(x) => base.fs("k", "Box").f("pat", self.pat(x)),
            hir::PatKind::Deref(x) => base.fs("k", "Deref").f("pat", self.pat(x)),
            hir::PatKind::Ref(x, _, _) => base.fs("k", "Ref").f("pat", self.pat(x)),
            hir::PatKind::Expr(pe) => base.fs("k", "PLit").f("e", self.pat_expr(pe)),
            hir::PatKind::Guard(x, g) => base.fs("k", "Guard").f("pat", self.pat(x)).f("guard", self.expr(g)),
            hir::PatKind::Range(lo, hi, end) => base
                .fs("k", "Range")
                .fo("lo", lo.map(|x| self.pat_expr(x)))
                .fo("hi", hi.map(|x| self.pat_expr(x)))
                .fb("inclusive", matches!(end, hir::RangeEnd::Included)),
            hir::PatKind::Slice(a, mid, b) => base
                .fs("k", "Slice")
                .f("before", J::Arr(a.iter().map(|x| self.pat(x)).collect()))
                .fo("mid", mid.map(|x| self.pat(x)))
                .f("after", J::Arr(b.iter().map(|x| self.pat(x)).collect())),
            hir::PatKind::Err(_) => base.fs("k", "Err"),
        };
        o.done()
    }

    fn callee_of(&self, id: hir::HirId) -> J {
        // declared callee of a method call / overloaded operator, and the impl it resolves to
        match self.tr.type_dependent_def_id(id) {
            Some(did) => {
                let mut o = J::obj().fs("def", def_path(self.tcx, did));
                let args = self.tr.node_args(id);
                let env = ty::TypingEnv::post_analysis(self.tcx, self.owner);
                if args.len() != self.tcx.generics_of(did).count() {
                    return o.done();
                }
                if let Ok(Some(inst)) = ty::Instance::try_resolve(self.tcx, env, did, args) {
                    let rd = inst.def_id();
                    if rd != did {
                        o = o.fs("resolved", def_path(self.tcx, rd));
                    }
                }
                o.done()
            }
            None => J::Null,
        }
    }

    fn expr(&self, e: &'tcx hir::Expr<'tcx>) -> J {
        let tcx = self.tcx;
        let mut base = J::obj().f("span", span_j(tcx, e.span)).f("ty", self.ty_of(e.hir_id)).fi("id", e.hir_id.local_id.as_u32() as i128);
        // adjusted type when auto-deref / auto-ref applies (cheap, helps method receivers)
        if let Some(t) = self.tr.expr_ty_adjusted_opt(e) {
            if Some(t) != self.tr.node_type_opt(e.hir_id) {
                base = base.fs("aty", format!("{}", t));
            }
        }
        let o = match e.kind {
            hir::ExprKind::ConstBlock(_) => base.fs("k", "ConstBlock"),
            hir::ExprKind::Array(xs) => base.fs("k", "Array").f("es", J::Arr(xs.iter().map(|x| self.expr(x)).collect())),
            hir::ExprKind::Call(f, args) => {
                let mut b = base.fs("k", "Call").f("f", self.expr(f)).f("args", J::Arr(args.iter().map(|x| self.expr(x)).collect()));
                // resolve `Trait::method(x)` style paths to the impl
                if let hir::ExprKind::Path(ref qp) = f.kind {
                    if let Res::Def(DefKind::AssocFn | DefKind::Fn, did) = self.tr.qpath_res(qp, f.hir_id) {
                        let args = self.tr.node_args(f.hir_id);
                        let env = ty::TypingEnv::post_analysis(tcx, self.owner);
                        if args.len() != tcx.generics_of(did).count() {
                        } else if let Ok(Some(inst)) = ty::Instance::try_resolve(tcx, env, did, args) {
                            if inst.def_id() != did {
                                b = b.fs("resolved", def_path(tcx, inst.def_id()));
                            }
                        }
                    }
                }
                b
            }
            hir::ExprKind::MethodCall(seg, recv, args, _) => base
                .fs("k", "MethodCall")
                .fs("name", seg.ident.as_str())
                .f("callee", self.callee_of(e.hir_id))
                .f("recv", self.expr(recv))
                .f("args", J::Arr(args.iter().map(|x| self.expr(x)).collect())),
            hir::ExprKind::Use(x, _) => base.fs("k", "Use").f("e", self.expr(x)),
            hir::ExprKind::Tup(xs) => base.fs("k", "Tup").f("es", J::Arr(xs.iter().map(|x| self.expr(x)).collect())),
            hir::ExprKind::Binary(op, a, b) => base
                .fs("k", "Binary")
                .fs("op", op.node.as_str())
                .f("callee", self.callee_of(e.hir_id))
                .f("l", self.expr(a))
                .f("r", self.expr(b)),
            hir::ExprKind::Unary(op, a) => base.fs("k", "Unary").fs("op", op.as_str()).f("callee", self.callee_of(e.hir_id)).f("e", self.expr(a)),
            hir::ExprKind::Lit(l) => base.fs("k", "Lit").f("v", self.lit(&l, false)),
            hir::ExprKind::Cast(x, _) => base.fs("k", "Cast").f("e", self.expr(x)),
            hir::ExprKind::Type(x, _) => base.fs("k", "Type").f("e", self.expr(x)),
            hir::ExprKind::DropTemps(x) => base.fs("k", "DropTemps").f("e", self.expr(x)),
            hir::ExprKind::Let(l) => base.fs("k", "LetExpr").f("pat", self.pat(l.pat)).f("init", self.expr(l.init)),
            hir::ExprKind::If(c, t, el) => base.fs("k", "If").f("cond", self.expr(c)).f("then", self.expr(t)).fo("els", el.map(|x| self.expr(x))),
            hir::ExprKind::Loop(b, label, src, _) => base
                .fs("k", "Loop")
                .fs("src", src.name())
                .fo("label", label.map(|l| J::s(l.ident.as_str())))
                .f("body", self.block(b)),
            hir::ExprKind::Match(scrut, arms, src) => base
                .fs("k", "Match")
                .fs("src", format!("{:?}", src).split('(').next().unwrap_or("").to_string())
                .f("scrut", self.expr(scrut))
                .f(
                    "arms",
                    J::Arr(
                        arms.iter()
                            .map(|a| {
                                J::obj()
                                    .f("span", span_j(tcx, a.span))
                                    .f("pat", self.pat(a.pat))
                                    .fo("guard", a.guard.map(|g| self.expr(g)))
                                    .f("body", self.expr(a.body))
                                    .done()
                            })
                            .collect(),
                    ),
                ),
            hir::ExprKind::Closure(c) => {
                let body = tcx.hir_body(c.body);
                base.fs("k", "Closure")
                    .fs("def", def_path(tcx, c.def_id.to_def_id()))
                    .f("params", J::Arr(body.params.iter().map(|p| self.pat(p.pat)).collect()))
                    .f("body", self.expr(body.value))
            }
            hir::ExprKind::Block(b, label) => base.fs("k", "BlockExpr").fo("label", label.map(|l| J::s(l.ident.as_str()))).f("block", self.block(b)),
            hir::ExprKind::Assign(l, r, _) => base.fs("k", "Assign").f("l", self.expr(l)).f("r", self.expr(r)),
            hir::ExprKind::AssignOp(op, l, r) => base.fs("k", "AssignOp").fs("op", op.node.as_str()).f("callee", self.callee_of(e.hir_id)).f("l", self.expr(l)).f("r", self.expr(r)),
            hir::ExprKind::Field(x, ident) => base.fs("k", "Field").fs("name", ident.as_str()).f("e", self.expr(x)),
            hir::ExprKind::Index(a, i, _) => base.fs("k", "Index").f("callee", self.callee_of(e.hir_id)).f("e", self.expr(a)).f("idx", self.expr(i)),
            hir::ExprKind::Path(ref qp) => base.fs("k", "Path").f("res", self.qpath(qp, e.hir_id)),
            hir::ExprKind::AddrOf(_, m, x) => base.fs("k", "AddrOf").fb("mut", m.is_mut()).f("e", self.expr(x)),
            hir::ExprKind::Break(dest, val) => base
                .fs("k", "Break")
                .fo("label", dest.label.map(|l| J::s(l.ident.as_str())))
                .fo("target", dest.target_id.ok().map(|h| J::Int(h.local_id.as_u32() as i128)))
                .fo("e", val.map(|x| self.expr(x))),
            hir::ExprKind::Continue(dest) => base
                .fs("k", "Continue")
                .fo("label", dest.label.map(|l| J::s(l.ident.as_str())))
                .fo("target", dest.target_id.ok().map(|h| J::Int(h.local_id.as_u32() as i128))),
            hir::ExprKind::Ret(val) => base.fs("k", "Ret").fo("e", val.map(|x| self.expr(x))),
            hir::ExprKind::Become(x) => base.fs("k", "Become").f("e", self.expr(x)),
            hir::ExprKind::InlineAsm(_) => base.fs("k", "InlineAsm"),
            hir::ExprKind::OffsetOf(..) => base.fs("k", "OffsetOf"),
            hir::ExprKind::Struct(qp, fields, tail) => {
                let mut b = base.fs("k", "Struct").f("res", self.qpath(qp, e.hir_id)).f(
                    "fields",
                    J::Arr(fields.iter().map(|f| J::obj().fs("name", f.ident.as_str()).f("e", self.expr(f.expr)).done()).collect()),
                );
                if let hir::StructTailExpr::Base(x) = tail {
                    b = b.f("base", self.expr(x));
                }
                b
            }
            hir::ExprKind::Repeat(x, _) => base.fs("k", "Repeat").f("e", self.expr(x)),
            hir::ExprKind::Yield(x, _) => base.fs("k", "Yield").f("e", self.expr(x)),
            hir::ExprKind::UnsafeBinderCast(_, x, _) => base.fs("k", "UnsafeBinderCast").f("e", self.expr(x)),
            hir::ExprKind::Err(_) => base.fs("k", "Err"),
        };
        o.done()
    }
}

fn kind_short(k: DefKind) -> String {
    match k {
        DefKind::Ctor(of, kind) => format!("Ctor{:?}{:?}", of, kind),
        DefKind::Const { .. } => "Const".to_string(),
        DefKind::AssocConst { .. } => "AssocConst".to_string(),
        DefKind::Static { .. } => "Static".to_string(),
        other => format!("{:?}", other),
    }
}

pub fn const_int<'tcx>(tcx: TyCtxt<'tcx>, did: DefId) -> Option<i128> {
    let ty = tcx.type_of(did).instantiate_identity().skip_norm_wip();
    if !(ty.is_integral() || ty.is_bool() || ty.is_char()) {
        return None;
    }
    let v = tcx.const_eval_poly(did).ok()?;
    let s = v.try_to_scalar_int()?;
    let size = s.size();
    if ty.is_signed() {
        Some(s.to_int(size))
    } else {
        Some(s.to_uint(size) as i128)
    }
}

fn owner_header<'tcx>(tcx: TyCtxt<'tcx>, ldid: LocalDefId) -> crate::json::ObjB {
    let did = ldid.to_def_id();
    let mut o = J::obj().fs("def", def_path(tcx, did)).fs("dk", kind_short(tcx.def_kind(did))).f("span", span_j(tcx, tcx.def_span(did)));
    if matches!(tcx.def_kind(did), DefKind::Fn | DefKind::AssocFn) {
        o = o.fs("vis", format!("{:?}", tcx.visibility(did)));
    }
    // enclosing impl: self type and trait
    let parent = tcx.parent(did);
    if let DefKind::Impl { .. } = tcx.def_kind(parent) {
        let self_ty = tcx.type_of(parent).instantiate_identity().skip_norm_wip();
        o = o.fs("impl_self", format!("{}", self_ty));
        if let Some(tr) = tcx.impl_opt_trait_ref(parent) {
            let tr = tr.instantiate_identity().skip_norm_wip();
            o = o.fs("impl_trait", def_path(tcx, tr.def_id)).fs("impl_trait_full", format!("{}", tr));
        }
    }
    o
}

pub fn dump_fn<'tcx>(tcx: TyCtxt<'tcx>, ldid: LocalDefId) -> J {
    let body = tcx.hir_body_owned_by(ldid);
    let tr = tcx.typeck(ldid);
    let cx = Cx { tcx, tr, owner: ldid };
    let sig = tcx.fn_sig(ldid.to_def_id()).instantiate_identity().skip_norm_wip();
    owner_header(tcx, ldid)
        .fs("sig", format!("{}", sig))
        .f("params", J::Arr(body.params.iter().map(|p| cx.pat(p.pat)).collect()))
        .f("body", cx.expr(body.value))
        .done()
}

pub fn dump_const<'tcx>(tcx: TyCtxt<'tcx>, ldid: LocalDefId) -> J {
    let body = tcx.hir_body_owned_by(ldid);
    let tr = tcx.typeck(ldid);
    let cx = Cx { tcx, tr, owner: ldid };
    let ty = tcx.type_of(ldid.to_def_id()).instantiate_identity().skip_norm_wip();
    owner_header(tcx, ldid).fs("ty", format!("{}", ty)).f("body", cx.expr(body.value)).done()
}

pub fn dump_adts<'tcx>(tcx: TyCtxt<'tcx>) -> J {
    let mut out = Vec::new();
    for id in tcx.hir_free_items() {
        let did = id.owner_id.to_def_id();
        match tcx.def_kind(did) {
            DefKind::Struct | DefKind::Enum | DefKind::Union => {
                let adt = tcx.adt_def(did);
                let mut variants = Vec::new();
                for v in adt.variants() {
                    let fields: Vec<J> = v
                        .fields
                        .iter()
                        .map(|f| {
                            let fty = tcx.type_of(f.did).instantiate_identity().skip_norm_wip();
                            J::obj().fs("name", f.name.as_str()).fs("ty", format!("{}", fty)).fs("vis", format!("{:?}", f.vis)).done()
                        })
                        .collect();
                    variants.push(J::obj().fs("name", v.name.as_str()).f("fields", J::Arr(fields)).done());
                }
                out.push(
                    J::obj()
                        .fs("def", def_path(tcx, did))
                        .fs("dk", kind_short(tcx.def_kind(did)))
                        .fs("vis", format!("{:?}", tcx.visibility(did)))
                        .f("span", span_j(tcx, tcx.def_span(did)))
                        .f("variants", J::Arr(variants))
                        .done(),
                );
            }
            _ => {}
        }
    }
    J::Arr(out)
}

pub fn dump_impls<'tcx>(tcx: TyCtxt<'tcx>) -> J {
    let mut out = Vec::new();
    for id in tcx.hir_free_items() {
        let did = id.owner_id.to_def_id();
        if let DefKind::Impl { .. } = tcx.def_kind(did) {
            let self_ty = tcx.type_of(did).instantiate_identity().skip_norm_wip();
            let mut o = J::obj().fs("self", format!("{}", self_ty)).f("span", span_j(tcx, tcx.def_span(did)));
            if let Some(tr) = tcx.impl_opt_trait_ref(did) {
                let tr = tr.instantiate_identity().skip_norm_wip();
                o = o.fs("trait", def_path(tcx, tr.def_id)).fs("trait_full", format!("{}", tr));
            }
            let items: Vec<J> = tcx
                .associated_items(did)
                .in_definition_order()
                .map(|it| J::obj().fs("name", it.name().as_str()).fs("def", def_path(tcx, it.def_id)).fs("kind", format!("{:?}", it.tag())).done())
                .collect();
            out.push(o.f("items", J::Arr(items)).done());
        }
    }
    J::Arr(out)
}
