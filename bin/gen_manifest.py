#!/usr/bin/env python3
"""Regenerate MANIFEST.json from rules/props.registry() (keeps it valid by construction)."""
import json, os, sys
VERIF = os.path.dirname(os.path.dirname(os.path.abspath(__file__)))
sys.path.insert(0, VERIF)
from rules import props
R = props.registry()
NA = props.NOT_APPLICABLE
checks = []
for p in sorted(R):
    m = R[p]
    checks.append({
        "property_id": p,
        "quick_cmd": "bin/check %s --tier quick" % p,
        "thorough_cmd": "bin/check %s --tier thorough" % p,
        "evidence_file": "/verif/evidence/%s.json" % p,
        "replay_cmd_template": "bin/check %s --replay {path}" % p,
        "engine": "calamir+rules",
        "level_claimed": {
            "category": "other",
            "text": "Static analysis of the type-checked HIR/MIR of the calamine lib crate as built from /repo's current tree: decides the named structural clauses of the property on every path of the code (each a necessary condition of the behaviour), not the behaviour as a whole. " + m["explanation"],
            "design_ref": "DESIGN.md section 4 (%s), rules in section 3" % p},
        "level_note": "Trusted: rustc nightly HIR/MIR construction and trait resolution, the calamir serialisation, dependencies of calamine (not analysed). Not decided: " + m["not_decided"],
        "technique": m.get("technique", "static analysis: custom rustc_private HIR/MIR fact extractor + repository-specific rules (spec-table, sibling-agreement, effect/frame, control-dependence and def-use rules)"),
    })
man = {
    "version": 1,
    "setup_cmd": "sh bin/setup.sh",
    "hooks": {"guard": "calamine_verif", "enable": "no source hooks are used: the analysis reads the unmodified crate (guard name reserved)",
              "baseline_off_cmd": "cd /repo && cargo nextest run --workspace --no-fail-fast --offline", "source_commits": [], "add_only": True},
    "engines": [
        {"name": "calamir", "path": "driver/", "serves_properties": sorted(R), "kind_free_text": "rustc_private driver (nightly) injected with RUSTC_WORKSPACE_WRAPPER under cargo check: dumps typed HIR, MIR with resolved callees, ADT/impl facts of the calamine lib crate"},
        {"name": "rules", "path": "rules/", "serves_properties": sorted(R), "kind_free_text": "Python 3 stdlib rule kit over the facts: match-table extraction vs spec tables (tables/*.json), sibling agreement, write-footprint/frame, control-dependence, def-use and MIR dataflow rules; known_findings.json / audited_safe.json tables"}],
    "checks": checks,
    "not_applicable": [{"property_id": k, "reason": v} for k, v in sorted(NA.items())],
    "notes": "Every check rebuilds its facts from /repo's current working tree (cache keyed by a hash of Cargo.toml, Cargo.lock, src/** and the driver sources). Exit 1 + VIOLATION line only for violations not listed in known_findings.json. See DESIGN.md.",
}
json.dump(man, open(os.path.join(VERIF, "MANIFEST.json"), "w"), indent=1)
print("MANIFEST.json: %d checks, %d not applicable" % (len(checks), len(NA)))
