#!/usr/bin/env python3
"""bin/_matrix_worker.py <tree> [Cxx ...] -- quick tier of the given (default: all claimed) properties on one tree,
facts loaded once; prints one JSON line {prop: {"exit": .., "violations": [site keys]}}.  Never writes evidence."""
import json
import os
import sys
VERIF = os.path.dirname(os.path.dirname(os.path.abspath(__file__)))
sys.path.insert(0, VERIF)
os.environ["VERIF_NO_EVIDENCE"] = "1"
os.chdir(VERIF)
from rules import props, runner  # noqa: E402

tree = sys.argv[1]
os.environ["CALAMIR_REPO"] = tree
R = props.registry()
want = sys.argv[2:] or sorted(R)
ctx = runner.Ctx(tree, "quick")
out = {}
for p in want:
    if p not in R:
        out[p] = {"exit": None, "note": "property not claimed"}
        continue
    try:
        rep, _, viol, kf, _ = runner.evaluate(p, "quick", R[p]["rules"], tree, ctx=ctx)
        out[p] = {"exit": 1 if viol else 0, "violations": [v["key"] for v in viol][:12], "n": len(viol)}
    except SystemExit as ex:
        out[p] = {"exit": 2, "violations": [], "tail": str(ex)}
    except Exception as ex:  # noqa: BLE001
        out[p] = {"exit": 2, "violations": [], "tail": repr(ex)}
print(json.dumps(out))
