#!/usr/bin/env python3
"""bin/seed_matrix.py [--all] [names...]  -- for every /verif/seeded/<name>/patch.diff: apply it to a scratch copy of
/repo's current tree, run the quick check of its property (with --all: of every property), drop the copy.
Writes seeded/matrix.json.  /repo is only read (see bin/_matrix.py; bin/with_patch applies a patch to /repo itself)."""
import json, os, sys, glob
VERIF = os.path.dirname(os.path.dirname(os.path.abspath(__file__)))
sys.path.insert(0, VERIF)
sys.path.insert(0, os.path.join(VERIF, "bin"))
import _matrix
from rules import props
args = [a for a in sys.argv[1:] if not a.startswith("--")]
allp = "--all" in sys.argv
PROPS = sorted(props.registry())
mpath = os.path.join(VERIF, "seeded", "matrix.json")
matrix = json.load(open(mpath)) if os.path.exists(mpath) else {}
items = []
for d in sorted(glob.glob(os.path.join(VERIF, "seeded", "*"))):
    name = os.path.basename(d)
    if os.path.isdir(d) and (not args or name in args) and os.path.exists(os.path.join(d, "patch.diff")):
        items.append((name, os.path.join(d, "patch.diff")))


def done(name, res):
    prop = name.split("_")[0]
    if res is None:
        matrix[name] = {"error": "patch does not apply"}
        print(name, "DOES NOT APPLY", flush=True)
        return
    if not allp:
        res = {p: v for p, v in res.items() if p == prop}
    if prop not in PROPS:
        res[prop] = {"exit": None, "note": "property not claimed"}
    caught = sorted(p for p, v in res.items() if v.get("exit") == 1)
    matrix[name] = {"property": prop, "caught_by": caught, "results": res}
    print(name, "caught by", caught or "NOTHING", [v.get("violations")[:3] for p, v in sorted(res.items()) if v.get("exit") == 1][:2], flush=True)
    for p, v in res.items():
        if v.get("exit") == 2:
            print("   ERROR in", p, v.get("tail", "")[-300:], flush=True)


_matrix.run_many(items, None, on_done=done)
json.dump(matrix, open(mpath, "w"), indent=1, sort_keys=True)
