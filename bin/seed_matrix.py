#!/usr/bin/env python3
"""bin/seed_matrix.py [names...]  -- for every /verif/seeded/<name>/patch.diff: apply to /repo, run the quick
check of its property (and, with --all, every property), undo.  Writes seeded/matrix.json."""
import json, os, subprocess, sys, glob, re
VERIF = os.path.dirname(os.path.dirname(os.path.abspath(__file__)))
sys.path.insert(0, VERIF)
args = [a for a in sys.argv[1:] if not a.startswith("--")]
allp = "--all" in sys.argv
from rules import props
PROPS = sorted(props.registry())
st = subprocess.run(["git", "-C", "/repo", "status", "--porcelain", "--untracked-files=no"], capture_output=True, text=True).stdout.strip()
if st:
    sys.exit("refusing: /repo has uncommitted changes")
mpath = os.path.join(VERIF, "seeded", "matrix.json")
matrix = json.load(open(mpath)) if os.path.exists(mpath) else {}
for d in sorted(glob.glob(os.path.join(VERIF, "seeded", "*"))):
    name = os.path.basename(d)
    if not os.path.isdir(d) or (args and name not in args):
        continue
    prop = name.split("_")[0]
    patch = os.path.join(d, "patch.diff")
    r = subprocess.run(["git", "-C", "/repo", "apply", patch], capture_output=True, text=True)
    if r.returncode != 0:
        matrix[name] = {"error": "patch does not apply: " + r.stderr[-300:]}
        print(name, "DOES NOT APPLY")
        continue
    res = {}
    try:
        todo = [p for p in (PROPS if allp else [prop]) if p in PROPS]
        for p in (PROPS if allp else [prop]):
            if p not in PROPS:
                res[p] = {"exit": None, "note": "property not claimed"}
        def one(p):
            return p, subprocess.run([os.path.join(VERIF, "bin", "check"), p, "--no-evidence"], capture_output=True, text=True)
        first = [one(todo[0])]   # warms the fact cache for this tree
        from concurrent.futures import ThreadPoolExecutor
        with ThreadPoolExecutor(8) as ex:
            rest = list(ex.map(one, todo[1:]))
        for p, c in first + rest:
            keys = re.findall(r"^  key=(.*)$", c.stdout, re.M)
            res[p] = {"exit": c.returncode, "violations": keys[:8]}
            if c.returncode not in (0, 1):
                res[p]["tail"] = (c.stdout + c.stderr)[-800:]
    finally:
        subprocess.check_call(["git", "-C", "/repo", "checkout", "--", "."])
    caught = sorted(p for p, v in res.items() if v.get("exit") == 1)
    matrix[name] = {"property": prop, "caught_by": caught, "results": res}
    print(name, "caught by", caught or "NOTHING", [v.get("violations") for p, v in res.items() if v.get("exit") == 1][:2])
json.dump(matrix, open(mpath, "w"), indent=1, sort_keys=True)
# restore evidence of the unchanged tree
for p in PROPS:
    subprocess.run([os.path.join(VERIF, "bin", "check"), p], capture_output=True)
