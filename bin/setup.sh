#!/bin/sh
# Build the fact extractor and warm the caches (offline).
set -e
cd "$(dirname "$0")/.."
export CARGO_NET_OFFLINE=true
(cd driver && cargo build --release --offline)
python3 rules/extract.py default dates
cp /repo/Cargo.lock witness/Cargo.lock 2>/dev/null || true
(cd witness && CARGO_TARGET_DIR="$(pwd)/../.cache/target-witness" cargo +nightly test --doc --offline >/dev/null 2>&1 || true)
