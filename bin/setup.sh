#!/bin/sh
# Build the fact extractor and warm the dependency caches (offline).
set -e
cd "$(dirname "$0")/.."
export CARGO_NET_OFFLINE=true
(cd driver && cargo build --release --offline)
python3 rules/extract.py default
