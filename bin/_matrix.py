"""Shared machinery of the self-validation matrices (seed_matrix, mutant_matrix, refactor_matrix).

Every patch is applied to a *scratch copy* of /repo's current tree (Cargo files + src/, made under the system temp
directory by rules/selftest.scratch_copy and removed afterwards); /repo itself is only read.  One worker process per
patch evaluates the quick tier of every property on that copy with the facts loaded once; several patches run in
parallel.  (bin/with_patch is the variant that applies a patch to /repo in place and reverts it.)"""
import json
import os
import shutil
import subprocess
import sys
from concurrent.futures import ThreadPoolExecutor

VERIF = os.path.dirname(os.path.dirname(os.path.abspath(__file__)))
sys.path.insert(0, VERIF)
from rules import selftest  # noqa: E402


def run_patch(patch, props_list=None, base="/repo"):
    """-> None if the patch does not apply, else {prop: {"exit": 0|1|2, "violations": [keys]}}"""
    d = selftest.scratch_copy(base)
    try:
        r = subprocess.run(["git", "apply", patch], cwd=d, capture_output=True, text=True, env=dict(os.environ, GIT_CEILING_DIRECTORIES=os.path.dirname(d)))
        if r.returncode != 0:
            return None
        c = subprocess.run([sys.executable, os.path.join(VERIF, "bin", "_matrix_worker.py"), d] + list(props_list or []), capture_output=True, text=True)
        try:
            return json.loads(c.stdout.strip().split("\n")[-1])
        except Exception:
            return {"_error": {"exit": 2, "violations": [], "tail": (c.stdout + c.stderr)[-1500:]}}
    finally:
        shutil.rmtree(d, ignore_errors=True)


def run_many(items, props_list=None, jobs=None, base="/repo", on_done=None):
    """items: [(name, patch path)] -> {name: result of run_patch}"""
    jobs = jobs or int(os.environ.get("MATRIX_JOBS", "7"))
    out = {}

    def one(it):
        res = run_patch(it[1], props_list, base)
        if on_done:
            on_done(it[0], res)
        return it[0], res
    with ThreadPoolExecutor(jobs) as ex:
        for name, res in ex.map(one, items):
            out[name] = res
    return out
