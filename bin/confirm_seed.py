#!/usr/bin/env python3
"""bin/confirm_seed.py <src dir with patch.diff + demo.rs> <scratch worktree>
Confirms a seeded change: applies to a clean worktree of /repo HEAD, suite still passes (110, only mul_rk fails),
demo fails with the change and passes without it.  Prints a JSON verdict."""
import json, os, subprocess, sys, shutil, re
src, wt = sys.argv[1], sys.argv[2]
env = dict(os.environ, CARGO_NET_OFFLINE="true")
def run(cmd, cwd=wt, timeout=900):
    try:
        r = subprocess.run(cmd, cwd=cwd, env=env, capture_output=True, text=True, timeout=timeout)
        return r.returncode, r.stdout + r.stderr
    except subprocess.TimeoutExpired as e:
        return 124, "timeout"
def suite():
    rc, out = run(["cargo", "nextest", "run", "--workspace", "--no-fail-fast", "--offline", "-E", "not binary(zz_demo)"])
    m = re.search(r"(\d+) tests run: (\d+) passed(?:, (\d+) failed)?", out)
    fails = re.findall(r"FAIL \[.*?\] \(.*?\) (\S+ \S+)", out)
    return (int(m.group(2)) if m else -1), sorted(set(fails)), out[-1500:] if not m else ""
def demo():
    feat = os.environ.get("CONFIRM_FEATURES", "").split()
    rc, out = run(["cargo", "test", "--offline"] + feat + ["--test", "zz_demo", "--", "--test-threads", "4"], timeout=600)
    m = re.search(r"test result: (\w+)\. (\d+) passed; (\d+) failed", out)
    return (m.group(1), int(m.group(2)), int(m.group(3))) if m else ("build-error" if rc != 124 else "timeout", 0, 0), out[-1200:]
res = {"src": src}
run(["git", "checkout", "-q", "--", "."]); run(["git", "clean", "-fdq", "tests"])
rc, out = run(["git", "apply", "--check", os.path.join(src, "patch.diff")])
res["applies"] = rc == 0
if rc != 0:
    res["apply_error"] = out[-500:]
    print(json.dumps(res)); sys.exit(0)
shutil.copy(os.path.join(src, "demo.rs"), os.path.join(wt, "tests", "zz_demo.rs"))
for extra in os.listdir(src):
    if extra not in ("patch.diff", "demo.rs", "notes.md", "meta.json") and os.path.isfile(os.path.join(src, extra)) and not extra.endswith(".txt") and not extra.endswith(".rs"):
        shutil.copy(os.path.join(src, extra), os.path.join(wt, "tests", extra))
d0, o0 = demo()
res["demo_without"] = d0
run(["git", "apply", os.path.join(src, "patch.diff")])
passed, fails, err = suite()
res["suite_with"] = {"passed": passed, "failed": fails}
d1, o1 = demo()
res["demo_with"] = d1
if d1[0] != "FAILED":
    res["demo_with_tail"] = o1[-600:]
if d0[0] != "ok":
    res["demo_without_tail"] = o0[-600:]
run(["git", "checkout", "-q", "--", "."])
os.remove(os.path.join(wt, "tests", "zz_demo.rs"))
res["confirmed"] = bool(res["applies"] and d0[0] == "ok" and d1[0] in ("FAILED",) and passed == 110 and fails == ["calamine::test mul_rk"])
print(json.dumps(res))
