#!/usr/bin/env python3
"""bin/refactor_matrix.py [names...] -- for every /verif/refactors/<name>/patch.diff (a behaviour-preserving
refactoring written by a sub-agent): apply to /repo, run the quick check of every property, undo.  A violation here
is a false alarm unless it is a C06 site whose key merely moved (the function already has a known finding).
Writes refactors/matrix.json."""
import json, os, subprocess, sys, glob, re
VERIF = os.path.dirname(os.path.dirname(os.path.abspath(__file__)))
sys.path.insert(0, VERIF)
from rules import props
from concurrent.futures import ThreadPoolExecutor
PROPS = sorted(props.registry())
args = [a for a in sys.argv[1:] if not a.startswith("--")]
REPO = os.environ.get("REFAC_REPO", "/repo")   # a scratch worktree at /repo HEAD can be used instead
st = subprocess.run(["git", "-C", REPO, "status", "--porcelain", "--untracked-files=no"], capture_output=True, text=True).stdout.strip()
if st:
    sys.exit("refusing: /repo has uncommitted changes")
mpath = os.path.join(VERIF, "refactors", "matrix.json")
matrix = json.load(open(mpath)) if os.path.exists(mpath) else {}
for d in sorted(glob.glob(os.path.join(VERIF, "refactors", "*"))):
    name = os.path.basename(d)
    if not os.path.isdir(d) or (args and name not in args):
        continue
    patch = os.path.join(d, "patch.diff")
    r = subprocess.run(["git", "-C", REPO, "apply", patch], capture_output=True, text=True)
    if r.returncode != 0:
        matrix[name] = {"error": "patch does not apply: " + r.stderr[-300:]}
        print(name, "DOES NOT APPLY")
        continue
    res = {}
    try:
        def one(p):
            return p, subprocess.run([os.path.join(VERIF, "bin", "check"), p, "--no-evidence", "--repo", REPO], capture_output=True, text=True)
        first = [one(PROPS[0])]
        with ThreadPoolExecutor(8) as ex:
            rest = list(ex.map(one, PROPS[1:]))
        for p, c in first + rest:
            keys = re.findall(r"^  key=(.*)$", c.stdout, re.M)
            if c.returncode != 0:
                res[p] = {"exit": c.returncode, "violations": keys[:12], "n": len(keys)}
    finally:
        subprocess.check_call(["git", "-C", REPO, "checkout", "--", "."])
    matrix[name] = {"alarms": res}
    print(name, "clean" if not res else "ALARMS " + json.dumps({p: v["violations"][:3] for p, v in res.items()})[:400])
os.makedirs(os.path.dirname(mpath), exist_ok=True)
json.dump(matrix, open(mpath, "w"), indent=1, sort_keys=True)
