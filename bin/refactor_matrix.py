#!/usr/bin/env python3
"""bin/refactor_matrix.py [names...] -- for every /verif/refactors/<name>/patch.diff (a behaviour-preserving
refactoring written by a sub-agent): apply it to a scratch copy of /repo's current tree, run the quick check of every
property, drop the copy.  Every violation here is an alarm on code whose behaviour did not change.
Writes refactors/matrix.json; /repo is only read."""
import json, os, sys, glob
VERIF = os.path.dirname(os.path.dirname(os.path.abspath(__file__)))
sys.path.insert(0, VERIF)
sys.path.insert(0, os.path.join(VERIF, "bin"))
import _matrix
args = [a for a in sys.argv[1:] if not a.startswith("--")]
mpath = os.path.join(VERIF, "refactors", "matrix.json")
matrix = json.load(open(mpath)) if os.path.exists(mpath) else {}
items = []
for d in sorted(glob.glob(os.path.join(VERIF, "refactors", "*"))):
    name = os.path.basename(d)
    if os.path.isdir(d) and (not args or name in args) and os.path.exists(os.path.join(d, "patch.diff")):
        items.append((name, os.path.join(d, "patch.diff")))


def done(name, res):
    if res is None:
        matrix[name] = {"error": "patch does not apply"}
        print(name, "DOES NOT APPLY", flush=True)
        return
    al = {p: {"exit": v["exit"], "violations": v.get("violations", [])[:12], "n": v.get("n", 0), **({"tail": v["tail"]} if v.get("tail") else {})} for p, v in res.items() if v.get("exit")}
    matrix[name] = {"alarms": al}
    print(name, "clean" if not al else "ALARMS " + json.dumps({p: v["violations"][:3] or v.get("tail", "")[-200:] for p, v in al.items()})[:400], flush=True)


_matrix.run_many(items, None, on_done=done)
json.dump(matrix, open(mpath, "w"), indent=1, sort_keys=True)
