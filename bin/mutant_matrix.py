#!/usr/bin/env python3
"""bin/mutant_matrix.py [names...] -- apply each /verif/mutants/*.patch to /repo, run the quick checks of all
claimed properties, undo; assert that the properties listed in mutants/expect.json report a violation.
Self-validation of the checker (DESIGN.md section 7); never executes calamine."""
import json, os, subprocess, sys, glob, re
VERIF = os.path.dirname(os.path.dirname(os.path.abspath(__file__)))
sys.path.insert(0, VERIF)
from rules import props
PROPS = sorted(props.registry())
args = [a for a in sys.argv[1:] if not a.startswith("--")]
st = subprocess.run(["git", "-C", "/repo", "status", "--porcelain", "--untracked-files=no"], capture_output=True, text=True).stdout.strip()
if st:
    sys.exit("refusing: /repo has uncommitted changes")
exp_path = os.path.join(VERIF, "mutants", "expect.json")
expect = json.load(open(exp_path)) if os.path.exists(exp_path) else {}
out = {}
fail = 0
for pth in sorted(glob.glob(os.path.join(VERIF, "mutants", "*.patch"))):
    name = os.path.basename(pth)[:-6]
    if args and name not in args:
        continue
    r = subprocess.run(["git", "-C", "/repo", "apply", pth], capture_output=True, text=True)
    if r.returncode != 0:
        out[name] = {"error": "does not apply"}
        print(name, "DOES NOT APPLY")
        fail += 1
        continue
    caught = {}
    try:
        def one(p):
            return p, subprocess.run([os.path.join(VERIF, "bin", "check"), p, "--no-evidence"], capture_output=True, text=True)
        first = [one(PROPS[0])]   # warms the fact cache for this tree
        from concurrent.futures import ThreadPoolExecutor
        with ThreadPoolExecutor(8) as ex:
            rest = list(ex.map(one, PROPS[1:]))
        for p, c in first + rest:
            if c.returncode == 1:
                caught[p] = re.findall(r"^  key=(.*)$", c.stdout, re.M)[:4]
            elif c.returncode != 0:
                caught[p] = ["ERROR exit %d" % c.returncode]
    finally:
        subprocess.check_call(["git", "-C", "/repo", "checkout", "--", "."])
    want = expect.get(name, [])
    miss = [w for w in want if w not in caught]
    out[name] = {"caught_by": caught, "expected": want, "missed": miss}
    print(name, "caught by", sorted(caught) or "NOTHING", ("MISSED " + str(miss)) if miss else "")
    if miss or not caught:
        fail += 1
json.dump(out, open(os.path.join(VERIF, "mutants", "matrix.json"), "w"), indent=1, sort_keys=True)
for p in PROPS:
    subprocess.run([os.path.join(VERIF, "bin", "check"), p], capture_output=True)
sys.exit(1 if fail else 0)
