#!/usr/bin/env python3
"""bin/mutant_matrix.py [names...] -- apply each /verif/mutants/*.patch (the reverse of a `fix:` commit) to a scratch
copy of /repo's current tree, run the quick checks of all claimed properties, drop the copy; assert that the
properties listed in mutants/expect.json report a violation.  Self-validation of the checker (DESIGN.md sections 7
and 16); never executes calamine; /repo is only read."""
import json, os, sys, glob
VERIF = os.path.dirname(os.path.dirname(os.path.abspath(__file__)))
sys.path.insert(0, VERIF)
sys.path.insert(0, os.path.join(VERIF, "bin"))
import _matrix
args = [a for a in sys.argv[1:] if not a.startswith("--")]
exp_path = os.path.join(VERIF, "mutants", "expect.json")
expect = json.load(open(exp_path)) if os.path.exists(exp_path) else {}
items = []
for pth in sorted(glob.glob(os.path.join(VERIF, "mutants", "*.patch"))):
    name = os.path.basename(pth)[:-6]
    if not args or name in args:
        items.append((name, pth))
out = {}
fail = [0]


def done(name, res):
    if res is None:
        out[name] = {"error": "does not apply"}
        print(name, "DOES NOT APPLY", flush=True)
        fail[0] += 1
        return
    caught = {p: v.get("violations", [])[:4] for p, v in res.items() if v.get("exit") == 1}
    for p, v in res.items():
        if v.get("exit") == 2:
            caught[p] = ["ERROR " + v.get("tail", "")[-200:]]
    want = expect.get(name, [])
    miss = [w for w in want if w not in caught]
    out[name] = {"caught_by": caught, "expected": want, "missed": miss}
    print(name, "caught by", sorted(caught) or "NOTHING", ("MISSED " + str(miss)) if miss else "", flush=True)
    if miss or not caught:
        fail[0] += 1


_matrix.run_many(items, None, on_done=done)
json.dump(out, open(os.path.join(VERIF, "mutants", "matrix.json"), "w"), indent=1, sort_keys=True)
sys.exit(1 if fail[0] else 0)
