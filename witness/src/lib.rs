//! Type-level witnesses for C07 (DESIGN.md 2.3): each `compile_fail,E0xxx` doc-test has a compiling
//! twin that differs only in the offending line, so a witness whose path is merely wrong cannot pass.

/// A `Range<DataRef>` borrowed from the reader keeps the reader mutably borrowed: no other read call
/// (which takes `&mut self`) can run while it is alive, so a lazily read range cannot be invalidated
/// or re-ordered by interleaved reads.
///
/// ```compile_fail,E0499
/// use calamine::{Reader, ReaderRef, Xlsx};
/// fn f(wb: &mut Xlsx<std::io::Cursor<Vec<u8>>>) {
///     let held = wb.worksheet_range_ref("Sheet1").unwrap();
///     let _other = wb.worksheet_range("Sheet2");      // second mutable borrow while `held` is alive
///     drop(held);
/// }
/// ```
///
/// Twin (compiles): the borrowed range is dropped first.
/// ```
/// use calamine::{Reader, ReaderRef, Xlsx};
/// fn f(wb: &mut Xlsx<std::io::Cursor<Vec<u8>>>) {
///     let held = wb.worksheet_range_ref("Sheet1").unwrap();
///     drop(held);
///     let _other = wb.worksheet_range("Sheet2");
/// }
/// ```
pub struct BorrowedRangePinsTheReader;

/// Same for xlsb.
///
/// ```compile_fail,E0499
/// use calamine::{Reader, ReaderRef, Xlsb};
/// fn f(wb: &mut Xlsb<std::io::Cursor<Vec<u8>>>) {
///     let held = wb.worksheet_range_ref("Sheet1").unwrap();
///     let _f = wb.worksheet_formula("Sheet1");
///     drop(held);
/// }
/// ```
/// ```
/// use calamine::{Reader, ReaderRef, Xlsb};
/// fn f(wb: &mut Xlsb<std::io::Cursor<Vec<u8>>>) {
///     let held = wb.worksheet_range_ref("Sheet1").unwrap();
///     drop(held);
///     let _f = wb.worksheet_formula("Sheet1");
/// }
/// ```
pub struct BorrowedRangePinsTheReaderXlsb;

/// The cell readers borrow the workbook mutably as well: two cell readers cannot be interleaved.
///
/// ```compile_fail,E0499
/// use calamine::Xlsx;
/// fn f(wb: &mut Xlsx<std::io::Cursor<Vec<u8>>>) {
///     let mut a = wb.worksheet_cells_reader("Sheet1").unwrap();
///     let mut b = wb.worksheet_cells_reader("Sheet2").unwrap();
///     let _ = (a.next_cell(), b.next_cell());
/// }
/// ```
/// ```
/// use calamine::Xlsx;
/// fn f(wb: &mut Xlsx<std::io::Cursor<Vec<u8>>>) {
///     let mut a = wb.worksheet_cells_reader("Sheet1").unwrap();
///     let _ = a.next_cell();
///     drop(a);
///     let mut b = wb.worksheet_cells_reader("Sheet2").unwrap();
///     let _ = b.next_cell();
/// }
/// ```
pub struct CellReadersAreExclusive;

/// Read methods take `&mut self` / `&self` only: a shared reference cannot read cells (so results
/// cannot depend on concurrent readers).
///
/// ```compile_fail,E0596
/// use calamine::{Reader, Xls};
/// fn f(wb: &Xls<std::io::Cursor<Vec<u8>>>) {
///     let _ = wb.worksheet_range("Sheet1");
/// }
/// ```
/// ```
/// use calamine::{Reader, Xls};
/// fn f(wb: &mut Xls<std::io::Cursor<Vec<u8>>>) {
///     let _ = wb.worksheet_range("Sheet1");
/// }
/// ```
pub struct ReadsNeedExclusiveAccess;
