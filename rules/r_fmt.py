"""R-FMT-SCAN: abstract evaluation of the number-format scanner's decision table.

`formats::detect_custom_number_format` is one `match (s, escaped, is_quote, ap, brackets)` with
first-match semantics.  The rule evaluates that decision list *statically* (patterns are matched
against a finite abstract input space, no calamine code is run) and checks the clauses the property
states: escaped characters, quoted text, later sections and bracketed prefixes never count as date
tokens; date letters outside of them do."""
from .kit import walk, walk_k, unwrap, peel, loc, path_local, path_def, lit_value, pat_bindings, norm, field_chain
from .r_tables import variants_built


def _match_pat(p, v):
    """does HIR pattern p match the concrete value v (char / bool / int / tuple of those)?"""
    k = p.get("k")
    if k in ("Wild",):
        return True
    if k == "Binding":
        return _match_pat(p["sub"], v) if p.get("sub") else True
    if k in ("Ref", "Box", "Deref"):
        return _match_pat(p["pat"], v)
    if k == "Or":
        return any(_match_pat(x, v) for x in p["pats"])
    if k == "PLit":
        e = p["e"]
        if "lit" in e:
            return e.get("v") == v
        return False
    if k == "Range":
        lo = p.get("lo", {}).get("v") if p.get("lo") else None
        hi = p.get("hi", {}).get("v") if p.get("hi") else None
        try:
            return (lo is None or v >= lo) and (hi is None or (v <= hi if p.get("inclusive") else v < hi))
        except TypeError:
            return False
    if k == "Tuple":
        pats = p["pats"]
        dd = p.get("dd")
        if dd is None:
            return len(pats) == len(v) and all(_match_pat(x, y) for x, y in zip(pats, v))
        before, after = pats[:dd], pats[dd:]
        if len(before) + len(after) > len(v):
            return False
        return all(_match_pat(x, y) for x, y in zip(before, v[:len(before)])) and all(_match_pat(x, y) for x, y in zip(after, v[len(v) - len(after):] if after else []))
    return False


_CANON = {}


def _sv(e):
    """name of a state variable: a local (`escaped`) or a field of a local state struct (`scan.escaped`)"""
    pl = path_local(e)
    if pl:
        return pl[0]
    fc = field_chain(e)
    if fc and fc[1]:
        return fc[1][-1]
    return None


def _effects(body, names):
    """effects of an arm body: set of strings"""
    out = set()
    for n in walk(body):
        k = n.get("k")
        if k == "Assign":
            nm = _sv(n["l"])
            if nm:
                v = lit_value(n["r"])
                out.add("%s=%s" % (_CANON.get(nm, nm), v if v is not None else "expr"))
        elif k == "AssignOp":
            nm = _sv(n["l"])
            if nm:
                out.add("%s%s=" % (_CANON.get(nm, nm), n["op"].rstrip("=")))
        elif k == "Ret":
            vs = variants_built(n, "CellFormat")
            out.add("return " + (vs[0] if vs else "?"))
    return out


CHARS = ['_', '\\', '"', ';', '[', ']', 'a', 'A', 'p', 'P', 'm', 'M', '/', 'd', 'D', 'h', 'H', 'y', 'Y', 's', 'S', '0', '#', ' ', 'x', ':', '.', '-', '$', 'e', 'E', 'g']
DATE_LETTERS = set("dmhysDMHYS")


def r_fmt_scan(ctx, rep):
    F = ctx.facts("default")
    fn = F.fn("formats::detect_custom_number_format")
    if fn is None:
        rep.anchor_missing("R-FMT-SCAN", "formats::detect_custom_number_format")
        return
    m = None
    for x in walk_k(fn.body, "Match"):
        sc = unwrap(x["scrut"])
        if sc.get("k") == "Tup" and len(sc["es"]) >= 4:
            m = x
    if m is None:
        rep.anchor_missing("R-FMT-SCAN", "the (char, escaped, quoted, am/pm, brackets) decision table")
        return
    names = [_sv(e) or "?" for e in unwrap(m["scrut"])["es"]]
    try:
        i_esc, i_quote, i_br = names.index("escaped"), names.index("is_quote"), names.index("brackets")
        i_ap = names.index("ap")
    except ValueError:
        # renamed state variables: fall back to their roles by position and type, (char, escaped: bool, in_quote: bool,
        # am_pm: bool, brackets: integer), and give them their canonical names for the effect strings
        tys = [(unwrap(e).get("ty") or "") for e in unwrap(m["scrut"])["es"]]
        if len(tys) == 5 and tys[0] == "char" and tys[1:4] == ["bool", "bool", "bool"] and tys[4] in ("u8", "u16", "u32", "usize", "i32"):
            i_esc, i_quote, i_ap, i_br = 1, 2, 3, 4
        else:
            rep.anchor_missing("R-FMT-SCAN", "state variables escaped / is_quote / ap / brackets in the scrutinee (found %s)" % names)
            return
    canon = {}
    for idx, cn in ((i_esc, "escaped"), (i_quote, "is_quote"), (i_ap, "ap"), (i_br, "brackets")):
        canon[names[idx]] = cn
    names = [canon.get(n_, n_) for n_ in names]
    _CANON.clear()
    _CANON.update(canon)

    def decide(s, esc, quote, ap, br):
        v = [None] * len(names)
        v[0] = s
        v[i_esc], v[i_quote], v[i_ap], v[i_br] = esc, quote, ap, br
        outs = []
        for arm in m["arms"]:
            if _match_pat(arm["pat"], v):
                eff = frozenset(_effects(arm["body"], names))
                if arm.get("guard") is not None:
                    outs.append((arm, eff, True))     # may or may not fire: keep looking too
                    continue
                outs.append((arm, eff, False))
                break
        return outs

    n_cases = 0
    bad = {}

    def check(clause, cases, ok, expect):
        nonlocal n_cases
        for c in cases:
            n_cases += 1
            for arm, eff, guarded in decide(*c):
                if not ok(eff, guarded):
                    bad.setdefault(clause, (c, arm, eff, expect))

    B = (False, True)
    # P1 escaped: the character is ignored, only the escape state is cleared
    check("escaped", [(s, True, q, a, b) for s in CHARS for q in B for a in B for b in (0, 1, 2)],
          lambda eff, g: eff <= {"escaped=False"} and (g or eff == {"escaped=False"}), "only `escaped = false`")
    # P2 quoted text: nothing but the closing quote has an effect
    check("quoted", [(s, False, True, a, b) for s in CHARS if s != '"' for a in B for b in (0, 1, 2)],
          lambda eff, g: not eff, "no effect at all (quoted text is literal)")
    check("closing-quote", [('"', False, True, a, b) for a in B for b in (0, 1, 2)],
          lambda eff, g: eff == {"is_quote=False"}, "`is_quote = false`")
    check("opening-quote", [('"', False, False, a, b) for a in B for b in (0, 1, 2)],
          lambda eff, g: eff == {"is_quote=True"}, "`is_quote = true`")
    # P3 escapes start with _ or \
    check("escape-start", [(s, False, False, a, b) for s in ('_', '\\') for a in B for b in (0, 1, 2)],
          lambda eff, g: eff == {"escaped=True"}, "`escaped = true`")
    # P4 a section separator outside quotes / escapes ends the scan: only the first section counts
    check("section-end", [(';', False, False, a, b) for a in B for b in (0, 1, 2)],
          lambda eff, g: eff == {"return Other"}, "`return CellFormat::Other`")
    # P5 inside brackets (colour, condition, locale, elapsed) no letter makes the format a calendar date/time
    check("bracketed", [(s, False, False, a, b) for s in CHARS if s not in ('_', '\\', '"', ';', '[', ']') for a in B for b in (1, 2)],
          lambda eff, g: "return DateTime" not in eff, "never `return CellFormat::DateTime` while brackets > 0")
    # P5b ... nor arms the sticky am/pm state (`[$-40A]`, `[Black]`, `[Magenta]` contain an `a`): once set it
    # disables the date-letter arm for the rest of the section
    check("bracketed-ampm", [(s, False, False, False, b) for s in CHARS if s not in ('_', '\\', '"', ';', '[', ']') for b in (1, 2)],
          lambda eff, g: "ap=True" not in eff, "never `ap = true` while brackets > 0")
    # P6 a date/time letter outside quotes, escapes and brackets makes it a date/time format
    check("date-letter", [(s, False, False, False, 0) for s in sorted(DATE_LETTERS)],
          lambda eff, g: eff == {"return DateTime"}, "`return CellFormat::DateTime`")
    # P7 am/pm: a/A then p/m// -> date/time
    check("am-pm", [(s, False, False, True, 0) for s in ('p', 'P', 'm', 'M', '/')],
          lambda eff, g: eff == {"return DateTime"}, "`return CellFormat::DateTime`")
    # P8 non-date characters outside everything never decide a date
    check("plain", [(s, False, False, False, 0) for s in ('0', '#', ' ', ':', '.', '-', '$', 'x', 'g')],
          lambda eff, g: not any(e.startswith("return") for e in eff), "no return")
    # P9 brackets are counted
    br_ty = (unwrap(unwrap(m["scrut"])["es"][i_br]).get("ty") or "")
    narrow = br_ty in ("u8", "u16", "i8", "i16")
    check("open-bracket", [('[', False, False, a, b) for a in B for b in (0, 1)],
          lambda eff, g: eff == {"brackets=expr"} or (eff == {"brackets+="} and not narrow),
          "`brackets = brackets.saturating_add(1)` (a plain `+= 1` overflows the %s counter after %s unmatched `[`)" % (br_ty, {"u8": 255, "i8": 127, "u16": 65535, "i16": 32767}.get(br_ty, "many")))
    # P9b an unmatched `]` at depth 0 must not underflow the counter
    check("close-bracket-at-zero", [(']', False, False, a, 0) for a in B],
          lambda eff, g: "brackets-=" not in eff, "no plain `brackets -= 1` at depth 0 (saturating_sub, or nothing)")
    check("close-bracket", [(']', False, False, a, b) for a in B for b in (1, 2)],
          lambda eff, g: (eff == {"brackets=expr"} or eff == {"brackets-="} or (g and eff == {"return TimeDelta"})), "`brackets -= 1` (or TimeDelta when an elapsed token was just read)")

    clauses = ["escaped", "quoted", "closing-quote", "opening-quote", "escape-start", "section-end", "bracketed", "bracketed-ampm", "date-letter", "am-pm", "plain", "open-bracket", "close-bracket", "close-bracket-at-zero"]
    for c in clauses:
        key = "formats::detect_custom_number_format|R-FMT-SCAN|%s" % c
        if c in bad:
            case, arm, eff, expect = bad[c]
            rep.violation("R-FMT-SCAN", key, loc(arm), "number-format scanner, clause `%s`: for input (char %r, escaped=%s, in-quote=%s, am/pm=%s, brackets=%s) the first matching arm (at %s) does %s, expected %s.  Quoted text, escapes, bracketed prefixes and later sections must not count as date tokens; date letters elsewhere must" % (
                c, case[0], case[1], case[2], case[3], case[4], loc(arm), sorted(eff) or "nothing", expect))
        else:
            rep.holds("R-FMT-SCAN", key, loc(m), "clause `%s` holds for every abstract input" % c)
    rep.notes.append("R-FMT-SCAN evaluated %d abstract inputs" % n_cases)
