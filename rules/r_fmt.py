"""R-FMT-SCAN: abstract evaluation of the number-format scanner's decision table.

`formats::detect_custom_number_format` is one `match (s, escaped, is_quote, ap, brackets)` with
first-match semantics.  The rule evaluates that decision list *statically* (patterns are matched
against a finite abstract input space, no calamine code is run) and checks the clauses the property
states: escaped characters, quoted text, later sections and bracketed prefixes never count as date
tokens; date letters outside of them do."""
from .kit import walk, walk_k, unwrap, peel, loc, path_local, path_def, lit_value, pat_bindings, norm, field_chain
from .r_tables import variants_built


def _match_pat(p, v):
    """does HIR pattern p match the concrete value v (char / bool / int / tuple of those)?"""
    k = p.get("k")
    if k in ("Wild",):
        return True
    if k == "Binding":
        return _match_pat(p["sub"], v) if p.get("sub") else True
    if k in ("Ref", "Box", "Deref"):
        return _match_pat(p["pat"], v)
    if k == "Or":
        return any(_match_pat(x, v) for x in p["pats"])
    if k == "PLit":
        e = p["e"]
        if "lit" in e:
            return e.get("v") == v
        return False
    if k == "Range":
        lo = p.get("lo", {}).get("v") if p.get("lo") else None
        hi = p.get("hi", {}).get("v") if p.get("hi") else None
        try:
            return (lo is None or v >= lo) and (hi is None or (v <= hi if p.get("inclusive") else v < hi))
        except TypeError:
            return False
    if k == "Tuple":
        pats = p["pats"]
        dd = p.get("dd")
        if dd is None:
            return len(pats) == len(v) and all(_match_pat(x, y) for x, y in zip(pats, v))
        before, after = pats[:dd], pats[dd:]
        if len(before) + len(after) > len(v):
            return False
        return all(_match_pat(x, y) for x, y in zip(before, v[:len(before)])) and all(_match_pat(x, y) for x, y in zip(after, v[len(v) - len(after):] if after else []))
    return False


_CANON = {}


def _sv(e):
    """name of a state variable: a local (`escaped`) or a field of a local state struct (`scan.escaped`)"""
    pl = path_local(e)
    if pl:
        return pl[0]
    fc = field_chain(e)
    if fc and fc[1]:
        return fc[1][-1]
    return None


def _effects(body, names):
    """effects of an arm body: set of strings"""
    out = set()
    for n in walk(body):
        k = n.get("k")
        if k == "Assign":
            nm = _sv(n["l"])
            if nm:
                v = lit_value(n["r"])
                out.add("%s=%s" % (_CANON.get(nm, nm), v if v is not None else "expr"))
        elif k == "AssignOp":
            nm = _sv(n["l"])
            if nm:
                out.add("%s%s=" % (_CANON.get(nm, nm), n["op"].rstrip("=")))
        elif k == "Ret":
            vs = variants_built(n, "CellFormat")
            out.add("return " + (vs[0] if vs else "?"))
    return out


CHARS = ['_', '\\', '"', ';', '[', ']', 'a', 'A', 'p', 'P', 'm', 'M', '/', 'd', 'D', 'h', 'H', 'y', 'Y', 's', 'S', '0', '#', ' ', 'x', ':', '.', '-', '$', 'e', 'E', 'g']
DATE_LETTERS = set("dmhysDMHYS")


UNK = object()


def _ev(e, env):
    """concrete value of an expression over the scanner state, or UNK"""
    e = unwrap(e)
    if not isinstance(e, dict):
        return UNK
    k = e.get("k")
    if k == "Lit":
        v = lit_value(e)
        return v if v is not None else UNK
    if k in ("Path", "Field"):
        nm = _sv(e)
        nm = _CANON.get(nm, nm)
        return env.get(nm, UNK) if nm else UNK
    if k in ("AddrOf", "Deref", "Cast", "DropTemps", "Use", "Type"):
        return _ev(e.get("e"), env)
    if k == "Unary" and e.get("op") == "!":
        v = _ev(e["e"], env)
        return (not v) if isinstance(v, bool) else UNK
    if k == "Binary":
        op = e.get("op")
        a = _ev(e["l"], env)
        if op == "&&":
            if a is False:
                return False
            b = _ev(e["r"], env)
            return b if a is True else (False if b is False else UNK)
        if op == "||":
            if a is True:
                return True
            b = _ev(e["r"], env)
            return b if a is False else (True if b is True else UNK)
        b = _ev(e["r"], env)
        if a is UNK or b is UNK:
            return UNK
        try:
            return {"==": a == b, "!=": a != b, "<": a < b, "<=": a <= b, ">": a > b, ">=": a >= b}.get(op, UNK)
        except TypeError:
            return UNK
    if k == "Tup":
        return tuple(_ev(x, env) for x in e.get("es", []))
    if k == "Match" and e.get("src") not in ("TryDesugar", "ForLoopDesugar"):
        # `matches!(s, 'a' | 'b')`: a match whose arms are boolean literals
        v = _ev(e["scrut"], env)
        for a in e.get("arms", []):
            r = _pat3(a["pat"], v)
            if r is UNK or a.get("guard") is not None:
                return UNK
            if r:
                return _ev(a["body"], env)
        return UNK
    if k == "BlockExpr" and not e["block"].get("stmts") and e["block"].get("expr") is not None:
        return _ev(e["block"]["expr"], env)
    return UNK


def _pat3(p, v):
    """three-valued pattern match: True / False / UNK (the pattern looks at a component that is not known)"""
    k = p.get("k")
    if k == "Wild":
        return True
    if k == "Binding":
        return _pat3(p["sub"], v) if p.get("sub") else True
    if k in ("Ref", "Box", "Deref"):
        return _pat3(p["pat"], v)
    if k == "Or":
        rs = [_pat3(x, v) for x in p["pats"]]
        return True if any(r is True for r in rs) else (UNK if any(r is UNK for r in rs) else False)
    if k == "Tuple":
        if not isinstance(v, tuple):
            return UNK
        pats, dd = p["pats"], p.get("dd")
        if dd is None:
            pairs = list(zip(pats, v)) if len(pats) == len(v) else None
        else:
            before, after = pats[:dd], pats[dd:]
            pairs = None if len(before) + len(after) > len(v) else list(zip(before, v[:len(before)])) + list(zip(after, v[len(v) - len(after):] if after else []))
        if pairs is None:
            return False
        rs = [_pat3(x, y) for x, y in pairs]
        return False if any(r is False for r in rs) else (UNK if any(r is UNK for r in rs) else True)
    if v is UNK:
        return UNK
    return _match_pat(p, v)


def _run(e, env, eff, guarded, skip):
    """paths through one iteration of the scanner's loop body for a concrete (char, state): [(node, effects, guarded, env)]
    for paths that fall through, plus finished paths (return) flagged by env None"""
    e = unwrap(e)
    if not isinstance(e, dict):
        return [(None, eff, guarded, env)]
    k = e.get("k")
    if k == "BlockExpr":
        b = e["block"]
        seq = [s_ for s_ in b.get("stmts", [])] + ([{"k": "Expr", "e": b["expr"]}] if b.get("expr") is not None else [])
        cur = [(None, eff, guarded, env)]
        for s_ in seq:
            x = s_.get("init") if s_.get("k") == "Let" else s_.get("e")
            if x is None:
                continue
            nxt = []
            for node, ef, g, en in cur:
                if en is None:
                    nxt.append((node, ef, g, en))
                    continue
                for r in _run(x, en, ef, g, skip):
                    nxt.append((r[0] or node, r[1], r[2], r[3]))
            cur = nxt
        return cur
    if k == "If":
        c = _ev(e["cond"], env)
        out = []
        if c is not False:
            out += [(r[0] or e, r[1], r[2], r[3]) for r in _run(e["then"], env, eff, guarded or c is UNK, skip)]
        if c is not True:
            if e.get("els") is not None:
                out += [(r[0] or e, r[1], r[2], r[3]) for r in _run(e["els"], env, eff, guarded or c is UNK, skip)]
            else:
                out.append((e, eff, guarded or c is UNK, env))
        return out
    if k == "Match" and e.get("src") not in ("TryDesugar", "ForLoopDesugar"):
        v = _ev(e["scrut"], env)
        out = []
        g = guarded
        for a in e.get("arms", []):
            r = _pat3(a["pat"], v)
            if r is False:
                continue
            gv = _ev(a["guard"], env) if a.get("guard") is not None else True
            if gv is False:
                continue
            sure = r is True and gv is True
            out += [(x[0] or a, x[1], x[2], x[3]) for x in _run(a["body"], env, eff, g or not sure, skip)]
            if sure:
                break
            g = True        # a later arm is only reached when this one did not fire
        return out
    if k in ("Assign", "AssignOp"):
        nm = _sv(e["l"])
        nm = _CANON.get(nm, nm) if nm else None
        if nm and nm not in skip:
            if k == "Assign":
                v = lit_value(e["r"])
                eff = eff | {"%s=%s" % (nm, v if v is not None else "expr")}
                env = dict(env)
                env[nm] = v if v is not None else UNK
            else:
                eff = eff | {"%s%s=" % (nm, e["op"].rstrip("="))}
                env = dict(env)
                env[nm] = UNK
        return [(e, eff, guarded, env)]
    if k == "Ret":
        vs = variants_built(e, "CellFormat")
        return [(e, eff | {"return " + (vs[0] if vs else "?")}, guarded, None)]
    if k in ("Break", "Continue"):
        return [(e, eff, guarded, None)]
    return [(None, eff, guarded, env)]


def r_fmt_scan(ctx, rep):
    from .kit import for_loops
    F = ctx.facts("default")
    fn = F.fn("formats::detect_custom_number_format")
    if fn is None:
        rep.anchor_missing("R-FMT-SCAN", "formats::detect_custom_number_format")
        return
    loops = [fl for fl in for_loops(fn.body) if any(c.get("name") == "chars" for c in walk_k(fl[0], "MethodCall")) or "Chars" in ((peel(fl[0]) or {}).get("ty") or "")]
    if not loops:
        rep.anchor_missing("R-FMT-SCAN", "the (char, escaped, quoted, am/pm, brackets) decision table")
        return
    it, pat, lbody, outer = loops[0]
    cvar = [nm for nm, _ in pat_bindings(pat)]
    if len(cvar) != 1:
        rep.anchor_missing("R-FMT-SCAN", "the character variable of the scanner's loop")
        return
    cvar = cvar[0]
    # the four state variables, by name; renamed ones by their role in a (char, bool, bool, bool, integer) scrutinee
    seen = set()
    for n in walk(lbody):
        if isinstance(n, dict) and n.get("k") in ("Path", "Field"):
            nm = _sv(n)
            if nm:
                seen.add(nm)
    canon = {}
    if not {"escaped", "is_quote", "ap", "brackets"} <= seen:
        m0 = None
        for x in walk_k(lbody, "Match"):
            sc = unwrap(x["scrut"])
            if sc.get("k") == "Tup" and len(sc["es"]) == 5:
                m0 = x
        tys = [(unwrap(e).get("ty") or "") for e in unwrap(m0["scrut"])["es"]] if m0 else []
        if len(tys) == 5 and tys[0] == "char" and tys[1:4] == ["bool", "bool", "bool"] and tys[4] in ("u8", "u16", "u32", "usize", "i32"):
            nms = [_sv(e) or "?" for e in unwrap(m0["scrut"])["es"]]
            canon = {nms[1]: "escaped", nms[2]: "is_quote", nms[3]: "ap", nms[4]: "brackets"}
        else:
            rep.anchor_missing("R-FMT-SCAN", "the (char, escaped, quoted, am/pm, brackets) decision table")
            return
    canon[cvar] = "@char"
    _CANON.clear()
    _CANON.update(canon)
    # what every iteration does unconditionally (`prev = s;`) decides nothing
    skip = set()
    top_ = unwrap(lbody)
    for s_ in (top_["block"].get("stmts", []) if isinstance(top_, dict) and top_.get("k") == "BlockExpr" else []):
        e_ = unwrap(s_.get("e")) if s_.get("k") in ("Expr", "Semi") and s_.get("e") is not None else None
        if isinstance(e_, dict) and e_.get("k") == "Assign" and _sv(e_["l"]):
            skip.add(_CANON.get(_sv(e_["l"]), _sv(e_["l"])))
    skip -= {"escaped", "is_quote", "ap", "brackets"}
    body_e = lbody if isinstance(lbody, dict) and lbody.get("k") != "Block" else {"k": "BlockExpr", "block": lbody}
    m = outer

    def decide(s, esc, quote, ap, br):
        env = {"@char": s, "escaped": esc, "is_quote": quote, "ap": ap, "brackets": br}
        return [(node or outer, frozenset(eff), g) for node, eff, g, _ in _run(body_e, env, frozenset(), False, skip)]

    n_cases = 0
    bad = {}

    def check(clause, cases, ok, expect):
        nonlocal n_cases
        for c in cases:
            n_cases += 1
            for arm, eff, guarded in decide(*c):
                if not ok(eff, guarded):
                    bad.setdefault(clause, (c, arm, eff, expect))

    B = (False, True)
    # P1 escaped: the character is ignored, only the escape state is cleared
    check("escaped", [(s, True, q, a, b) for s in CHARS for q in B for a in B for b in (0, 1, 2)],
          lambda eff, g: eff <= {"escaped=False"} and (g or eff == {"escaped=False"}), "only `escaped = false`")
    # P2 quoted text: nothing but the closing quote has an effect
    check("quoted", [(s, False, True, a, b) for s in CHARS if s != '"' for a in B for b in (0, 1, 2)],
          lambda eff, g: not eff, "no effect at all (quoted text is literal)")
    check("closing-quote", [('"', False, True, a, b) for a in B for b in (0, 1, 2)],
          lambda eff, g: eff == {"is_quote=False"}, "`is_quote = false`")
    check("opening-quote", [('"', False, False, a, b) for a in B for b in (0, 1, 2)],
          lambda eff, g: eff == {"is_quote=True"}, "`is_quote = true`")
    # P3 escapes start with _ or \
    check("escape-start", [(s, False, False, a, b) for s in ('_', '\\') for a in B for b in (0, 1, 2)],
          lambda eff, g: eff == {"escaped=True"}, "`escaped = true`")
    # P4 a section separator outside quotes / escapes ends the scan: only the first section counts
    check("section-end", [(';', False, False, a, b) for a in B for b in (0, 1, 2)],
          lambda eff, g: eff == {"return Other"}, "`return CellFormat::Other`")
    # P5 inside brackets (colour, condition, locale, elapsed) no letter makes the format a calendar date/time
    check("bracketed", [(s, False, False, a, b) for s in CHARS if s not in ('_', '\\', '"', ';', '[', ']') for a in B for b in (1, 2)],
          lambda eff, g: "return DateTime" not in eff, "never `return CellFormat::DateTime` while brackets > 0")
    # P5b ... nor arms the sticky am/pm state (`[$-40A]`, `[Black]`, `[Magenta]` contain an `a`): once set it
    # disables the date-letter arm for the rest of the section
    check("bracketed-ampm", [(s, False, False, False, b) for s in CHARS if s not in ('_', '\\', '"', ';', '[', ']') for b in (1, 2)],
          lambda eff, g: "ap=True" not in eff, "never `ap = true` while brackets > 0")
    # P6 a date/time letter outside quotes, escapes and brackets makes it a date/time format
    check("date-letter", [(s, False, False, False, 0) for s in sorted(DATE_LETTERS)],
          lambda eff, g: eff == {"return DateTime"}, "`return CellFormat::DateTime`")
    # P7 am/pm: a/A then p/m// -> date/time
    check("am-pm", [(s, False, False, True, 0) for s in ('p', 'P', 'm', 'M', '/')],
          lambda eff, g: eff == {"return DateTime"}, "`return CellFormat::DateTime`")
    # P8 non-date characters outside everything never decide a date
    check("plain", [(s, False, False, False, 0) for s in ('0', '#', ' ', ':', '.', '-', '$', 'x', 'g')],
          lambda eff, g: not any(e.startswith("return") for e in eff), "no return")
    # P9 brackets are counted
    br_ty = ""
    inv = {v: k for k, v in _CANON.items()}
    for l_ in walk_k(fn.body, "Let"):
        for nm_, _lid in pat_bindings(l_["pat"]):
            if nm_ == inv.get("brackets", "brackets"):
                br_ty = (l_["pat"].get("ty") or (unwrap(l_["init"]).get("ty") if l_.get("init") is not None else "") or "")
    if not br_ty:
        for n_ in walk(lbody):
            if isinstance(n_, dict) and n_.get("k") in ("Path", "Field") and _CANON.get(_sv(n_), _sv(n_)) == "brackets" and n_.get("ty"):
                br_ty = n_["ty"].replace("&mut ", "").replace("&", "")
                break
    narrow = br_ty in ("u8", "u16", "i8", "i16")
    check("open-bracket", [('[', False, False, a, b) for a in B for b in (0, 1)],
          lambda eff, g: eff == {"brackets=expr"} or (eff == {"brackets+="} and not narrow),
          "`brackets = brackets.saturating_add(1)` (a plain `+= 1` overflows the %s counter after %s unmatched `[`)" % (br_ty, {"u8": 255, "i8": 127, "u16": 65535, "i16": 32767}.get(br_ty, "many")))
    # P9b an unmatched `]` at depth 0 must not underflow the counter
    check("close-bracket-at-zero", [(']', False, False, a, 0) for a in B],
          lambda eff, g: "brackets-=" not in eff, "no plain `brackets -= 1` at depth 0 (saturating_sub, or nothing)")
    check("close-bracket", [(']', False, False, a, b) for a in B for b in (1, 2)],
          lambda eff, g: (eff == {"brackets=expr"} or eff == {"brackets-="} or (g and eff == {"return TimeDelta"})), "`brackets -= 1` (or TimeDelta when an elapsed token was just read)")

    clauses = ["escaped", "quoted", "closing-quote", "opening-quote", "escape-start", "section-end", "bracketed", "bracketed-ampm", "date-letter", "am-pm", "plain", "open-bracket", "close-bracket", "close-bracket-at-zero"]
    for c in clauses:
        key = "formats::detect_custom_number_format|R-FMT-SCAN|%s" % c
        if c in bad:
            case, arm, eff, expect = bad[c]
            rep.violation("R-FMT-SCAN", key, loc(arm), "number-format scanner, clause `%s`: for input (char %r, escaped=%s, in-quote=%s, am/pm=%s, brackets=%s) the first matching arm (at %s) does %s, expected %s.  Quoted text, escapes, bracketed prefixes and later sections must not count as date tokens; date letters elsewhere must" % (
                c, case[0], case[1], case[2], case[3], case[4], loc(arm), sorted(eff) or "nothing", expect))
        else:
            rep.holds("R-FMT-SCAN", key, loc(m), "clause `%s` holds for every abstract input" % c)
    rep.notes.append("R-FMT-SCAN evaluated %d abstract inputs" % n_cases)
