"""Abstract interpreter over the MIR facts (DESIGN.md appendix A).

Per function: forward dataflow over the CFG (panic edges are not part of the facts) with
  * integer values as linear expressions over atoms + intervals + taint,
  * slice objects with lower bounds on their length (constant, symbolic, exact),
  * branch refinement from comparisons,
and a list of *sites* (index / slice / split / arithmetic / allocation / unwrap) with a verdict
proved | unproved.  Interprocedural part: constant length requirements of helpers on their slice
parameters become sites at the call sites (bottom-up over the call graph).
"""
import os
import sys
from collections import defaultdict
import re as _re

from .kit import norm

sys.setrecursionlimit(10000)

INF = float("inf")

INT_BOUNDS = {
    "u8": (0, 255), "u16": (0, 65535), "u32": (0, 2 ** 32 - 1), "u64": (0, 2 ** 64 - 1), "u128": (0, 2 ** 128 - 1),
    "i8": (-128, 127), "i16": (-2 ** 15, 2 ** 15 - 1), "i32": (-2 ** 31, 2 ** 31 - 1), "i64": (-2 ** 63, 2 ** 63 - 1), "i128": (-2 ** 127, 2 ** 127 - 1),
    "bool": (0, 1), "char": (0, 0x10FFFF),
}


def is_int_class(c):
    return c in INT_BOUNDS and c not in ("bool",)


def is_u8_seq(c):
    """type class of something whose elements are file bytes"""
    return c in ("&[u8]", "[u8]", "&&[u8]") or c.startswith("[u8;") or c.startswith("&[u8;") or c == "adt:alloc::vec::Vec<u8>" or c == "&adt:alloc::vec::Vec<u8>"


# ----------------------------------------------------------------------------------------------
# linear expressions


class Lin:
    __slots__ = ("c", "t")

    def __init__(self, c=0, t=()):
        self.c = c
        self.t = tuple(sorted((a, k) for a, k in t if k != 0))

    @staticmethod
    def atom(a):
        return Lin(0, ((a, 1),))

    def add(self, o, sign=1):
        d = dict(self.t)
        for a, k in o.t:
            d[a] = d.get(a, 0) + sign * k
        return Lin(self.c + sign * o.c, d.items())

    def scale(self, k):
        return Lin(self.c * k, ((a, c * k) for a, c in self.t))

    def is_const(self):
        return not self.t

    def atoms(self):
        return [a for a, _ in self.t]

    def key(self):
        return (self.c, self.t)

    def __eq__(self, o):
        return isinstance(o, Lin) and self.key() == o.key()

    def __hash__(self):
        return hash(self.key())

    def __repr__(self):
        parts = []
        for a, k in self.t:
            parts.append(("%s" % a) if k == 1 else "%d*%s" % (k, a))
        if self.c or not parts:
            parts.append(str(self.c))
        return "+".join(parts)


# ----------------------------------------------------------------------------------------------
# values

UNK = None


def V_int(lin=None, lo=-INF, hi=INF, taint=False, ub=frozenset()):
    return ("int", lin, lo, hi, taint, ub)


def V_const(c):
    return ("int", Lin(c), c, c, False, frozenset())


def V_slice(sid):
    return ("slice", sid)


def kind(v):
    return v[0] if v else None


class State:
    __slots__ = ("val", "sl", "ab", "rel")

    def __init__(self):
        self.val = {}
        self.sl = {}    # sid -> (minc, frozenset(Lin), exact Lin|None)
        self.ab = {}    # atom -> (lo, hi)
        self.rel = frozenset()   # (Lin a, Lin b): a <= b

    def copy(self):
        s = State()
        s.val = dict(self.val)
        s.sl = dict(self.sl)
        s.ab = dict(self.ab)
        s.rel = self.rel
        return s

    def key(self):
        return (tuple(sorted((k, _vkey(v)) for k, v in self.val.items())), tuple(sorted((k, (v[0], tuple(sorted(x.key() for x in v[1])), v[2].key() if v[2] else None)) for k, v in self.sl.items())),
                tuple(sorted(self.ab.items())), tuple(sorted((a.key(), b.key()) for a, b in self.rel)))


def _vkey(v):
    if v is None:
        return None
    if v[0] == "int":
        return ("int", v[1].key() if v[1] else None, v[2], v[3], v[4], tuple(sorted(v[5])))
    if v[0] == "opt" and v[1] == "guard":
        return ("opt", "guard", tuple((c[0], _vkey(c[1]), _vkey(c[2])) for c in v[2]))
    if v[0] in ("tuple", "range", "opt", "iter", "bool"):
        return (v[0],) + tuple(_vkey(x) if isinstance(x, tuple) and x and isinstance(x[0], str) and x[0] in ("int", "slice", "tuple", "range", "opt", "iter", "bool", "ref") else (tuple(_vkey(y) for y in x) if isinstance(x, list) else x) for x in v[1:])
    return v


def join_val(a, b, widen=False):
    if a is None or b is None:
        return None
    if a == b:
        return a
    if a[0] != b[0]:
        return None
    if a[0] == "int":
        lin = a[1] if (a[1] is not None and a[1] == b[1]) else None
        lo, hi = min(a[2], b[2]), max(a[3], b[3])
        return ("int", lin, lo, hi, a[4] or b[4], a[5] & b[5])
    if a[0] == "tuple" and len(a[1]) == len(b[1]):
        return ("tuple", [join_val(x, y) for x, y in zip(a[1], b[1])])
    if a[0] == "range" and a[1] == b[1]:
        return ("range", a[1], join_val(a[2], b[2]), join_val(a[3], b[3]))
    if a[0] == "opt" and a[1] == b[1] == "guard":
        return a if _vkey(a) == _vkey(b) else None
    if a[0] == "opt" and a[1] == b[1]:
        return ("opt", a[1], join_val(a[2], b[2]))
    return None


def join_state(a, b):
    s = State()
    for k in a.val.keys() & b.val.keys():
        v = join_val(a.val[k], b.val[k])
        if v is not None:
            s.val[k] = v
    for k in a.sl.keys() & b.sl.keys():
        x, y = a.sl[k], b.sl[k]
        # an exact length is also a lower bound
        xs = x[1] | ({x[2]} if x[2] is not None else frozenset())
        ys = y[1] | ({y[2]} if y[2] is not None else frozenset())
        ex = x[2] if (x[2] is not None and x[2] == y[2]) else None
        s.sl[k] = (min(x[0], y[0]), frozenset(z for z in (xs & ys) if z != ex), ex)
    for k in a.ab.keys() & b.ab.keys():
        x, y = a.ab[k], b.ab[k]
        s.ab[k] = (min(x[0], y[0]), max(x[1], y[1]))
    s.rel = a.rel & b.rel
    return s


# ----------------------------------------------------------------------------------------------


class Site:
    __slots__ = ("fn", "kind", "op", "where", "proved", "detail", "sig", "need", "base", "tainted", "bb", "span", "req")

    def __init__(self, fn, kind, op, span, proved, detail, sig, tainted=True, req=None):
        self.fn = fn
        self.kind = kind      # R-INDEX / R-ARITH / R-ALLOC / R-PANIC
        self.op = op
        self.span = span
        self.where = "%s:%d" % (span.get("f", "?"), span.get("l", 0)) if span else "?"
        self.proved = proved
        self.detail = detail
        self.sig = sig        # structural signature (no line numbers / local names)
        self.tainted = tainted
        self.req = req        # (param index, k) when the site is a constant requirement on a slice parameter


class FnAnalysis:
    def __init__(self, prog, name, body):
        self.prog = prog
        self.name = name
        self.body = body
        self.blocks = body["blocks"]
        self.locals = body["locals"]
        self.nargs = body["arg_count"]
        self.sites = {}          # site id -> Site (last evaluation wins, evaluated in final pass)
        self.atom_meta = {}      # atom -> dict(lo, hi, taint, desc)
        self.collect = False
        self.param_sids = {}

    # ---------------------------------------------------------------- atoms / type helpers
    def lclass(self, l):
        return self.locals[l]["c"]

    def fresh(self, tag, cls, taint, desc):
        a = "v" + tag
        lo, hi = INT_BOUNDS.get(cls, (-INF, INF))
        self.atom_meta[a] = {"lo": lo, "hi": hi, "taint": taint, "desc": desc}
        return a

    def int_of_atom(self, a):
        m = self.atom_meta[a]
        return ("int", Lin.atom(a), m["lo"], m["hi"], m["taint"], frozenset())

    def unknown_int(self, tag, cls, taint=True, desc=None):
        if cls not in INT_BOUNDS:
            return None
        a = self.fresh(tag, cls, taint, desc or ("src%d" % _bits(cls) if taint else "unk"))
        return self.int_of_atom(a)

    # ---------------------------------------------------------------- locations
    def resolve(self, st, place):
        """canonical location string of a place; derefs of references with a known target are followed"""
        loc = "_%d" % place["l"]
        for e in place.get("p") or []:
            if e == "*":
                v = st.val.get(loc)
                if v and v[0] == "ref":
                    loc = v[1]
                else:
                    loc = loc + "*"
            elif isinstance(e, str):
                loc = loc + "." + e
            elif "f" in e:
                loc = loc + "." + str(e.get("n") or e["f"])
            elif "idx" in e or "cidx" in e:
                loc = loc + "[]"
            elif "sub_from" in e:
                loc = loc + "[..]"
            elif "dc" in e:
                loc = loc + "#" + str(e.get("n") or e["dc"])
        return loc

    def place_class(self, place):
        """type class of the place if it is a bare local (after projections we only know field classes)"""
        c = self.lclass(place["l"])
        for e in place.get("p") or []:
            if e == "*":
                c = c[1:] if c.startswith("&") else "?"
            elif isinstance(e, dict) and "f" in e:
                c = e.get("ty", "?")
            elif isinstance(e, dict) and ("idx" in e or "cidx" in e):
                if c.startswith("[") and ";" in c:
                    c = c[1:c.index(";")]
                elif c.startswith("[") and c.endswith("]"):
                    c = c[1:-1]
                elif c == "adt:alloc::vec::Vec<u8>":
                    c = "u8"
                else:
                    c = "?"
            elif isinstance(e, dict) and "dc" in e:
                pass
            else:
                c = "?"
        return c

    def slice_sid_of_loc(self, st, loc, cls):
        """slice object stored at a location (created on demand for byte buffers of unknown provenance)"""
        v = st.val.get(loc)
        if v and v[0] == "slice":
            return v[1]
        if v and v[0] == "ref":
            return self.slice_sid_of_loc(st, v[1], cls[1:] if cls.startswith("&") else cls)
        # `*p` where p is a slice-valued reference is that slice
        base = loc
        while base.endswith("*"):
            base = base[:-1]
            bv = st.val.get(base)
            if bv and bv[0] == "slice":
                return bv[1]
            if bv and bv[0] == "ref":
                return self.slice_sid_of_loc(st, bv[1], cls)
        sid = "F:" + loc
        if sid not in st.sl:
            n = _array_len(cls)
            st.sl[sid] = (n, frozenset(), Lin(n)) if n is not None else (0, frozenset(), None)
        st.val[loc] = ("slice", sid)
        return sid

    # ---------------------------------------------------------------- reading operands
    def read_place(self, st, place, tag):
        projs = place.get("p") or []
        # element loads from byte buffers
        if projs and isinstance(projs[-1], dict) and ("idx" in projs[-1] or "cidx" in projs[-1]):
            base = {"l": place["l"], "p": projs[:-1]}
            bc = self.place_class(base)
            ec = self.place_class(place)
            if is_u8_seq(bc) or ec == "u8":
                return self.unknown_int("e" + tag, "u8", True, "src8")
            if ec in INT_BOUNDS:
                return self.unknown_int("e" + tag, ec, True, None)
            return None
        loc = self.resolve(st, place)
        v = st.val.get(loc)
        if v is not None:
            if v[0] == "int" and v[1] is None:
                v = self.loc_atom(st, loc, v)
            return v
        # tuple / struct component of a tracked aggregate
        if projs and isinstance(projs[-1], dict) and "f" in projs[-1]:
            base = {"l": place["l"], "p": projs[:-1]}
            bv = st.val.get(self.resolve(st, base))
            if bv and bv[0] == "tuple" and projs[-1]["f"] < len(bv[1]):
                return bv[1][projs[-1]["f"]]
            if bv and bv[0] == "opt" and bv[1] != "guard" and bv[2] is not None:
                return bv[2]
            if bv and bv[0] == "range":
                nm = projs[-1].get("n")
                if nm == "start":
                    return bv[2]
                if nm == "end":
                    return bv[3]
        if len(projs) >= 2 and isinstance(projs[-1], dict) and "f" in projs[-1] and isinstance(projs[-2], dict) and "dc" in projs[-2]:
            base = {"l": place["l"], "p": projs[:-2]}
            bv = st.val.get(self.resolve(st, base))
            if bv and bv[0] == "opt" and bv[1] != "guard" and bv[2] is not None and projs[-2].get("n") in ("Some", "Ok", "Continue"):
                return bv[2]
        c = self.place_class(place)
        if c in INT_BOUNDS and c != "bool":
            # unknown integer read from memory (struct field, parameter): tainted by default
            a = "m" + loc
            if a not in self.atom_meta:
                lo, hi = INT_BOUNDS[c]
                self.atom_meta[a] = {"lo": lo, "hi": hi, "taint": True, "desc": "src%d" % _bits(c) if not loc.startswith("_") or True else "unk"}
            v = self.int_of_atom(a)
            if a in st.ab:
                v = ("int", v[1], max(v[2], st.ab[a][0]), min(v[3], st.ab[a][1]), v[4], v[5])
            return v
        if is_u8_seq(c):
            return ("slice", self.slice_sid_of_loc(st, loc, c))
        return None

    def loc_atom(self, st, loc, v):
        """give an integer without a symbolic form the atom of the location it is stored in, so that
        later comparisons on that location refine it (invalidated when the location is written)"""
        a = "m" + loc
        self.atom_meta[a] = {"lo": -INF, "hi": INF, "taint": v[4], "desc": ("bounded%d" % max(int(v[3]).bit_length(), 1)) if (v[3] < INF and v[2] >= 0) else "unk"}
        lo, hi = st.ab.get(a, (-INF, INF))
        st.ab[a] = (max(lo, v[2]), min(hi, v[3]))
        nv = ("int", Lin.atom(a), max(lo, v[2]), min(hi, v[3]), v[4], v[5])
        st.val[loc] = nv
        return nv

    def read_operand(self, st, op, tag):
        if "const" in op:
            c = op["const"]
            if "int" in c:
                return V_const(c["int"])
            if c.get("ty") in ("u64", "usize") and self.const_generic():
                # the value of the function's const generic parameter (`fn le_bytes<const N: usize>`): one symbol
                if "GN" not in self.atom_meta:
                    self.atom_meta["GN"] = {"lo": 0, "hi": 2 ** 32, "taint": False, "desc": "N"}
                return self.int_of_atom("GN")
            return None
        place = op.get("copy") or op.get("move")
        return self.refresh(st, self.read_place(st, place, tag))

    def const_generic(self):
        """does the function have a const generic array length in its signature (`-> [u8; N]`)?"""
        if not hasattr(self, "_cg"):
            self._cg = any(_re.search(r"\[u8; [A-Z]\w*\]", (l.get("ty") or "")) for l in self.locals[:self.nargs + 1])
        return self._cg

    def refresh(self, st, v):
        """re-tighten an int value's interval from the current atom bounds"""
        if v and v[0] == "int" and v[1] is not None:
            lo, hi = self.lin_bounds(st, v[1])
            return ("int", v[1], max(v[2], lo), min(v[3], hi), v[4], v[5])
        return v

    # ---------------------------------------------------------------- arithmetic on values
    def atom_bounds(self, st, a):
        if a.startswith("L"):
            sid = a[1:]
            minc = st.sl.get(sid, (0, frozenset(), None))[0]
            lo, hi = minc, 2 ** 63 - 1
        else:
            m = self.atom_meta.get(a, {"lo": -INF, "hi": INF})
            lo, hi = m["lo"], m["hi"]
        if a in st.ab:
            lo, hi = max(lo, st.ab[a][0]), min(hi, st.ab[a][1])
        return lo, hi

    def lin_bounds(self, st, lin):
        lo = hi = lin.c
        for a, k in lin.t:
            al, ah = self.atom_bounds(st, a)
            if k > 0:
                lo += k * al
                hi += k * ah
            else:
                lo += k * ah
                hi += k * al
        return lo, hi

    def lin_taint(self, lin):
        return any(self.atom_meta.get(a, {}).get("taint", False) for a in lin.atoms() if not a.startswith("L"))

    def expand(self, st, lin, depth=0):
        """substitute exact lengths of derived slices"""
        if depth > 6:
            return lin
        out = Lin(lin.c)
        changed = False
        for a, k in lin.t:
            if a.startswith("L"):
                ex = st.sl.get(a[1:], (0, None, None))[2]
                if ex is not None and ex != Lin.atom(a):
                    out = out.add(ex.scale(k))
                    changed = True
                    continue
            out = out.add(Lin(0, ((a, k),)))
        return self.expand(st, out, depth + 1) if changed else out

    def prove_nonneg(self, st, d, depth=0):
        """is the linear expression d >= 0 in state st?"""
        d = self.expand(st, d)
        lo, _ = self.lin_bounds(st, d)
        if lo >= 0:
            return True
        if depth > 3:
            return False
        # substitute a positive length atom by one of its symbolic lower bounds
        for a, k in d.t:
            if k > 0 and a.startswith("L"):
                for sym in st.sl.get(a[1:], (0, frozenset(), None))[1]:
                    nd = d.add(Lin(0, ((a, k),)), -1).add(sym.scale(k))
                    if self.prove_nonneg(st, nd, depth + 1):
                        return True
        # relational facts a <= b : d = (b - a) + rest with rest >= 0
        for (x, y) in st.rel:
            nd = d.add(y, -1).add(x)
            if nd != d and self.lin_bounds(st, self.expand(st, nd))[0] >= 0:
                return True
        return False

    def prove_le(self, st, x, y, strict=False):
        """x <= y (or x < y)"""
        if x is None or y is None or x[0] != "int" or y[0] != "int":
            return False
        off = 1 if strict else 0
        if x[3] + off <= y[2]:
            return True
        if x[1] is not None and y[1] is not None:
            if self.prove_nonneg(st, y[1].add(x[1], -1).add(Lin(off), -1)):
                return True
        # upper-bound facts carried by x:  coef*x + k <= len(sid)
        if y[1] is not None:
            for (sid, coef, k) in x[5]:
                if coef == 1:
                    # x <= L - k ; want L - k + ... <= y
                    if self.prove_nonneg(st, y[1].add(Lin.atom("L" + sid), -1).add(Lin(k)).add(Lin(off), -1)):
                        return True
        if x[1] is None and y[1] is not None and x[3] < INF:
            if self.prove_nonneg(st, y[1].add(Lin(x[3] + off), -1)):
                return True
        if y[1] is None and x[1] is not None and y[2] > -INF:
            if self.prove_nonneg(st, Lin(y[2] - off).add(x[1], -1)):
                return True
        return False

    def len_val(self, st, sid):
        minc = st.sl.get(sid, (0, frozenset(), None))[0]
        return ("int", Lin.atom("L" + sid), minc, 2 ** 63 - 1, False, frozenset())

    def binop(self, st, op, a, b, cls, tag):
        if a is None or b is None or a[0] != "int" or b[0] != "int":
            if cls in INT_BOUNDS and op not in ("Eq", "Lt", "Le", "Ne", "Ge", "Gt"):
                taint = bool((a and a[0] == "int" and a[4]) or (b and b[0] == "int" and b[4]) or a is None or b is None)
                lo, hi = INT_BOUNDS[cls]
                if op == "BitAnd":
                    for x in (a, b):
                        if x and x[0] == "int" and x[2] >= 0 and x[3] < INF:
                            return ("int", None, 0, x[3], taint, frozenset())
                return ("int", None, lo, hi, taint, frozenset())
            return None
        taint = a[4] or b[4]
        base = op.replace("WithOverflow", "").replace("Unchecked", "")
        tlo, thi = INT_BOUNDS.get(cls, (-INF, INF))
        lin = None
        ub = frozenset()
        if base == "Add":
            lo, hi = a[2] + b[2], a[3] + b[3]
            if a[1] is not None and b[1] is not None:
                lin = a[1].add(b[1])
        elif base == "Sub":
            lo, hi = a[2] - b[3], a[3] - b[2]
            if a[1] is not None and b[1] is not None:
                lin = a[1].add(b[1], -1)
            # (x - c) where x carries ub facts
            if b[1] is not None and b[1].is_const():
                ub = frozenset((sid, coef, k + coef * b[1].c) for (sid, coef, k) in a[5])
        elif base == "Mul":
            cands = [a[2] * b[2] if not _inf0(a[2], b[2]) else 0, a[2] * b[3] if not _inf0(a[2], b[3]) else 0, a[3] * b[2] if not _inf0(a[3], b[2]) else 0, a[3] * b[3] if not _inf0(a[3], b[3]) else 0]
            lo, hi = min(cands), max(cands)
            if a[2] >= 0 and b[2] >= 0:
                lo, hi = a[2] * b[2], (a[3] * b[3] if a[3] and b[3] else 0)
            if b[1] is not None and b[1].is_const() and a[1] is not None:
                lin = a[1].scale(b[1].c)
                ub = frozenset((sid, 1, k) for (sid, coef, k) in a[5] if coef == b[1].c and k == 0)
            elif a[1] is not None and a[1].is_const() and b[1] is not None:
                lin = b[1].scale(a[1].c)
                ub = frozenset((sid, 1, k) for (sid, coef, k) in b[5] if coef == a[1].c and k == 0)
        elif base == "Div":
            if b[2] > 0 and a[2] >= 0:
                lo, hi = a[2] // b[3] if b[3] < INF else 0, (a[3] // b[2] if a[3] < INF else INF)
                if b[1] is not None and b[1].is_const() and a[1] is not None and len(a[1].t) == 1 and a[1].c == 0 and a[1].t[0][0].startswith("L") and a[1].t[0][1] == 1:
                    # len(s) / c  ->  c * result <= len(s)
                    ub = frozenset([(a[1].t[0][0][1:], b[1].c, 0)])
            else:
                lo, hi = tlo, thi
        elif base == "Rem":
            if b[2] > 0 and b[3] < INF and a[2] >= 0:
                lo, hi = 0, min(a[3], b[3] - 1)
            else:
                lo, hi = tlo, thi
        elif base == "BitAnd":
            if a[2] >= 0 and b[2] >= 0:
                lo, hi = 0, min(a[3], b[3])
            elif b[2] >= 0:
                lo, hi = 0, b[3]
            elif a[2] >= 0:
                lo, hi = 0, a[3]
            else:
                lo, hi = tlo, thi
        elif base in ("BitOr", "BitXor"):
            if a[2] >= 0 and b[2] >= 0 and a[3] < INF and b[3] < INF:
                lo, hi = 0, (1 << max(int(a[3]).bit_length(), int(b[3]).bit_length())) - 1
            else:
                lo, hi = tlo, thi
        elif base == "Shr":
            if a[2] >= 0 and b[1] is not None and b[1].is_const():
                lo, hi = 0, (a[3] >> b[1].c if a[3] < INF else INF)
            elif a[2] >= 0:
                lo, hi = 0, a[3]
            else:
                lo, hi = tlo, thi
        elif base == "Shl":
            if a[2] >= 0 and b[1] is not None and b[1].is_const() and a[3] < INF:
                lo, hi = 0, a[3] << b[1].c
                if a[1] is not None:
                    lin = a[1].scale(1 << b[1].c)
            else:
                lo, hi = tlo, thi
        elif base in ("Eq", "Lt", "Le", "Ne", "Ge", "Gt"):
            return ("bool", (base, a, b))
        else:
            return None
        # wrap-around: if the mathematical result may leave the type the value is unknown within the type
        if lo < tlo or hi > thi:
            lin = None
            lo, hi = max(lo, tlo), min(hi, thi)
            if "WithOverflow" not in op and base in ("Add", "Sub", "Mul", "Shl"):
                lo, hi = tlo, thi
        return ("int", lin, lo, hi, taint, ub)


def _inf0(a, b):
    return (a in (INF, -INF) and b == 0) or (b in (INF, -INF) and a == 0)


def _bits(cls):
    return {"u8": 8, "i8": 8, "u16": 16, "i16": 16, "u32": 32, "i32": 32, "u64": 64, "i64": 64, "u128": 128, "i128": 128, "bool": 1, "char": 21}.get(cls, 64)


def _array_len(cls):
    c = cls.lstrip("&")
    if c.startswith("[") and ";" in c:
        try:
            return int(c[c.index(";") + 1:-1])
        except ValueError:
            return None
    return None


# ----------------------------------------------------------------------------------------------
# transfer functions

NEG = {"Lt": "Ge", "Le": "Gt", "Gt": "Le", "Ge": "Lt", "Eq": "Ne", "Ne": "Eq"}

_ARR_IN_TY = _re.compile(r"\[u8; (\d+)\]")


def _c(name, *subs):
    return name is not None and all(s in name for s in subs)


class FnRun(FnAnalysis):
    # ---------------------------------------------------------------- refinement
    def assume(self, st, cmp, truth):
        if cmp is None:
            return
        if cmp[0] == "not":
            return self.assume(st, cmp[1], not truth)
        if cmp[0] == "implies":
            # one-sided fact: holds only on the true edge
            if truth:
                self.assume(st, cmp[1], True)
            return
        if cmp[0] == "and":
            if truth:
                for c_ in cmp[1]:
                    self.assume(st, c_, True)
            return
        op, a, b = cmp
        if a is None or b is None or a[0] != "int" or b[0] != "int":
            return
        a, b = self.refresh(st, a), self.refresh(st, b)
        if not truth:
            op = NEG[op]
        if op == "Lt":
            self.le(st, a, b, 1)
        elif op == "Le":
            self.le(st, a, b, 0)
        elif op == "Gt":
            self.le(st, b, a, 1)
        elif op == "Ge":
            self.le(st, b, a, 0)
        elif op == "Eq":
            self.le(st, a, b, 0)
            self.le(st, b, a, 0)
            for x, y in ((a, b), (b, a)):
                if x[1] is not None and len(x[1].t) == 1 and x[1].c == 0 and x[1].t[0][1] == 1 and x[1].t[0][0].startswith("L") and y[1] is not None:
                    sid = x[1].t[0][0][1:]
                    cur = st.sl.get(sid, (0, frozenset(), None))
                    if not any(at == "L" + sid for at in y[1].atoms()):
                        st.sl[sid] = (max(cur[0], y[2] if y[2] > -INF else 0), cur[1], y[1])
        elif op == "Ne":
            # x != 0 for a non-negative x  ->  x >= 1
            for x, y in ((a, b), (b, a)):
                if y[1] is not None and y[1].is_const() and y[1].c == x[2]:
                    self.le(st, ("int", Lin(y[1].c + 1), y[1].c + 1, y[1].c + 1, False, frozenset()), x, 0)

    def le(self, st, x, y, off):
        """record x + off <= y"""
        # interval / atom bounds
        if x[1] is not None and len(x[1].t) == 1 and x[1].t[0][1] == 1 and y[3] < INF:
            a = x[1].t[0][0]
            lo, hi = st.ab.get(a, (-INF, INF))
            st.ab[a] = (lo, min(hi, y[3] - off - x[1].c))
        if y[1] is not None and len(y[1].t) == 1 and y[1].t[0][1] == 1 and x[2] > -INF:
            a = y[1].t[0][0]
            lo, hi = st.ab.get(a, (-INF, INF))
            nlo = max(lo, x[2] + off - y[1].c)
            st.ab[a] = (nlo, hi)
            if a.startswith("L"):
                sid = a[1:]
                cur = st.sl.get(sid, (0, frozenset(), None))
                st.sl[sid] = (max(cur[0], nlo), cur[1], cur[2])
        # symbolic lower bounds on lengths
        if y[1] is not None and x[1] is not None and not x[1].is_const():
            for a, k in y[1].t:
                if k == 1 and a.startswith("L"):
                    rest = y[1].add(Lin.atom(a), -1)
                    sym = x[1].add(Lin(off)).add(rest, -1)
                    if not any(at == a for at in sym.atoms()):
                        sid = a[1:]
                        cur = st.sl.get(sid, (0, frozenset(), None))
                        if len(cur[1]) < 6:
                            st.sl[sid] = (cur[0], cur[1] | {sym}, cur[2])
        if x[1] is not None and y[1] is not None and not (x[1].is_const() and y[1].is_const()) and len(st.rel) < 16:
            st.rel = st.rel | {(x[1].add(Lin(off)), y[1])}

    # ---------------------------------------------------------------- sites
    def origin(self, st, sid, depth=0):
        if sid.startswith("P"):
            return "arg%s" % sid[1:] if int(sid[1:]) < 100 else "arg1.%d" % (int(sid[1:]) - 100)
        if sid.startswith("F:"):
            return self.loc_desc(sid[2:])
        return self.sid_origin.get(sid, "local")

    def loc_desc(self, loc):
        m = _re.match(r"_(\d+)(.*)", loc)
        if not m:
            return loc
        n = int(m.group(1))
        rest = m.group(2).replace("*", "")
        if 1 <= n <= self.nargs:
            nm = self.arg_names.get(n)
            return ("self" if nm == "self" else "arg%d" % n) + rest
        return "local" + rest

    def val_desc(self, st, v):
        if v is None or v[0] != "int":
            return "unk"
        if v[1] is not None:
            if v[1].is_const():
                return str(v[1].c)
            parts = []
            for a, k in v[1].t:
                if a.startswith("L"):
                    d = "len(%s)" % self.origin(st, a[1:])
                else:
                    d = self.atom_meta.get(a, {}).get("desc") or "unk"
                parts.append(d if k == 1 else "%d*%s" % (k, d))
            parts.sort()
            if v[1].c:
                parts.append(str(v[1].c))
            return "+".join(parts)
        if v[3] < INF and v[2] > -INF:
            return "bounded%d" % max(int(v[3]).bit_length(), 1)
        return "unk"

    def add_site(self, key, kind_, op, span, proved, detail, sig, tainted=True, req=None):
        if not self.collect:
            return
        self.sites[key] = Site(self.name, kind_, op, span, proved, detail, sig, tainted, req)

    def facts_txt(self, st, sid):
        s = st.sl.get(sid, (0, frozenset(), None))
        return "len(%s) >= %s%s%s" % (self.origin(st, sid), s[0], "".join(", >= %r" % x for x in s[1]), (", == %r" % s[2]) if s[2] is not None else "")

    def check_need(self, st, key, op, span, sid, need, strict, base_desc=None, extra_ok=True):
        """site: need <= len(sid)  (need < len when strict)"""
        lenv = self.len_val(st, sid)
        ok = extra_ok and self.prove_le(st, need, lenv, strict)
        sig = "%s %s of %s" % (op, self.val_desc(st, need), base_desc or self.origin(st, sid))
        req = None
        if not ok and sid.startswith("P") and need is not None and need[0] == "int" and need[1] is not None and need[1].is_const():
            req = (int(sid[1:]), need[1].c + (1 if strict else 0))
        if not ok and req is None and sid.startswith("P") and need is not None and need[0] == "int" and need[1] is not None and need[1] == Lin.atom("GN") and not strict:
            req = (int(sid[1:]), "GN")      # as many bytes as the const generic parameter says: known at each call site
        if not ok and req is None and sid.startswith("P") and self.name in self.prog.direct_closures and need is not None and need[0] == "int" and need[1] is not None \
                and need[1].atoms() and all(_re.match(r"m_\d+$", a_) for a_ in need[1].atoms()):
            # `buf[row..row + 2]` in a local closure all of whose calls are seen: the need is a function of its
            # parameters, whose intervals are those of the call sites; the largest one moves to the enclosing function
            hi_ = self.lin_bounds(st, need[1])[1]
            if hi_ < 2 ** 32:
                req = (int(sid[1:]), int(hi_) + (1 if strict else 0))
        if not ok and req is None and not os.environ.get("C06_NO_SUBREQ") and need is not None and need[0] == "int" and need[1] is not None and need[1].is_const():
            # a sub-slice `param[c..]` of a parameter: the need moves to the parameter, c bytes further
            ex = st.sl.get(sid, (0, frozenset(), None))[2]
            exx = self.expand(st, ex) if ex is not None else None
            if exx is not None and len(exx.t) == 1 and exx.t[0][1] == 1 and exx.t[0][0].startswith("LP") and exx.t[0][0][2:].isdigit() and exx.c <= 0:
                req = (int(exx.t[0][0][2:]), need[1].c + (1 if strict else 0) - exx.c)
        self.add_site(key, "R-INDEX", op, span, ok,
                      "needs %s %s len(%s); known: %s" % (self.val_desc(st, need), "<" if strict else "<=", self.origin(st, sid), self.facts_txt(st, sid)), sig, True, req)
        return ok

    # ---------------------------------------------------------------- statements
    def new_slice(self, st, tag, parent, minc=0, syms=frozenset(), exact=None, origin=None):
        sid = "S" + tag
        st.sl[sid] = (max(0, minc if minc > -INF else 0), syms, exact)
        self.sid_origin[sid] = origin or ("sub(%s)" % self.origin(st, parent) if parent else "local")
        return sid

    def havoc(self, st, prefix):
        for k in [k for k in st.val if k == prefix or k.startswith(prefix + ".") or k.startswith(prefix + "*") or k.startswith(prefix + "[") or k.startswith(prefix + "#")]:
            del st.val[k]
        dead = set()
        for a in [a for a in st.ab if a.startswith("m" + prefix) and (a == "m" + prefix or a[len(prefix) + 1:len(prefix) + 2] in (".", "*", "[", "#"))]:
            dead.add(a)
        for k in [k for k in st.sl if k.startswith("F:" + prefix)]:
            st.sl[k] = (0, frozenset(), None)
            dead.add("L" + k)
        if dead:
            for a in dead:
                st.ab.pop(a, None)
            st.rel = frozenset((x, y) for (x, y) in st.rel if not (set(x.atoms()) | set(y.atoms())) & dead)
            for k, v in list(st.sl.items()):
                if v[2] is not None and set(v[2].atoms()) & dead or any(set(sy.atoms()) & dead for sy in v[1]):
                    st.sl[k] = (v[0], frozenset(sy for sy in v[1] if not set(sy.atoms()) & dead), None if (v[2] is not None and set(v[2].atoms()) & dead) else v[2])

    def assign(self, st, place, v):
        loc = self.resolve(st, place)
        facts = None
        if v is not None and v[0] == "slice" and ("." in loc or "*" in loc):
            # a byte buffer stored in memory (struct field / behind a reference) keeps the identity of its
            # location, so that the facts of all paths that assign it can be joined
            facts = st.sl.get(v[1], (0, frozenset(), None))
        self.havoc(st, loc)
        if facts is not None:
            fsid = "F:" + loc
            me = "L" + fsid
            ex = facts[2] if (facts[2] is not None and me not in facts[2].atoms()) else None
            st.sl[fsid] = (facts[0], frozenset(sy for sy in facts[1] if me not in sy.atoms()), ex)
            st.val[loc] = ("slice", fsid)
            return
        if v is not None:
            st.val[loc] = v

    def rvalue(self, st, rv, tag, dest_cls):
        k = rv["k"]
        if k == "Use":
            return self.read_operand(st, rv["a"], tag)
        if k == "Ref" or k == "RawPtr":
            place = rv["place"]
            pc = self.place_class(place)
            loc = self.resolve(st, place)
            if is_u8_seq(pc) and not pc.startswith("adt:"):
                return ("slice", self.slice_sid_of_loc(st, loc, pc))
            # sub-slice patterns  &(*_x)[a..b] are calls in MIR; a Subslice projection is rare
            return ("ref", loc)
        if k == "Cast":
            v = self.read_operand(st, rv["a"], tag)
            tc = rv["ty"]
            if v and v[0] == "int" and tc in INT_BOUNDS:
                lo, hi = INT_BOUNDS[tc]
                if getattr(self, "collect", False):
                    vv = self.refresh(st, v)
                    self.int_casts[tag] = (tc, vv[2], vv[3], vv[2] >= lo and vv[3] <= hi)
                if v[2] >= lo and v[3] <= hi:
                    return v
                return ("int", None, lo, hi, v[4], frozenset())
            if v and v[0] == "slice":
                return v
            if v and v[0] == "ref" and (is_u8_seq(tc) or tc.startswith("&[")):
                # unsizing &[u8; N] / &Vec -> &[u8]
                return ("slice", self.slice_sid_of_loc(st, v[1], "[u8]"))
            if tc in INT_BOUNDS and tc != "bool":
                return self.unknown_int("c" + tag, tc, True)
            return v if v and v[0] in ("ref",) else None
        if k == "BinaryOp":
            a = self.read_operand(st, rv["a"], tag + "a")
            b = self.read_operand(st, rv["b"], tag + "b")
            op = rv["op"]
            if "WithOverflow" in op:
                cls = None
                # result class = class of operand a
                pa = rv["a"].get("copy") or rv["a"].get("move")
                cls = self.place_class(pa) if pa else (rv["a"]["const"].get("ty") if "const" in rv["a"] else None)
                if (cls is None or cls not in INT_BOUNDS) and "const" in rv["b"]:
                    cls = rv["b"]["const"].get("ty")
                res = self.binop(st, op, a, b, cls or "u64", tag)
                return ("tuple", [res, None])
            return self.binop(st, op, a, b, dest_cls, tag)
        if k == "UnaryOp":
            if rv["op"] == "PtrMetadata":
                v = self.read_operand(st, rv["a"], tag)
                if v and v[0] == "slice":
                    return self.len_val(st, v[1])
                if v and v[0] == "ref":
                    return self.len_val(st, self.slice_sid_of_loc(st, v[1], "[u8]"))
                return ("int", None, 0, INF, False, frozenset())
            v = self.read_operand(st, rv["a"], tag)
            if rv["op"] == "Not" and v and v[0] == "bool":
                return ("bool", ("not", v[1]))
            if dest_cls in INT_BOUNDS and dest_cls != "bool":
                lo, hi = INT_BOUNDS[dest_cls]
                return ("int", None, lo, hi, bool(v and v[0] == "int" and v[4]) or v is None, frozenset())
            return None
        if k == "Aggregate":
            ops = [self.read_operand(st, o, tag + str(i)) for i, o in enumerate(rv["ops"])]
            if rv["ak"] == "Tuple":
                return ("tuple", ops)
            if rv["ak"] == "Adt":
                adt = rv.get("adt", "")
                f = rv.get("fields", [])
                if adt.endswith("ops::range::Range") and len(ops) == 2:
                    return ("range", "Range", ops[0], ops[1])
                if adt.endswith("RangeFrom"):
                    return ("range", "RangeFrom", ops[0], None)
                if adt.endswith("RangeTo"):
                    return ("range", "RangeTo", None, ops[0])
                if adt.endswith("RangeToInclusive"):
                    return ("range", "RangeToInclusive", None, ops[0])
                if adt.endswith("RangeFull"):
                    return ("range", "RangeFull", None, None)
                if rv.get("variant") in ("Some", "Ok") and len(ops) == 1:
                    return ("opt", "some", ops[0])
            if rv["ak"] == "Array":
                if ops and all(o and o[0] == "int" and o[1] is not None and o[1].is_const() for o in ops):
                    # `[7, 14, 21]`: a table of constants; iterating it yields a value between the smallest and the largest
                    return ("array", len(ops), min(o[1].c for o in ops), max(o[1].c for o in ops))
                return ("array", len(ops))
            if rv["ak"] == "Closure" and rv.get("closure") and norm(rv["closure"]) in self.prog.direct_closures:
                # a closure value is the tuple of what it captures
                return ("tuple", ops)
            return None
        if k == "Repeat":
            return ("array", rv.get("n"))
        if k == "Discriminant":
            # the result of a guard helper (see ok_facts): discriminant 0 (Ok / Continue) implies its facts
            pv = st.val.get(self.resolve(st, rv["place"]))
            if pv and pv[0] == "opt" and pv[1] == "guard":
                return ("bool", ("not", ("implies", ("and", pv[2]))))
            return None
        return None

    # ---------------------------------------------------------------- calls
    def slice_arg(self, st, v, cls_hint="[u8]"):
        if v is None:
            return None
        if v[0] == "slice":
            return v[1]
        if v[0] == "ref":
            return self.slice_sid_of_loc(st, v[1], cls_hint)
        return None

    def arg_local_ty(self, op):
        p = op.get("copy") or op.get("move")
        if p and not p.get("p"):
            return self.locals[p["l"]]["ty"]
        return ""

    def call(self, st, t, bi):
        name = norm(t.get("resolved") or t.get("callee")) or ""
        decl = norm(t.get("callee")) or ""
        tag = "%d_T" % bi
        args = [self.read_operand(st, a, tag + "a%d" % i) for i, a in enumerate(t["args"])]
        dest = t["dest"]
        dcls = self.place_class(dest)
        dty = self.locals[dest["l"]]["ty"] if not dest.get("p") else ""
        span = t["span"]
        res = UNK
        handled = True
        last = name.rsplit("::", 1)[-1]

        def arg_int(i):
            return args[i] if i < len(args) and args[i] and args[i][0] == "int" else None

        # ---- explicit panics
        if name.startswith("core::panicking::") or name.startswith("std::rt::begin_panic") or name.startswith("core::option::expect_failed") or name.startswith("core::result::unwrap_failed"):
            mac = (t.get("cspan") or {}).get("omac") or (t.get("cspan") or {}).get("mac") or last
            if str(mac).startswith("debug_assert") and not os.environ.get("C06_DEBUG_ASSERT_SITES"):
                # a debug-only assertion: compiled out of release builds, and the invariants such assertions state (a
                # prefix of a string, "split yields at least one part", min <= max of a running pair) are beyond this
                # engine; counted, not reported (DESIGN.md section 19g)
                self.prog.debug_asserts = getattr(self.prog, "debug_asserts", 0) + (1 if self.collect else 0)
                self.assign(st, dest, None)
                return
            self.add_site((bi, "T"), "R-PANIC", "panic", t.get("cspan") or span, False, "explicit panic (`%s!`) is reachable" % mac, "panic %s" % mac, True)
            self.assign(st, dest, None)
            return
        # ---- lengths
        if last == "len" and len(args) == 1 and not dest.get("p"):
            self.len_locals.add(dest["l"])
        if last in ("len",) and len(args) == 1 and (_c(name, "slice") or _c(name, "vec::Vec") or _c(name, "impl str") or _c(name, "String") or _c(name, "array")):
            sid = self.slice_arg(st, args[0])
            res = self.len_val(st, sid) if sid else ("int", None, 0, INF, False, frozenset())
        elif last == "len" and len(args) == 1 and (_c(name, "BTreeMap") or _c(name, "HashMap") or _c(name, "VecDeque") or _c(name, "BTreeSet") or _c(name, "HashSet")):
            # the number of entries of a collection in memory: bounded by what was already allocated for it
            res = ("int", None, 0, INF, False, frozenset())
        elif last == "is_empty" and len(args) == 1 and (_c(name, "slice") or _c(name, "vec::Vec") or _c(name, "impl str") or _c(name, "String")):
            sid = self.slice_arg(st, args[0])
            res = ("bool", ("Eq", self.len_val(st, sid), V_const(0))) if sid else None
        elif last in ("starts_with", "ends_with") and _c(name, "impl str") and len(args) == 2 and "const" in t["args"][1] and "str" in t["args"][1]["const"]:
            sid = self.slice_arg(st, args[0])
            n_ = len(t["args"][1]["const"]["str"].encode())
            res = ("bool", ("implies", ("Ge", self.len_val(st, sid), V_const(n_)))) if sid else None
        # ---- deref of containers to slices
        elif last in ("deref", "deref_mut", "as_slice", "as_mut_slice", "as_bytes", "as_ref", "borrow", "as_str", "as_mut") and len(args) == 1 and args[0] and args[0][0] in ("slice", "ref") and (is_u8_seq(dcls) or dcls in ("&str", "&[u8]") or (dcls.startswith("&[") and last in ("deref", "deref_mut", "as_slice", "as_mut_slice") and not os.environ.get("C06_NO_LENONLY"))):
            sid = self.slice_arg(st, args[0])
            res = ("slice", sid) if sid else None
        # ---- indexing
        elif last in ("index", "index_mut") and len(args) == 2 and _c(decl, "ops::index::Index"):
            res = self.index_call(st, t, bi, name, args, dcls, span)
        elif last in ("split_at", "split_at_mut") and len(args) == 2 and _c(name, "slice"):
            sid = self.slice_arg(st, args[0])
            mid = arg_int(1)
            if sid is not None:
                self.check_need(st, (bi, "T"), "split_at", span, sid, mid if mid else ("int", None, 0, INF, True, frozenset()), False)
                lenl = self.len_val(st, sid)
                a = self.new_slice(st, tag + "l", sid, mid[2] if mid else 0, frozenset(), mid[1] if mid else None)
                ex = lenl[1].add(mid[1], -1) if (mid and mid[1] is not None) else None
                b = self.new_slice(st, tag + "r", sid, st.sl[sid][0] - (mid[3] if mid and mid[3] < INF else INF) if mid else 0, frozenset(), ex)
                res = ("tuple", [("slice", a), ("slice", b)])
        elif last in ("copy_from_slice", "clone_from_slice") and len(args) == 2:
            a, b = self.slice_arg(st, args[0]), self.slice_arg(st, args[1])
            ok = False
            if a and b:
                ea, eb = st.sl[a][2], st.sl[b][2]
                ok = ea is not None and eb is not None and self.expand(st, ea) == self.expand(st, eb)
            self.add_site((bi, "T"), "R-INDEX", last, span, ok, "source and destination must have equal length; known: %s ; %s" % (self.facts_txt(st, a) if a else "?", self.facts_txt(st, b) if b else "?"),
                          "%s %s <- %s" % (last, self.origin(st, a) if a else "?", self.origin(st, b) if b else "?"))
            res = None
        # ---- min / max / saturating / checked
        elif last in ("min",) and len(args) == 2 and (_c(name, "cmp")):
            a, b = arg_int(0), arg_int(1)
            if a and b:
                ub = a[5] | b[5]
                for x in (a, b):
                    if x[1] is not None and len(x[1].t) == 1 and x[1].c == 0 and x[1].t[0][1] == 1 and x[1].t[0][0].startswith("L"):
                        ub = ub | {(x[1].t[0][0][1:], 1, 0)}
                lin = a[1] if a[1] is not None and a[1] == b[1] else None
                res = ("int", lin, min(a[2], b[2]), min(a[3], b[3]), a[4] or b[4], frozenset(ub))
                # remember  res <= a and res <= b symbolically through a fresh atom
                at = self.fresh(tag, dcls if dcls in INT_BOUNDS else "u64", a[4] or b[4], "min(%s,%s)" % (self.val_desc(st, a), self.val_desc(st, b)))
                self.atom_meta[at]["lo"], self.atom_meta[at]["hi"] = min(a[2], b[2]), min(a[3], b[3])
                res = ("int", Lin.atom(at), min(a[2], b[2]), min(a[3], b[3]), a[4] or b[4], frozenset(ub))
                for x in (a, b):
                    if x[1] is not None and len(st.rel) < 16:
                        st.rel = st.rel | {(Lin.atom(at), x[1])}
            else:
                res = self.unknown_int(tag, dcls, True)
        elif last in ("max",) and len(args) == 2 and _c(name, "cmp"):
            a, b = arg_int(0), arg_int(1)
            res = ("int", None, max(a[2], b[2]), max(a[3], b[3]), a[4] or b[4], frozenset()) if a and b else self.unknown_int(tag, dcls, True)
        elif last.startswith("saturating_") and _c(name, "core::num"):
            a, b = arg_int(0), arg_int(1)
            lo, hi = INT_BOUNDS.get(dcls, (-INF, INF))
            if a and b and last == "saturating_sub":
                res = ("int", None, max(lo, a[2] - b[3]) if b[3] < INF else lo, a[3], a[4] or b[4], a[5])
            elif a and b and last == "saturating_mul":
                res = ("int", None, lo, hi, a[4] or b[4], frozenset())
            else:
                res = ("int", None, lo, hi, True, frozenset())
        elif last.startswith("checked_") and _c(name, "core::num"):
            a, b = arg_int(0), arg_int(1)
            inner = None
            if a and b:
                op = {"checked_sub": "Sub", "checked_add": "Add", "checked_mul": "Mul", "checked_div": "Div"}.get(last)
                if op:
                    cls = _re.search(r"impl (\w+)>", name)
                    inner = self.binop(st, op + "WithOverflow", a, b, cls.group(1) if cls else "u64", tag)
            res = ("opt", "some", inner)
        elif last.startswith("wrapping_") and _c(name, "core::num"):
            lo, hi = INT_BOUNDS.get(dcls, (-INF, INF))
            res = ("int", None, lo, hi, True, frozenset())
        elif last in ("from_le_bytes", "from_be_bytes", "from_ne_bytes") and _c(name, "core::num"):
            res = self.unknown_int(tag, dcls, True)
        elif last in ("from", "into") and dcls in INT_BOUNDS and len(args) == 1 and arg_int(0):
            v = arg_int(0)
            lo, hi = INT_BOUNDS[dcls]
            res = v if (v[2] >= lo and v[3] <= hi) else ("int", None, lo, hi, v[4], frozenset())
        elif last in ("try_into", "try_from") and len(args) == 1:
            v = args[0]
            m = _ARR_IN_TY.search(dty or "")
            if v and v[0] in ("slice", "ref") and not m and self.const_generic() and _re.search(r"\[u8; [A-Z]\w*\]", dty or ""):
                sid = self.slice_arg(st, v)
                ex_ = st.sl.get(sid, (0, frozenset(), None))[2] if sid else None
                exx_ = self.expand(st, ex_) if ex_ is not None else None
                res = ("opt", "write_string", None) if (exx_ is not None and exx_ == Lin.atom("GN")) else ("opt", "some", None)
            elif v and v[0] in ("slice", "ref") and m:
                sid = self.slice_arg(st, v)
                res = ("opt", "try_into_slice", ("slice", sid), int(m.group(1)))
            elif v and v[0] == "int":
                res = ("opt", "try_into_int", v, dty)
            else:
                res = ("opt", "some", None)
        elif last in ("unwrap", "expect", "unwrap_unchecked") and (_c(name, "core::result::Result") or _c(name, "core::option::Option")):
            v = args[0]
            ok, why = False, "value may be None/Err"
            out = None
            if v and v[0] == "opt":
                if v[1] == "try_into_slice":
                    sid = v[2][1]
                    ex = st.sl.get(sid, (0, frozenset(), None))[2]
                    exx = self.expand(st, ex) if ex is not None else None
                    ok = exx is not None and exx.is_const() and exx.c == v[3]
                    why = "slice -> [u8; %d] conversion needs exact length %d; known: %s" % (v[3], v[3], self.facts_txt(st, sid))
                    out = ("array", v[3])
                elif v[1] == "try_into_int":
                    src = v[2]
                    tcls = _int_class_in(v[3])
                    if tcls:
                        lo, hi = INT_BOUNDS[tcls]
                        ok = src[2] >= lo and src[3] <= hi
                        why = "integer conversion to %s needs the value in range; value in [%s, %s]" % (tcls, src[2], src[3])
                        out = src if ok else ("int", None, lo, hi, src[4], frozenset())
                elif v[1] == "write_string":
                    ok, why = True, "fmt::Write for String never fails"
                elif v[1] == "guard":
                    out = None      # the result of a summarised helper: its payload is unknown
                else:
                    out = v[2]
            sig = "%s on %s" % (last, (v[1] if v and v[0] == "opt" else "unknown"))
            self.add_site((bi, "T"), "R-PANIC", last, span, ok, why, sig, True)
            res = out
        elif last == "filter" and _c(name, "option::Option") and len(args) == 2 and (args[0] is None or (args[0][0] == "opt" and args[0][1] == "some")):
            # `opt.filter(|n| *n <= CAP)`: what is left satisfies the predicate
            pb = self.prog.pred_bound(_re.sub(r"^&(mut )?", "", self.arg_local_ty(t["args"][1])))
            v0 = args[0][2] if args[0] else None
            if pb is not None and v0 and v0[0] == "int":
                v0 = self.refresh(st, v0)
                res = ("opt", "some", ("int", None, v0[2], min(v0[3], pb), v0[4], frozenset()))
            elif pb is not None and v0 is None:
                mo_ = _re.search(r"Option<(u8|u16|u32|u64|usize)>", dty or "")
                m_ = {"usize": "u64"}.get(mo_.group(1), mo_.group(1)) if mo_ else None
                if m_:
                    lo_, hi_ = INT_BOUNDS[m_]
                    res = ("opt", "some", ("int", None, lo_, min(hi_, pb), True, frozenset()))
                else:
                    res = args[0]
            else:
                res = args[0]
            handled = res is not None
        elif last == "unwrap_or" and (_c(name, "option::Option") or _c(name, "result::Result")) and len(args) == 2 and args[0] and args[0][0] == "opt" and args[0][1] == "some" \
                and args[0][2] and args[0][2][0] == "int" and args[1] and args[1][0] == "int":
            a_, d_ = self.refresh(st, args[0][2]), self.refresh(st, args[1])
            res = ("int", None, min(a_[2], d_[2]), max(a_[3], d_[3]), a_[4] or d_[4], frozenset())
        elif last == "branch" and _c(decl, "ops::try_trait::Try"):
            res = args[0] if args and args[0] and args[0][0] == "opt" else None
        elif last == "map_err" and args and args[0] and args[0][0] == "opt" and args[0][1] == "guard":
            res = args[0]
        elif last in ("map_err", "ok", "or", "or_else", "ok_or", "ok_or_else", "map") and args and args[0] and args[0][0] == "opt" and last in ("map_err", "ok", "ok_or", "ok_or_else"):
            res = ("opt", "some", args[0][2] if args[0][1] == "some" else None)
        elif last == "write_fmt" and _c(name, "String"):
            res = ("opt", "write_string", None)
        elif last == "write_fmt" and args and self.arg_local_ty(t["args"][0]).replace("&mut ", "").startswith("alloc::string::String"):
            res = ("opt", "write_string", None)
        # ---- iteration over ranges
        elif last == "into_iter" and len(args) == 1 and args[0] and args[0][0] in ("range", "iter"):
            res = args[0]
        elif last == "into_iter" and len(args) == 1 and args[0] and args[0][0] == "array" and len(args[0]) == 4:
            res = ("iter", "consts", args[0][2], args[0][3])
        elif last == "next" and len(args) == 1 and args[0] and args[0][0] == "ref" and (st.val.get(args[0][1]) or (None,))[:2] == ("iter", "consts"):
            it_ = st.val[args[0][1]]
            at = self.fresh(tag, dcls if dcls in INT_BOUNDS else "u64", False, "iter(consts)")
            self.atom_meta[at]["lo"], self.atom_meta[at]["hi"] = it_[2], it_[3]
            res = ("opt", "some", ("int", Lin.atom(at), it_[2], it_[3], False, frozenset()))
        elif last == "next" and len(args) == 1 and args[0] and args[0][0] == "ref" and (st.val.get(args[0][1]) or (None,))[0] == "range":
            r = st.val[args[0][1]]
            s, e = r[2], r[3]
            if self.collect:
                ee = self.refresh(st, e) if e and e[0] == "int" else None
                self.range_loops[bi] = (ee, span, self.val_desc(st, ee) if ee else "unk")
            if s and e and s[0] == "int" and e[0] == "int":
                hi = e[3] - (0 if r[1] == "RangeInclusive" else 1)
                item = ("int", None, s[2], hi, s[4] or e[4], frozenset())
                at = self.fresh(tag, dcls if dcls in INT_BOUNDS else "u64", s[4] or e[4], "iter(%s)" % self.val_desc(st, e))
                self.atom_meta[at]["lo"], self.atom_meta[at]["hi"] = s[2], hi
                item = ("int", Lin.atom(at), s[2], hi, s[4] or e[4], frozenset())
                if e[1] is not None and len(st.rel) < 16:
                    st.rel = st.rel | {(Lin.atom(at).add(Lin(0 if r[1] == "RangeInclusive" else 1)), e[1])}
                res = ("opt", "some", item)
            else:
                res = ("opt", "some", None)
        elif last == "new" and _c(name, "RangeInclusive") and len(args) == 2:
            res = ("range", "RangeInclusive", args[0], args[1])
        elif last in ("chunks", "chunks_exact", "windows") and _c(name, "slice"):
            res = None
        # ---- allocation
        elif (last == "with_capacity" and (_c(name, "vec::Vec") or _c(name, "String") or _c(name, "HashMap") or _c(name, "BTreeMap") or _c(name, "VecDeque"))) or \
             (last in ("reserve", "reserve_exact", "resize", "try_reserve") and (_c(name, "vec::Vec") or _c(name, "String"))) or (last == "from_elem" and _c(name, "vec")):
            n = args[0] if last == "with_capacity" else (args[1] if len(args) > 1 else None)
            self.alloc_site(st, bi, last, span, n)
            if last == "from_elem":
                nn = n if n and n[0] == "int" else None
                sid = self.new_slice(st, tag, None, nn[2] if nn else 0, frozenset(), nn[1] if nn else None, "vec")
                res = ("slice", sid) if dcls == "adt:alloc::vec::Vec<u8>" else None
            if last in ("resize",):
                a0 = args[0]
                if a0 and a0[0] == "ref":
                    self.havoc(st, a0[1])
                    sid = self.slice_sid_of_loc(st, a0[1], "adt:alloc::vec::Vec<u8>")
                    if n and n[0] == "int":
                        st.sl[sid] = (max(0, n[2]) if n[2] > -INF else 0, frozenset(), n[1])
        else:
            handled = False

        if self.collect and decl.startswith("core::iter::traits::iterator::Iterator::") and len(t["args"]) == 2 and self.prog.adaptor_closures:
            cty_ = _re.sub(r"^&(mut )?", "", self.arg_local_ty(t["args"][1]))
            cn_ = self.prog.adaptor_closures.get(cty_)
            if cn_:
                rg_ = args[0]
                if rg_ and rg_[0] == "ref":
                    rg_ = st.val.get(rg_[1])
                lo_, hi_ = -INF, INF
                if rg_ and rg_[0] == "range" and rg_[1] == "Range" and rg_[2] and rg_[3] and rg_[2][0] == "int" and rg_[3][0] == "int":
                    s_, e_ = self.refresh(st, rg_[2]), self.refresh(st, rg_[3])
                    lo_, hi_ = s_[2], (e_[3] - 1 if e_[3] < INF else INF)
                obs = self.prog.arg_obs.setdefault(cn_, {})
                cur_ = obs.get(2)
                obs[2] = (lo_, hi_) if cur_ is None else (min(cur_[0], lo_), max(cur_[1], hi_))
        if not handled and name in self.prog.direct_closures and decl.startswith("core::ops::function::Fn"):
            # `f(a, b)` on a local closure: Fn::call(&f, (a, b)).  Re-index the arguments the way the closure body
            # numbers its locals (_1 the captures, _2.. the parameters); the captures are pseudo-parameters 100+k
            env = args[0] if args else None
            if env and env[0] == "ref":
                env = st.val.get(env[1])
            tup = args[1] if len(args) > 1 else None
            n_par = self.prog.runs[name].nargs - 1
            elems = list(tup[1]) if (tup and tup[0] == "tuple" and len(tup[1]) == n_par) else [None] * n_par
            args = [None] + elems
            clo_caps = list(env[1]) if (env and env[0] == "tuple") else []
        else:
            clo_caps = None
        if not handled:
            callee_fn = self.prog.runs.get(name)
            if self.collect and name in self.prog.eligible:
                obs = self.prog.arg_obs.setdefault(name, {})
                for i_, a_ in enumerate(args):
                    if a_ and a_[0] == "int":
                        a_ = self.refresh(st, a_)
                        lo_, hi_ = a_[2], a_[3]
                    else:
                        lo_, hi_ = -INF, INF
                    cur_ = obs.get(i_ + 1)
                    obs[i_ + 1] = (lo_, hi_) if cur_ is None else (min(cur_[0], lo_), max(cur_[1], hi_))
                # relations between the arguments that hold at this call site (`start <= res.len()`)
                rel_ = set()
                ints_ = [(i_, self.refresh(st, a_)) for i_, a_ in enumerate(args) if a_ and a_[0] == "int"]
                for i_, vi_ in ints_:
                    for j_, vj_ in ints_:
                        if i_ != j_ and self.prove_le(st, vi_, vj_):
                            rel_.add(("le", i_ + 1, j_ + 1))
                for s_i, a_ in enumerate(args):
                    if not a_ or a_[0] not in ("slice", "ref"):
                        continue
                    sid_ = self.slice_arg(st, a_)
                    if not sid_:
                        continue
                    lv_ = self.len_val(st, sid_)
                    for j_, vj_ in ints_:
                        if self.prove_le(st, vj_, lv_):
                            rel_.add(("len_ge", s_i + 1, j_ + 1))
                cur_rel = self.prog.arg_rel_obs.get(name)
                self.prog.arg_rel_obs[name] = rel_ if cur_rel is None else (cur_rel & rel_)
                # lengths of byte buffers stored in fields behind a reference argument (`self.stream` has >= 4 bytes)
                fl_ = {}
                for i_, a_ in enumerate(args):
                    if a_ and a_[0] == "ref":
                        pre_ = "F:" + a_[1]
                        for sid_, v_ in st.sl.items():
                            if sid_.startswith(pre_ + ".") and v_[0] > 0:
                                fl_[(i_ + 1, sid_[len(pre_):])] = v_[0]
                cur_fl = self.prog.arg_field_obs.get(name)
                self.prog.arg_field_obs[name] = fl_ if cur_fl is None else {k_: min(v_, cur_fl[k_]) for k_, v_ in fl_.items() if k_ in cur_fl}
            if callee_fn is not None and callee_fn is not self:
                # constant length requirements of the helper
                for (pi, k) in sorted(self.prog.requires.get(name, {}).items()):
                    if k == "GN":
                        mk = _ARR_IN_TY.search(dty or "")
                        if not mk:
                            continue
                        k = int(mk.group(1))
                    if clo_caps is not None and pi >= 100:
                        av_ = clo_caps[pi - 100] if pi - 100 < len(clo_caps) else None
                    else:
                        av_ = args[pi - 1] if pi - 1 < len(args) else None
                    if pi - 1 < len(args) or (clo_caps is not None and pi >= 100):
                        sid = self.slice_arg(st, av_)
                        if sid is None:
                            self.add_site((bi, "T", pi), "R-INDEX", "call", span, False, "%s needs at least %d bytes in argument %d; the argument is not a tracked buffer" % (name, k, pi), "call %s needs %d of unknown" % (name, k))
                        else:
                            self.check_need(st, (bi, "T", pi), "call %s needs" % name.rsplit("::", 1)[-1], span, sid, V_const(k), False)
            # xlsb record payload: the buffer holds at least the returned number of bytes
            res = self.default_result(st, tag, dcls, dty, name, args)
            ens = self.prog.ensures.get(name) if callee_fn is not None and callee_fn is not self else None
            if last in ("fill_buffer", "next_skip_blocks") and _c(name, "xlsb::RecordIter"):
                bufv = args[-1]
                at = self.fresh(tag + "n", "u64", True, "src28")
                self.atom_meta[at]["lo"], self.atom_meta[at]["hi"] = 0, 2 ** 28
                res = ("opt", "some", self.int_of_atom(at))
            # havoc everything reachable through &mut arguments
            for i, a in enumerate(t["args"]):
                aty = self.arg_local_ty(a)
                v = args[i]
                if aty.startswith("&mut ") or aty.startswith("*mut "):
                    if v and v[0] == "ref":
                        self.havoc(st, v[1])
                    elif v and v[0] == "slice":
                        pass
                    p = a.get("copy") or a.get("move")
                    if p is not None:
                        self.havoc(st, self.resolve(st, {"l": p["l"], "p": (p.get("p") or []) + ["*"]}))
            if last in ("fill_buffer", "next_skip_blocks") and _c(name, "xlsb::RecordIter"):
                bufv = args[-1]
                if bufv and bufv[0] == "ref":
                    sid = self.slice_sid_of_loc(st, bufv[1], "adt:alloc::vec::Vec<u8>")
                    st.sl[sid] = (0, frozenset([Lin.atom(at)]), None)
            if ens and (res is None or dcls == "bool"):
                # what the callee guarantees on its Ok / true result, stated about the caller's state *after* the call
                g = self.guard_value(st, ens, args, as_bool=(dcls == "bool"))
                if g is not None:
                    res = g
        self.assign(st, dest, res)

    def default_result(self, st, tag, dcls, dty, name, args):
        if dcls in INT_BOUNDS and dcls != "bool":
            v = self.unknown_int(tag, dcls, True)
            # return-interval summary of a crate function (e.g. utils::read_usize returns a widened u32)
            rr = self.prog.ret_ranges.get(name)
            if rr and v:
                lo, hi = max(rr[0], v[2]), min(rr[1], v[3])
                if lo <= hi and (lo, hi) != (v[2], v[3]):
                    a = list(v[1].atoms())[0]
                    m = self.atom_meta[a]
                    m["lo"], m["hi"] = lo, hi
                    if lo >= 0 and hi < 2 ** 63:
                        m["desc"] = "src%d" % max(8, 1 << (max(hi, 1).bit_length() - 1).bit_length()) if m["taint"] else m["desc"]
                    v = self.int_of_atom(a)
            return v
        if is_u8_seq(dcls) and dcls.startswith("&"):
            sid = self.new_slice(st, tag, None, 0, frozenset(), None, "ret(%s)" % name.rsplit("::", 1)[-1])
            return ("slice", sid)
        return None

    def alloc_site(self, st, bi, op, span, n):
        if n is None or n[0] != "int":
            self.add_site((bi, "T", "alloc"), "R-ALLOC", op, span, False, "size operand of unknown origin", "%s unk" % op, True)
            return
        n = self.refresh(st, n)
        if not n[4]:
            self.add_site((bi, "T", "alloc"), "R-ALLOC", op, span, True, "size is not file-derived", "%s %s" % (op, self.val_desc(st, n)), False)
            return
        ok = n[3] <= (1 << 24)
        why = "file-derived size in [%s, %s]" % (n[2], n[3])
        if not ok and n[5]:
            ok, why = True, "size is bounded by the length of an input buffer"
        if not ok and n[1] is not None and n[1].t and all(k > 0 and k <= 8 for _, k in n[1].t):
            # every atom is a buffer length or bounded by one through a recorded relation
            def bounded(a):
                if a.startswith("L"):
                    return True
                return any(x == Lin.atom(a) and y.t and all(at.startswith("L") for at in y.atoms()) for (x, y) in st.rel)
            if all(bounded(a) for a in n[1].atoms()):
                ok, why = True, "size is a small multiple of input buffer lengths (%r)" % n[1]
        self.add_site((bi, "T", "alloc"), "R-ALLOC", op, span, ok, why + " (cap 2^24 elements)", "%s %s" % (op, self.val_desc(st, n)), True)

    def index_call(self, st, t, bi, name, args, dcls, span):
        base, idx = args[0], args[1]
        tag = "%d_T" % bi
        base_ty = self.arg_local_ty(t["args"][0])
        is_map = "BTreeMap" in name or "HashMap" in name
        if is_map:
            self.add_site((bi, "T"), "R-INDEX", "map-index", span, False, "indexing a map panics when the key is absent", "map-index of %s" % self.loc_desc(base[1]) if base and base[0] == "ref" else "map-index", True)
            return None
        sid = self.slice_arg(st, base)
        bytes_base = _c(name, "for str") or "u8" in base_ty or "str" in base_ty or "String" in base_ty
        if sid is None or sid in getattr(self, "lenonly", ()):
            return None
        bdesc = self.origin(st, sid)
        lenv = self.len_val(st, sid)
        cur = st.sl.get(sid, (0, frozenset(), None))
        if idx and idx[0] == "range":
            kind_, s, e = idx[1], idx[2], idx[3]
            s = self.refresh(st, s) if s else None
            e = self.refresh(st, e) if e else None
            unk = ("int", None, 0, INF, True, frozenset())
            if kind_ == "RangeFrom":
                s = s or unk
                if not (s[4] or bytes_base):
                    return self.sub_slice(st, tag, sid, s, None)
                self.check_need(st, (bi, "T"), "[a..]", span, sid, s, False, bdesc)
                return self.sub_slice(st, tag, sid, s, None)
            if kind_ in ("RangeTo", "RangeToInclusive"):
                e = e or unk
                if kind_ == "RangeToInclusive":
                    e = self.binop(st, "Add", e, V_const(1), "u64", tag)
                if e[4] or bytes_base:
                    self.check_need(st, (bi, "T"), "[..b]", span, sid, e, False, bdesc)
                return self.sub_slice(st, tag, sid, None, e)
            if kind_ in ("Range", "RangeInclusive"):
                s, e = s or unk, e or unk
                if kind_ == "RangeInclusive":
                    e = self.binop(st, "Add", e, V_const(1), "u64", tag)
                if s[4] or e[4] or bytes_base:
                    ordered = self.prove_le(st, s, e, False)
                    ok = self.check_need(st, (bi, "T"), "[a..b]", span, sid, e, False, bdesc, extra_ok=ordered)
                    if not ordered and self.collect and (bi, "T") in self.sites:
                        self.sites[(bi, "T")].detail += "; start <= end not established (start %s, end %s)" % (self.val_desc(st, s), self.val_desc(st, e))
                        self.sites[(bi, "T")].sig = "[a..b] %s..%s of %s" % (self.val_desc(st, s), self.val_desc(st, e), bdesc)
                return self.sub_slice(st, tag, sid, s, e)
            return ("slice", self.new_slice(st, tag, sid))
        if idx and idx[0] == "int":
            i = self.refresh(st, idx)
            if i[4] or bytes_base:
                self.check_need(st, (bi, "T"), "index", span, sid, i, True, bdesc)
            if "u8" in base_ty and dcls in ("&u8", "u8"):
                return None
            return None
        # unknown index kind
        return None

    def sub_slice(self, st, tag, sid, s, e):
        cur = st.sl.get(sid, (0, frozenset(), None))
        lenv = self.len_val(st, sid)
        if e is None:
            # [s..]
            minc = cur[0] - s[3] if s[3] < INF else 0
            ex = lenv[1].add(s[1], -1) if s[1] is not None else None
            return ("slice", self.new_slice(st, tag, sid, minc, frozenset(), ex))
        if s is None:
            return ("slice", self.new_slice(st, tag, sid, e[2] if e[2] > -INF else 0, frozenset(), e[1]))
        ex = e[1].add(s[1], -1) if (e[1] is not None and s[1] is not None) else None
        minc = e[2] - s[3] if (s[3] < INF and e[2] > -INF) else 0
        return ("slice", self.new_slice(st, tag, sid, minc, frozenset(), ex))

    # ---------------------------------------------------------------- blocks
    def exec_block(self, st, bi):
        b = self.blocks[bi]
        for si, s in enumerate(b["stmts"]):
            if s["k"] != "Assign":
                continue
            tag = "%d_%d" % (bi, si)
            dcls = self.place_class(s["place"])
            v = self.rvalue(st, s["rv"], tag, dcls)
            self.assign(st, s["place"], v)
            if self.collect and s["place"]["l"] == 0:
                self.note_return_value(st, s["rv"], bool(s["place"].get("p")))
        t = b["term"]
        if not t:
            return []
        k = t["k"]
        if k == "Goto":
            return [(t["t"], st)]
        if k == "Drop":
            return [(t["t"], st)]
        if k == "Return" and self.collect:
            rv = st.val.get("_0")
            if rv and rv[0] == "int":
                rv = self.refresh(st, rv)
                lo, hi = rv[2], rv[3]
            else:
                lo, hi = -INF, INF
            cur = getattr(self, "ret_range", None)
            self.ret_range = (lo, hi) if cur is None else (min(cur[0], lo), max(cur[1], hi))
        if k in ("Return", "Unreachable", "Resume", "Terminate", "TailCall"):
            return []
        if k == "SwitchInt":
            d = self.read_operand(st, t["discr"], "%d_S" % bi)
            if self.collect:
                dp = t["discr"].get("copy") or t["discr"].get("move")
                for s_ in b["stmts"]:
                    if dp is not None and s_.get("k") == "Assign" and s_["place"]["l"] == dp["l"] and not s_["place"].get("p") and s_["rv"].get("k") == "BinaryOp" and s_["rv"]["op"] in ("Lt", "Le", "Gt", "Ge"):
                        pa = s_["rv"]["a"].get("copy") or s_["rv"]["a"].get("move")
                        pb = s_["rv"]["b"].get("copy") or s_["rv"]["b"].get("move")
                        la = pa is not None and not pa.get("p") and pa["l"] in self.len_locals
                        lb = pb is not None and not pb.get("p") and pb["l"] in self.len_locals
                        if la != lb:
                            other = self.read_operand(st, s_["rv"]["b"] if la else s_["rv"]["a"], "%d_SL" % bi)
                            op = s_["rv"]["op"]
                            # normalise to  len OP other
                            if lb:
                                op = {"Lt": "Gt", "Le": "Ge", "Gt": "Lt", "Ge": "Le"}[op]
                            zero_tgt = [tg for v_, tg in zip(t["vals"], t["tgts"]) if v_ == 0]
                            self.len_loops[bi] = (op, self.refresh(st, other) if other else None, t.get("span") or s_.get("span") or {}, zero_tgt[0] if zero_tgt else None, t["otherwise"], self.val_desc(st, other) if other else "unk")
            outs = []
            seen_vals = []
            dlo, dhi = (-INF, INF)
            if d and d[0] == "int":
                dd = self.refresh(st, d)
                dlo, dhi = dd[2], dd[3]
            for v, tgt in zip(t["vals"], t["tgts"]):
                seen_vals.append(v)
                if v < dlo or v > dhi:
                    continue      # infeasible edge
                s2 = st.copy()
                self.refine_switch(s2, d, v, True, t.get("dty"))
                outs.append((tgt, s2))
            if d and d[0] == "int" and dhi - dlo < 4096 and all(x in seen_vals for x in range(int(dlo), int(dhi) + 1)):
                return outs       # every possible value has its own edge: `otherwise` is infeasible
            s2 = st.copy()
            if d and d[0] == "int" and d[1] is not None and len(d[1].t) == 1 and d[1].t[0][1] == 1 and seen_vals:
                # otherwise-edge: values listed are excluded; tighten when they sit at the ends of the interval
                a_ = d[1].t[0][0]
                lo_, hi_ = dlo, dhi
                vs = set(x - d[1].c for x in seen_vals)
                while lo_ in vs:
                    lo_ += 1
                while hi_ in vs:
                    hi_ -= 1
                if (lo_, hi_) != (dlo, dhi):
                    s2.ab[a_] = (lo_ - 0, hi_)
            if d and d[0] == "bool" and seen_vals == [0]:
                self.assume(s2, d[1], True)
            elif d and d[0] == "bool" and seen_vals == [1]:
                self.assume(s2, d[1], False)
            outs.append((t["otherwise"], s2))
            return outs
        if k == "Assert":
            m = t["msg"]
            mk = m["k"]
            if mk == "BoundsCheck":
                idx = self.read_operand(st, m["index"], "%d_Ai" % bi)
                ln = self.read_operand(st, m["len"], "%d_Al" % bi)
                ok = self.prove_le(st, idx, ln, True)
                sid = None
                if ln and ln[0] == "int" and ln[1] is not None and len(ln[1].t) == 1 and ln[1].t[0][0].startswith("L"):
                    sid = ln[1].t[0][0][1:]
                if sid in getattr(self, "lenonly", ()):
                    sid, ln = None, ("int", None, 0, INF, False, frozenset())     # as before length-only tracking existed
                idx_t = idx is None or idx[0] != "int" or idx[4]
                bytes_base = sid is not None and self.sid_is_bytes(st, sid)
                if idx_t or bytes_base:
                    req = None
                    if not ok and sid and sid.startswith("P") and idx and idx[0] == "int" and idx[1] is not None and idx[1].is_const():
                        req = (int(sid[1:]), idx[1].c + 1)
                    self.add_site((bi, "A"), "R-INDEX", "index", t["span"], ok,
                                  "needs %s < %s; known: %s" % (self.val_desc(st, idx), self.val_desc(st, ln), self.facts_txt(st, sid) if sid else "-"),
                                  "index %s of %s" % (self.val_desc(st, idx), self.origin(st, sid) if sid else ("array%s" % (ln[1].c if ln and ln[0] == "int" and ln[1] is not None and ln[1].is_const() else ""))), True, req)
            elif mk in ("Overflow", "OverflowNeg", "DivisionByZero", "RemainderByZero"):
                self.arith_site(st, bi, t)
            cond = self.read_operand(st, t["cond"], "%d_Ac" % bi)
            if cond and cond[0] == "bool":
                self.assume(st, cond[1], t["expected"])
            return [(t["t"], st)]
        if k == "Call":
            self.call(st, t, bi)
            if self.collect and t.get("dest") is not None and t["dest"]["l"] == 0:
                nm = norm(t.get("resolved") or t.get("callee")) or ""
                if not nm.endswith("::from_residual"):
                    self.ens_unknown = True
            return [(t["t"], st)] if t.get("t") is not None else []
        return []

    def sid_is_bytes(self, st, sid):
        return True

    def refine_switch(self, st, d, v, eq, dty):
        if d is None:
            return
        if d[0] == "bool":
            self.assume(st, d[1], v != 0)
            return
        if d[0] == "int" and d[1] is not None and len(d[1].t) == 1 and d[1].t[0][1] == 1:
            a = d[1].t[0][0]
            val = v - d[1].c
            st.ab[a] = (val, val)
            if a.startswith("L"):
                sid = a[1:]
                cur = st.sl.get(sid, (0, frozenset(), None))
                st.sl[sid] = (max(cur[0], val), cur[1], Lin(val))

    def arith_site(self, st, bi, t):
        m = t["msg"]
        mk = m["k"]
        a = self.read_operand(st, m["a"], "%d_Aa" % bi) if "a" in m else None
        b = self.read_operand(st, m["b"], "%d_Ab" % bi) if "b" in m else None
        pa = (m.get("a") or {}).get("copy") or (m.get("a") or {}).get("move")
        cls = self.place_class(pa) if pa else None
        if cls not in INT_BOUNDS:
            pb = (m.get("b") or {}).get("copy") or (m.get("b") or {}).get("move")
            cls = self.place_class(pb) if pb else cls
        if cls not in INT_BOUNDS:
            cls = "u64"
        tlo, thi = INT_BOUNDS[cls]
        taint = any(x is None or (x[0] == "int" and x[4]) for x in (a, b) if x is not None or True) if mk == "Overflow" else (a is None or (a[0] == "int" and a[4]))
        ok = False
        why = ""
        op = m.get("op", mk)
        if mk == "Overflow" and a and b and a[0] == "int" and b[0] == "int":
            if op == "Add":
                ok = a[3] + b[3] <= thi and a[2] + b[2] >= tlo
            elif op == "Sub":
                ok = (a[2] - b[3] >= tlo and a[3] - b[2] <= thi) or (tlo == 0 and self.prove_le(st, b, a))
            elif op == "Mul":
                ok = (a[3] * b[3] if not _inf0(a[3], b[3]) else 0) <= thi and min(a[2], b[2]) >= 0 if (a[2] >= 0 and b[2] >= 0) else False
            elif op in ("Shl", "Shr"):
                ok = b[2] >= 0 and b[3] < _bits(cls)
            elif op in ("Div", "Rem"):
                # signed MIN / -1
                ok = not (b[2] <= -1 <= b[3]) or a[2] > tlo
            why = "%s %s %s in %s; operands in [%s, %s] and [%s, %s]" % (self.val_desc(st, a), {"Add": "+", "Sub": "-", "Mul": "*", "Shl": "<<", "Shr": ">>"}.get(op, op), self.val_desc(st, b), cls, a[2], a[3], b[2], b[3])
            taint = a[4] or b[4]
        elif mk in ("DivisionByZero", "RemainderByZero"):
            cond = self.read_operand(st, t["cond"], "%d_Ad" % bi)
            d = None
            if cond and cond[0] == "bool" and cond[1][0] == "Eq":
                d = cond[1][1] if (cond[1][2] and cond[1][2][0] == "int" and cond[1][2][1] is not None and cond[1][2][1].is_const()) else cond[1][2]
            if d and d[0] == "int":
                d = self.refresh(st, d)
                ok = d[2] > 0 or d[3] < 0
                why = "divisor in [%s, %s]" % (d[2], d[3])
                taint = d[4]
                b = d
                a = None
            else:
                why = "divisor of unknown origin"
        elif mk == "OverflowNeg" and a and a[0] == "int":
            ok = a[2] > tlo
            taint = a[4]
            why = "negation of a value in [%s, %s]" % (a[2], a[3])
        else:
            why = "operands of unknown origin"
        sig = "%s %s %s %s" % (cls, self.val_desc(st, a), {"Add": "+", "Sub": "-", "Mul": "*", "Shl": "<<", "Shr": ">>", "DivisionByZero": "/0", "RemainderByZero": "%0", "OverflowNeg": "neg"}.get(op, op), self.val_desc(st, b) if b else "")
        self.add_site((bi, "A"), "R-ARITH", op, t["span"], ok, why, sig.strip(), bool(taint))

    # ---------------------------------------------------------------- fixpoint
    def initial_state(self):
        st = State()
        self.arg_names = {}
        self.lenonly = set()       # parameters that are slices of something else than bytes: length facts only, no sites
        for d in self.body.get("dbg", []):
            p = d["place"]
            if not p.get("p") and 1 <= p["l"] <= self.nargs:
                self.arg_names[p["l"]] = d["name"]
        for i in range(1, self.nargs + 1):
            c = self.lclass(i)
            if is_u8_seq(c) and not c.startswith("adt:") and not c.startswith("&adt:"):
                sid = "P%d" % i
                n = _array_len(c)
                st.sl[sid] = (n, frozenset(), Lin(n)) if n is not None else (0, frozenset(), None)
                st.val["_%d" % i] = ("slice", sid)
            elif (c.startswith("&[") or c.startswith("&adt:alloc::vec::Vec<")) and not is_u8_seq(c) and not os.environ.get("C06_NO_LENONLY"):
                # a slice / vector of something else than bytes: only its length is tracked (`stack.len() < argc` in a
                # guard helper, `start <= res.len()` as a relation between arguments)
                sid = "P%d" % i
                st.sl[sid] = (0, frozenset(), None)
                st.val["_%d" % i] = ("slice", sid)
                self.lenonly.add(sid)
            elif c in INT_BOUNDS and c != "bool":
                a = "m_%d" % i
                lo, hi = INT_BOUNDS[c]
                pr = self.prog.param_ranges.get(self.name, {}).get(i)
                if pr and not os.environ.get("C06_NO_PARAMRANGE"):
                    lo, hi = max(lo, pr[0]), min(hi, pr[1])
                    if lo > hi:
                        lo, hi = INT_BOUNDS[c]
                self.atom_meta[a] = {"lo": lo, "hi": hi, "taint": True, "desc": "param%d" % i}
                st.val["_%d" % i] = self.int_of_atom(a)
            elif c.startswith("&") and c[1:] in INT_BOUNDS and c[1:] != "bool" and self.name in self.prog.adaptor_closures.values():
                # the item of an integer range, handed to the closure by reference (`.find(|i| ..)`)
                pr = self.prog.param_ranges.get(self.name, {}).get(i)
                if pr and not os.environ.get("C06_NO_PARAMRANGE"):
                    lo, hi = INT_BOUNDS[c[1:]]
                    lo, hi = max(lo, pr[0]), min(hi, pr[1])
                    if lo <= hi:
                        a = "m_%d*" % i
                        self.atom_meta[a] = {"lo": lo, "hi": hi, "taint": True, "desc": "param%d" % i}
                        st.val["_%d*" % i] = self.int_of_atom(a)
        for k_, cc_ in enumerate(self.prog.direct_closures.get(self.name, ())):
            # byte slices the closure captures, by reference (`&&[u8]`) or by value
            inner_ = cc_[1:] if cc_.startswith("&&") else cc_
            if inner_ in ("&[u8]", "&mut [u8]") or (cc_.startswith("&&") and False):
                sid = "P%d" % (100 + k_)
                st.sl[sid] = (0, frozenset(), None)
                if cc_.startswith("&&"):
                    st.val["_1*.%d" % k_] = ("ref", "_cap%d" % k_)
                    st.val["_cap%d" % k_] = ("slice", sid)
                else:
                    st.val["_1*.%d" % k_] = ("slice", sid)
        if not os.environ.get("C06_NO_PARAMRANGE"):
            for (i_, suffix_), minc_ in sorted(self.prog.param_fields.get(self.name, {}).items()):
                st.sl["F:_%d*%s" % (i_, suffix_)] = (minc_, frozenset(), None)
            for f in sorted(self.prog.param_rel.get(self.name, ())):
                vi = st.val.get("_%d" % f[2])
                if not (vi and vi[0] == "int"):
                    continue
                if f[0] == "le":
                    vj = st.val.get("_%d" % f[1])
                    if vj and vj[0] == "int":
                        self.le(st, vj, vi, 0)
                elif f[0] == "len_ge":
                    pv = st.val.get("_%d" % f[1])
                    sid = self.slice_arg(st, pv) if pv else (self.slice_sid_of_loc(st, "_%d" % f[1], self.lclass(f[1])) if is_u8_seq(self.lclass(f[1])) else None)
                    if sid:
                        self.le(st, vi, self.len_val(st, sid), 0)
        return st

    def run(self):
        self.sid_origin = {}
        self.range_loops = {}
        self.len_locals = set()
        self.len_loops = {}
        self._dom = None
        n = len(self.blocks)
        init = self.initial_state()
        entry = {0: init}
        edge = {}            # (pred, succ) -> out state of pred along that edge
        preds = defaultdict(set)
        visits = defaultdict(int)
        work = [0]
        inq = {0}
        steps = 0
        while work and steps < 6000:
            steps += 1
            bi = work.pop(0)
            inq.discard(bi)
            st = entry[bi].copy()
            try:
                outs = self.exec_block(st, bi)
            except RecursionError:
                outs = []
            # several edges to the same successor (switch arms): join them
            per = {}
            for tgt, s2 in outs:
                if self.blocks[tgt].get("cleanup"):
                    continue
                per[tgt] = s2 if tgt not in per else join_state(per[tgt], s2)
            for tgt, s2 in per.items():
                edge[(bi, tgt)] = s2
                preds[tgt].add(bi)
                new = None
                for p_ in preds[tgt]:
                    e_ = edge[(p_, tgt)]
                    new = e_ if new is None else join_state(new, e_)
                if tgt == 0:
                    new = join_state(new, init)
                visits[tgt] += 1
                if tgt in entry and visits[tgt] > 8:
                    new = self.widen(entry[tgt], join_state(entry[tgt], new))
                changed = tgt not in entry or new.key() != entry[tgt].key()
                entry[tgt] = new
                if changed and tgt not in inq:
                    work.append(tgt)
                    inq.add(tgt)
        self.converged = not work
        # final pass: collect sites with the fixpoint states
        self.collect = True
        self.sites = {}
        self.int_casts = {}
        self.ret_range = None
        self.ok_points = []
        self.ens_unknown = False
        # parameters that are never written in the body keep the meaning of their entry atom
        written = set()
        for b_ in self.blocks:
            for s_ in b_["stmts"]:
                if s_.get("k") == "Assign" and not s_["place"].get("p"):
                    written.add(s_["place"]["l"])
            t_ = b_.get("term") or {}
            if t_.get("k") == "Call" and t_.get("dest") is not None and not t_["dest"].get("p"):
                written.add(t_["dest"]["l"])
        self.ens_params = [i for i in range(1, self.nargs + 1) if i not in written]
        for bi in sorted(entry):
            st = entry[bi].copy()
            try:
                self.exec_block(st, bi)
            except RecursionError:
                pass
        self.collect = False
        self.amp_sites()
        return self.sites

    # ---------------------------------------------------------------- guard helpers
    def _returns_bool(self):
        return (self.locals[0].get("ty") or "") == "bool"

    def note_return_value(self, st, rv, partial):
        """`_0 = Ok(..)` in a function returning Result -- or any `_0 = <not the constant false>` in a function returning
        bool: record what the state guarantees about the parameters at that point.  The meet over all such points is
        the function's *ensures* summary (`check_len(found, expected)?`, `need(buf, 6)?`, `if self.at_continue() {`): a
        caller may assume it on the Ok / Continue edge of the result, resp. on the true edge.  Any other way of
        producing a Result (a moved local, another call) makes the summary empty."""
        if self._returns_bool():
            if partial:
                self.ens_unknown = True
                return
            if rv.get("k") == "Use" and "const" in rv.get("a", {}) and rv["a"]["const"].get("bool") is False:
                return
            if rv.get("k") == "Use" and "const" in rv.get("a", {}) and rv["a"]["const"].get("int") == 0:
                return
            self.ok_points.append(self._state_facts(st))
            return
        if partial or rv.get("k") != "Aggregate" or rv.get("variant") not in ("Ok", "Err"):
            self.ens_unknown = True
            return
        if rv.get("variant") == "Err":
            return
        self.ok_points.append(self._state_facts(st))

    def _state_facts(self, st):
        rel, cst = set(), {}
        ints = [i for i in self.ens_params if self.lclass(i) in INT_BOUNDS and self.lclass(i) != "bool"]
        vals = {}
        for i in ints:
            a = "m_%d" % i
            if a in self.atom_meta:
                vals[i] = self.refresh(st, self.int_of_atom(a))
        for i, vi in vals.items():
            lo, hi = INT_BOUNDS[self.lclass(i)]
            if vi[2] > lo:
                cst[("ge_const", i)] = vi[2]
            if vi[3] < hi:
                cst[("le_const", i)] = vi[3]
            for j, vj in vals.items():
                if i != j and self.prove_le(st, vi, vj):
                    rel.add(("le", i, j))
        for i in self.ens_params:
            sid = "P%d" % i
            if sid not in st.sl:
                continue
            if st.sl[sid][0] > 0:
                cst[("len_ge_const", i)] = st.sl[sid][0]
            ln = self.len_val(st, sid)
            for j, vj in vals.items():
                if self.prove_le(st, vj, ln):
                    rel.add(("len_ge", i, j))
        # byte buffers stored in fields behind a reference parameter (`self.stream`)
        for i in self.ens_params:
            pre = "F:_%d*" % i
            for sid, v in st.sl.items():
                if sid.startswith(pre) and v[0] > 0:
                    cst[("field_len_ge_const", i, sid[len(pre):])] = v[0]
        return (rel, cst)

    def ensures_summary(self):
        if getattr(self, "ens_unknown", True) or not getattr(self, "ok_points", None):
            return None
        if not ((self.locals[0].get("ty") or "").startswith("core::result::Result<") or self._returns_bool()):
            return None
        rel = set.intersection(*[p[0] for p in self.ok_points])
        cst = {}
        for k in set.intersection(*[set(p[1]) for p in self.ok_points]):
            vs = [p[1][k] for p in self.ok_points]
            cst[k] = max(vs) if k[0] == "le_const" else min(vs)
        out = sorted(rel) + sorted(tuple(k) + (v,) for k, v in cst.items())
        return tuple(out) or None

    def guard_value(self, st, ens, args, as_bool=False):
        cmps = []
        for f in ens:
            def iv(i):
                return args[i - 1] if i - 1 < len(args) and args[i - 1] and args[i - 1][0] == "int" else None

            def lv(i):
                if i - 1 >= len(args) or not args[i - 1]:
                    return None
                sid = self.slice_arg(st, args[i - 1])
                return self.len_val(st, sid) if sid else None
            if f[0] == "le" and iv(f[1]) and iv(f[2]):
                cmps.append(("Le", iv(f[1]), iv(f[2])))
            elif f[0] == "ge_const" and iv(f[1]):
                cmps.append(("Ge", iv(f[1]), V_const(f[2])))
            elif f[0] == "le_const" and iv(f[1]):
                cmps.append(("Le", iv(f[1]), V_const(f[2])))
            elif f[0] == "len_ge_const" and lv(f[1]):
                cmps.append(("Ge", lv(f[1]), V_const(f[2])))
            elif f[0] == "len_ge" and lv(f[1]) and iv(f[2]):
                cmps.append(("Ge", lv(f[1]), iv(f[2])))
            elif f[0] == "field_len_ge_const" and f[1] - 1 < len(args) and args[f[1] - 1] and args[f[1] - 1][0] == "ref":
                sid = self.slice_sid_of_loc(st, args[f[1] - 1][1] + f[2], "[u8]")
                cmps.append(("Ge", self.len_val(st, sid), V_const(f[3])))
        if not cmps:
            return None
        return ("bool", ("implies", ("and", tuple(cmps)))) if as_bool else ("opt", "guard", tuple(cmps))

    # ---------------------------------------------------------------- R-AMP
    def succs(self, bi):
        t = self.blocks[bi]["term"]
        if not t:
            return []
        k = t["k"]
        if k in ("Goto", "Drop", "Assert"):
            return [t["t"]]
        if k == "Call":
            return [t["t"]] if t.get("t") is not None else []
        if k == "SwitchInt":
            return list(t["tgts"]) + [t["otherwise"]]
        return []

    def dominators(self):
        if getattr(self, "_dom", None) is not None:
            return self._dom
        n = len(self.blocks)
        preds = defaultdict(list)
        reach = {0}
        st_ = [0]
        while st_:
            x = st_.pop()
            for y in self.succs(x):
                preds[y].append(x)
                if y not in reach:
                    reach.add(y)
                    st_.append(y)
        dom = {b: set(reach) for b in reach}
        dom[0] = {0}
        changed = True
        order = sorted(reach)
        while changed:
            changed = False
            for b in order:
                if b == 0:
                    continue
                ps = [dom[p_] for p_ in preds[b] if p_ in dom]
                new = set.intersection(*ps) | {b} if ps else {b}
                if new != dom[b]:
                    dom[b] = new
                    changed = True
        self._dom = dom
        return dom

    def amp_sites(self):
        if not self.range_loops and not self.len_loops:
            return
        n = len(self.blocks)
        preds = defaultdict(list)
        for b in range(n):
            for s_ in self.succs(b):
                preds[s_].append(b)
        dom = self.dominators()

        def natural_loop(h):
            # back edges u -> h with h dominating u; body = nodes reaching a latch backwards without passing through h
            latches = [u for u in preds[h] if h in dom.get(u, ())]
            loop = {h}
            st_ = list(latches)
            while st_:
                x = st_.pop()
                if x in loop:
                    continue
                loop.add(x)
                for y in preds[x]:
                    if y not in loop:
                        st_.append(y)
            return loop, bool(latches)
        work = [(h, end, span, desc, "for-range", None) for h, (end, span, desc) in sorted(self.range_loops.items())]
        # `while v.len() < n { v.push(..) }`: the loop runs while a container is shorter than another value
        for bi, (op, other, span, zero_tgt, other_tgt, odesc) in sorted(self.len_loops.items()):
            best = None
            for h in range(n):
                loop, has = natural_loop(h) if any(h in dom.get(u, ()) for u in preds[h]) else (None, False)
                if not has or bi not in loop:
                    continue
                if best is None or len(loop) < len(best[1]):
                    best = (h, loop)
            if best is None:
                continue
            loop = best[1]
            cont_true = other_tgt in loop and (zero_tgt is None or zero_tgt not in loop)
            cont_false = zero_tgt is not None and zero_tgt in loop and other_tgt not in loop
            if not (cont_true or cont_false):
                continue
            if cont_false:
                op = {"Lt": "Ge", "Le": "Gt", "Gt": "Le", "Ge": "Lt"}[op]
            if op not in ("Lt", "Le"):
                continue        # the container length is the bound, not the thing that grows towards one
            work.append((bi, other, span, odesc, "while-len", loop))
        for h, end, span, desc, form, loop in work:
            if loop is None:
                loop, _ = natural_loop(h)
            grow, consume = [], []
            for b in loop:
                t = self.blocks[b]["term"]
                if t and t["k"] == "Call":
                    nm = norm(t.get("resolved") or t.get("callee")) or ""
                    last = nm.rsplit("::", 1)[-1]
                    if last in ("push", "push_str", "extend_from_slice", "extend", "insert", "resize", "from_elem", "push_back") or (last == "write_fmt"):
                        grow.append(nm)
                    if last in ("read_event_into", "fill_buffer", "next_skip_blocks", "read_type", "read_exact", "read_u8", "skip", "read_to_end_into", "continue_record", "read_rich_extended_string", "read_dbcs", "read", "read_to_end") or (nm in self.prog.runs and any(x in self.prog.runs[nm].body["locals"][i]["ty"] for i in range(1, self.prog.runs[nm].nargs + 1) for x in ("&mut quick_xml", "&mut xlsb::RecordIter", "&mut xls::Record", "&mut R", "&mut RS"))):
                        consume.append(nm)
            tainted = end is None or end[4]
            small = end is not None and end[3] <= (1 << 16)
            ok = (not tainted) or small or not grow or bool(consume)
            why = "trip count %s in [%s, %s]; loop body grows memory through %s; input-consuming calls in the body: %s" % (
                desc, end[2] if end else "?", end[3] if end else "?", sorted(set(x.rsplit("::", 1)[-1] for x in grow)) or "nothing", sorted(set(x.rsplit("::", 1)[-1] for x in consume)) or "none")
            self.sites[(h, "AMP")] = Site(self.name, "R-AMP", form, span, ok, why, "%s %s grows %s" % (form, desc, ",".join(sorted(set(x.rsplit("::", 1)[-1] for x in grow)))), tainted)

    def widen(self, old, new):
        s = new
        for k, v in list(s.val.items()):
            o = old.val.get(k)
            if v and o and v[0] == "int" and o[0] == "int" and (v[2] != o[2] or v[3] != o[3]):
                lo = v[2] if v[2] == o[2] else -INF
                hi = v[3] if v[3] == o[3] else INF
                s.val[k] = ("int", v[1], lo, hi, v[4], v[5])
        for k, v in list(s.sl.items()):
            o = old.sl.get(k)
            if o and v[0] != o[0]:
                s.sl[k] = (0, v[1], v[2])
        for k, v in list(s.ab.items()):
            o = old.ab.get(k)
            if o and v != o:
                del s.ab[k]
        return s


def _int_class_in(ty):
    m = _re.search(r"Result<(u8|u16|u32|u64|usize|i8|i16|i32|i64|isize)\b", ty or "")
    if not m:
        return None
    return {"usize": "u64", "isize": "i64"}.get(m.group(1), m.group(1))


# ----------------------------------------------------------------------------------------------
# whole program


# iterator adaptors that call their closure with the items of the receiver: by value / by reference
_ADAPTOR_ITEM = {"map": "val", "for_each": "val", "any": "val", "all": "val", "position": "val", "find_map": "val", "filter_map": "val", "flat_map": "val",
                 "find": "ref", "filter": "ref", "take_while": "ref", "skip_while": "ref"}


class Program:
    def __init__(self, facts):
        self.facts = facts
        self.runs = {}
        self.requires = {}
        self.ret_ranges = {}
        self.ensures = {}
        self.param_ranges = {}     # private fn -> {param index: (lo, hi)} joined over all its call sites
        self.arg_obs = {}
        self.arg_rel_obs = {}
        self.arg_field_obs = {}
        self.param_fields = {}     # private fn -> {(param index, field path): minimum length at every call site}
        self.param_rel = {}        # private fn -> relations between its parameters that hold at every call site
        self.eligible = self._private_fns(facts)
        self.direct_closures = {} if os.environ.get("C06_NO_DIRECTCLOSURE") else self._direct_closures(facts)
        self.eligible |= set(self.direct_closures)
        self.adaptor_closures = {} if os.environ.get("C06_NO_DIRECTCLOSURE") else self._adaptor_closures(facts)
        for name, ms in facts.mir.items():
            for m in ms:
                if "::tests::" in name or name.startswith("tests::") or "::test::" in name:
                    continue
                self.runs[name] = FnRun(self, name, m)

    def pred_bound(self, closure_ty):
        """C when the closure of that type is a predicate `|n| *n <= C` / `*n < C` on one integer parameter (the upper bound
        of what `Option::filter` lets through), else None"""
        if not hasattr(self, "_pred"):
            self._pred = {}
            for name, ms in self.facts.mir.items():
                if not _re.search(r"\{closure#\d+\}$", name) or len(ms) != 1 or ms[0]["arg_count"] != 2:
                    continue
                m = ms[0]
                ty = _re.sub(r"^&(mut )?", "", m["locals"][1]["ty"])
                if m["locals"][0]["ty"] != "bool" or len(m["blocks"]) > 2:
                    continue
                cands = []
                alias = {2}
                for b in m["blocks"]:
                    for st_ in b["stmts"]:
                        rv = st_.get("rv") or {}
                        if st_.get("k") == "Assign" and rv.get("k") == "Use" and not st_["place"].get("p") and st_["place"]["l"] != 0:
                            pu = rv["a"].get("copy") or rv["a"].get("move")
                            if pu and pu["l"] in alias and all(x == "*" for x in (pu.get("p") or [])):
                                alias.add(st_["place"]["l"])
                            continue
                        if st_.get("k") == "Assign" and rv.get("k") == "BinaryOp" and rv.get("op") in ("Le", "Lt") and not st_["place"].get("p") and st_["place"]["l"] == 0:
                            pa = rv["a"].get("copy") or rv["a"].get("move")
                            cb = rv["b"].get("const") if isinstance(rv["b"], dict) else None
                            if pa and pa["l"] in alias and all(x == "*" for x in (pa.get("p") or [])) and cb and "int" in cb:
                                cands.append(cb["int"] if rv["op"] == "Le" else cb["int"] - 1)
                        elif st_.get("k") == "Assign" and not (st_["place"].get("p")) and st_["place"]["l"] == 0:
                            cands.append(None)
                if len(cands) == 1 and cands[0] is not None:
                    self._pred[ty] = cands[0]
        return self._pred.get(closure_ty)

    @staticmethod
    def _adaptor_closures(facts):
        """{closure type: closure} for the closures handed to exactly one iterator adaptor directly on an integer range
        (`(4..16).find(|i| ..)`): the closure value is used nowhere else, so its item parameter only ever holds items of
        that range."""
        clo = {}
        for name, ms in facts.mir.items():
            if _re.search(r"\{closure#\d+\}$", name) and len(ms) == 1 and ms[0]["arg_count"] == 2:
                ty = _re.sub(r"^&(mut )?", "", ms[0]["locals"][1]["ty"])
                if ty.startswith("{closure@"):
                    clo[ty] = name
        uses = defaultdict(list)
        for name, ms in facts.mir.items():
            for m in ms:
                tys = [_re.sub(r"^&(mut )?", "", l["ty"]) for l in m["locals"]]
                if not any(t_ in clo for t_ in tys):
                    continue
                if tys[0] in clo:
                    uses[tys[0]].append("returned")
                for b in m["blocks"]:
                    for st_ in b["stmts"]:
                        rv = st_.get("rv") or {}
                        ops_ = list(rv.get("ops", [])) if rv.get("k") == "Aggregate" and rv.get("ak") != "Closure" else []
                        if rv.get("k") in ("Use", "Cast") and rv.get("a"):
                            ops_.append(rv["a"])
                        if rv.get("k") in ("Ref", "RawPtr") and rv.get("place") and not rv["place"].get("p") and tys[rv["place"]["l"]] in clo:
                            uses[tys[rv["place"]["l"]]].append("borrowed")
                        for o in ops_:
                            p_ = o.get("copy") or o.get("move")
                            if p_ and not p_.get("p") and tys[p_["l"]] in clo:
                                uses[tys[p_["l"]]].append("moved")
                    t = b.get("term") or {}
                    if t.get("k") == "Call":
                        dn = norm(t.get("callee")) or ""
                        for j, o in enumerate(t.get("args") or []):
                            p_ = o.get("copy") or o.get("move")
                            if p_ and not p_.get("p") and tys[p_["l"]] in clo:
                                a0 = (t["args"][0].get("copy") or t["args"][0].get("move")) if t.get("args") else None
                                r0 = tys[a0["l"]] if a0 and not a0.get("p") else ""
                                mth = dn.rsplit("::", 1)[-1]
                                if j == 1 and dn.startswith("core::iter::traits::iterator::Iterator::") and mth in _ADAPTOR_ITEM and _re.match(r"core::ops::range::Range<[ui](8|16|32|64|size)>$", r0):
                                    uses[tys[p_["l"]]].append(("adaptor", mth))
                                else:
                                    uses[tys[p_["l"]]].append("passed")
        return {ty: clo[ty] for ty, u in uses.items() if len(u) == 1 and isinstance(u[0], tuple)}

    @staticmethod
    def _direct_closures(facts):
        """{closure: classes of its captures} for the local closures that are only ever called directly (`let f = |..| ..;
        f(a, b)`): the value never appears as an argument of anything but its own Fn::call, is stored in no aggregate and
        is not returned.  Every call site of such a closure is analysed, so the join of the argument intervals bounds its
        parameters, and what it needs of a captured buffer can be asked of the enclosing function at the call."""
        clo = {}
        for name, ms in facts.mir.items():
            if _re.search(r"\{closure#\d+\}$", name) and len(ms) == 1 and len(ms[0]["locals"]) > 1:
                ty = ms[0]["locals"][1]["ty"]
                ty = _re.sub(r"^&(mut )?", "", ty)
                if ty.startswith("{closure@"):
                    clo[name] = ty
        if not clo:
            return {}
        calls = {n: 0 for n in clo}
        bad = set()
        caps = {}
        for name, ms in facts.mir.items():
            for m in ms:
                tys = [l["ty"] for l in m["locals"]]
                hit = [n for n, ty in clo.items() if any(ty in t_ for t_ in tys)]
                if not hit:
                    continue
                for n in hit:
                    if clo[n] in tys[0]:
                        bad.add(n)
                for b in m["blocks"]:
                    for st_ in b["stmts"]:
                        rv = st_.get("rv") or {}
                        if rv.get("k") == "Aggregate":
                            if rv.get("ak") == "Closure" and norm(rv.get("closure")) in clo:
                                cn = norm(rv["closure"])
                                cl_ = []
                                for o in rv["ops"]:
                                    p_ = o.get("copy") or o.get("move")
                                    cl_.append(m["locals"][p_["l"]]["c"] if p_ and not p_.get("p") else "?")
                                if cn in caps:
                                    bad.add(cn)
                                caps[cn] = tuple(cl_)
                            for o in rv.get("ops", []):
                                p_ = o.get("copy") or o.get("move")
                                if p_:
                                    for n in hit:
                                        if clo[n] in tys[p_["l"]] and not (rv.get("ak") == "Closure" and False):
                                            bad.add(n)
                    t = b.get("term") or {}
                    if t.get("k") == "Call":
                        res = norm(t.get("resolved") or "") or ""
                        for j, o in enumerate(t.get("args") or []):
                            p_ = o.get("copy") or o.get("move")
                            if not p_:
                                continue
                            for n in hit:
                                if clo[n] in tys[p_["l"]]:
                                    if res == n and j == 0 and (norm(t.get("callee")) or "").startswith("core::ops::function::Fn"):
                                        calls[n] += 1
                                    else:
                                        bad.add(n)
        return {n: caps[n] for n in clo if n not in bad and calls[n] > 0 and n in caps}

    @staticmethod
    def _private_fns(facts):
        """functions whose every call site is a direct call inside their own module: private (module-restricted)
        free functions / inherent methods that are never used as a value.  Only for those is the join of the argument
        intervals over the analysed call sites a sound bound for the parameter."""
        out = set()
        hir = [f.raw for f in list(getattr(facts, "fns", [])) + list(getattr(facts, "helper_fns", []))]
        for h in hir:
            vis = h.get("vis") or ""
            if h.get("dk") in ("Fn", "AssocFn") and vis.startswith("Restricted(") and "DefId(0:0 " not in vis:
                out.add(norm(h["def"]))
        taken = set()

        def ops_of(x):
            if isinstance(x, dict):
                c = x.get("const")
                if isinstance(c, dict) and c.get("fn"):
                    taken.add(norm(c["fn"]))
                for v in x.values():
                    ops_of(v)
            elif isinstance(x, list):
                for v in x:
                    ops_of(v)
        for name, ms in facts.mir.items():
            for m in ms:
                for b in m["blocks"]:
                    for st_ in b["stmts"]:
                        ops_of(st_)
                    t = b.get("term") or {}
                    ops_of(t.get("args"))
        return out - taken

    def analyse(self, files=None, rounds=3):
        names = [n for n, r in self.runs.items() if files is None or r.body["span"]["f"] in files]
        for rnd in range(rounds):
            changed = False
            for n in names:
                r = self.runs[n]
                sites = r.run()
                req = {}
                for s in sites.values():
                    if s.req and not s.proved:
                        req[s.req[0]] = max(req.get(s.req[0], 0), s.req[1])
                # only private helpers are summarised: their unproved constant needs move to the callers
                if req != self.requires.get(n, {}):
                    self.requires[n] = req
                    changed = True
                rr = getattr(r, "ret_range", None)
                if rr is not None and (rr[0] > -INF or rr[1] < INF) and self.ret_ranges.get(n) != rr:
                    self.ret_ranges[n] = rr
                    changed = True
            if not changed:
                break
        return {n: self.runs[n].sites for n in names}
