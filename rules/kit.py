"""Fact loader and HIR helpers shared by all rules."""
import json
import os
import re

REPO = os.environ.get("CALAMIR_REPO", "/repo")


# ----------------------------------------------------------------------------------------------
# path normalisation


def strip_generics(s):
    """Remove balanced <...> groups that follow an identifier or '::' (type args / turbofish)."""
    out = []
    i = 0
    n = len(s)
    while i < n:
        c = s[i]
        if c == "<" and s.startswith("<impl ", i):
            depth = 0
            j = i
            while j < n:
                if s[j] == "<":
                    depth += 1
                elif s[j] == ">" and s[j - 1] != "-":
                    depth -= 1
                    if depth == 0:
                        break
                j += 1
            out.append("<impl " + strip_generics(s[i + 6:j]) + ">")
            i = j + 1
            continue
        if c == "<":
            prev = out[-1] if out else ""
            is_args = bool(prev) and (prev.isalnum() or prev == "_" or prev == ":")
            if is_args:
                depth = 0
                while i < n:
                    if s[i] == "<":
                        depth += 1
                    elif s[i] == ">" and s[i - 1] != "-":
                        depth -= 1
                        if depth == 0:
                            i += 1
                            break
                    i += 1
                # drop a trailing '::' left by a turbofish (`Vec::<T>::new` -> `Vec::new`)
                if out and "".join(out).endswith("::") and s[i:i + 2] == "::":
                    i += 2
                elif out and "".join(out).endswith("::"):
                    del out[-2:]
                continue
        out.append(c)
        i += 1
    return "".join(out)


def norm(path):
    """calamine::xlsx::Xlsx::<RS>::read_workbook -> xlsx::Xlsx::read_workbook
    calamine::<auto::Sheets<RS> as Reader<RS>>::new -> <auto::Sheets as Reader>::new"""
    if path is None:
        return None
    p = path
    if p.startswith("calamine::"):
        p = p[len("calamine::"):]
    p = strip_generics(p)
    p = p.replace("'a ", "").replace("'_ ", "")
    return p


_LIFETIME = re.compile(r"'[a-z_]+ ?")


def norm_ty(t):
    if t is None:
        return None
    return _LIFETIME.sub("", t)


# ----------------------------------------------------------------------------------------------
# generic tree walking

_CHILD_KEYS_SKIP = ("span", "ty", "aty", "res", "callee", "id", "k", "name", "op", "src", "label", "target", "def", "resolved")


def walk(node):
    """Pre-order over every HIR dict node (expr / pat / stmt / block / arm), including `node`."""
    stack = [node]
    while stack:
        n = stack.pop()
        if isinstance(n, dict):
            yield n
            for key in reversed(list(n.keys())):
                if key in _CHILD_KEYS_SKIP:
                    continue
                v = n[key]
                if isinstance(v, (dict, list)):
                    stack.append(v)
        elif isinstance(n, list):
            for v in reversed(n):
                if isinstance(v, (dict, list)):
                    stack.append(v)


def walk_k(node, *kinds):
    for n in walk(node):
        if n.get("k") in kinds:
            yield n


def unwrap(e):
    """Strip DropTemps / Use / Type / AddrOf-free wrappers and single-expression blocks."""
    while isinstance(e, dict):
        k = e.get("k")
        if k in ("DropTemps", "Use", "Type"):
            e = e["e"]
        elif k == "BlockExpr" and not e["block"].get("stmts") and e["block"].get("expr") is not None and not e.get("label"):
            e = e["block"]["expr"]
        else:
            break
    return e


def peel(e):
    """unwrap + strip &, *, casts-free derefs: gets to the underlying place/call expression."""
    while True:
        e = unwrap(e)
        if not isinstance(e, dict):
            return e
        k = e.get("k")
        if k == "AddrOf":
            e = e["e"]
        elif k == "Unary" and e.get("op") == "*":
            e = e["e"]
        else:
            return e


def loc(node):
    sp = node.get("span") if isinstance(node, dict) else None
    if not sp:
        return "?"
    return "%s:%d" % (sp["f"], sp["l"])


def in_macro(node, *names):
    sp = node.get("span") or {}
    return sp.get("mac") in names or sp.get("omac") in names


def callee(e):
    """Normalised resolved callee of a Call / MethodCall / overloaded operator node, or None."""
    k = e.get("k")
    if k == "MethodCall" or k in ("Binary", "Unary", "Index", "AssignOp"):
        c = e.get("callee")
        if c:
            return norm(c.get("resolved") or c.get("def"))
        return None
    if k == "Call":
        if e.get("resolved"):
            return norm(e["resolved"])
        f = unwrap(e["f"])
        if f.get("k") == "Path":
            r = f.get("res", {})
            if "def" in r:
                return norm(r.get("ctor_of") or r["def"])
        return None
    return None


def callee_decl(e):
    """Normalised *declared* callee (trait method path for trait calls)."""
    k = e.get("k")
    if k == "MethodCall" or k in ("Binary", "Unary", "Index", "AssignOp"):
        c = e.get("callee")
        return norm(c.get("def")) if c else None
    if k == "Call":
        f = unwrap(e["f"])
        if f.get("k") == "Path":
            r = f.get("res", {})
            if "def" in r:
                return norm(r.get("ctor_of") or r["def"])
    return None


def path_def(e):
    e = unwrap(e)
    if isinstance(e, dict) and e.get("k") == "Path":
        r = e.get("res", {})
        if "def" in r:
            return norm(r.get("ctor_of") or r["def"])
    return None


def path_local(e):
    e = unwrap(e)
    if isinstance(e, dict) and e.get("k") == "Path":
        r = e.get("res", {})
        if "local" in r:
            return r["local"], r["lid"]
    return None


def lit_value(e):
    """Literal value of an expression: int, str (for str and byte-str), bool; else None."""
    e = peel(e)
    if not isinstance(e, dict):
        return None
    if e.get("k") == "Lit":
        v = e["v"]
        return v.get("v") if isinstance(v, dict) else None
    if e.get("k") == "Path":
        r = e.get("res", {})
        if "cval" in r:
            return r["cval"]
    if e.get("k") == "Unary" and e.get("op") == "-":
        v = lit_value(e["e"])
        if isinstance(v, int):
            return -v
    if e.get("k") == "Cast":
        return lit_value(e["e"])
    return None


def field_chain(e):
    """`self.a.b` -> ('self', ['a','b']); a bare local -> (name, []); else None."""
    fields = []
    e = peel(e)
    while isinstance(e, dict) and e.get("k") == "Field":
        fields.append(e["name"])
        e = peel(e["e"])
    pl = path_local(e) if isinstance(e, dict) else None
    if pl is None:
        return None
    fields.reverse()
    return pl[0], fields


# ----------------------------------------------------------------------------------------------
# patterns


def pat_literals(p):
    """All literal values (ints / strings) and resolved paths named by a pattern."""
    lits, paths = [], []
    for n in walk(p):
        k = n.get("k")
        if k == "PLit":
            e = n["e"]
            if "lit" in e:
                lits.append(e["v"])
            elif e.get("k") == "Path":
                r = e["res"]
                if "cval" in r:
                    lits.append(r["cval"])
                if "def" in r:
                    paths.append(norm(r.get("ctor_of") or r["def"]))
        elif k in ("TupleStruct", "Struct"):
            r = n["res"]
            if "def" in r:
                paths.append(norm(r.get("ctor_of") or r["def"]))
        elif k == "Range":
            lo = n.get("lo", {}).get("v") if n.get("lo") else None
            hi = n.get("hi", {}).get("v") if n.get("hi") else None
            lits.append(("range", lo, hi, n.get("inclusive")))
    return lits, paths


def pat_is_catchall(p):
    k = p.get("k")
    if k == "Wild":
        return True
    if k == "Binding":
        return p.get("sub") is None or pat_is_catchall(p["sub"])
    if k in ("Ref", "Box", "Deref"):
        return pat_is_catchall(p["pat"])
    if k == "Or":
        return any(pat_is_catchall(x) for x in p["pats"])
    return False


def pat_covers(p, chain):
    """Does pattern `p` match a value built as chain[0](chain[1](...)) of unit/tuple variants?
    `chain` is a list of variant path suffixes, e.g. ['Result::Ok', 'Event::Eof'] or ['Event::Eof']."""
    if pat_is_catchall(p):
        return True
    k = p.get("k")
    if k in ("Ref", "Box", "Deref"):
        return pat_covers(p["pat"], chain)
    if k == "Binding":
        return pat_covers(p["sub"], chain) if p.get("sub") else True
    if k == "Or":
        return any(pat_covers(x, chain) for x in p["pats"])
    if not chain:
        return False
    want = chain[0]
    if k == "TupleStruct":
        d = norm(p["res"].get("ctor_of") or p["res"].get("def"))
        if d is None or not d.endswith(want):
            return False
        if len(chain) == 1:
            return all(pat_is_catchall(x) for x in p["pats"])
        if len(p["pats"]) != 1:
            return p.get("dd") is not None and not p["pats"]
        return pat_covers(p["pats"][0], chain[1:])
    if k == "Struct":
        d = norm(p["res"].get("ctor_of") or p["res"].get("def"))
        return d is not None and d.endswith(want) and len(chain) == 1
    if k == "PLit":
        e = p["e"]
        if e.get("k") == "Path":
            d = norm(e["res"].get("ctor_of") or e["res"].get("def"))
            return d is not None and d.endswith(want) and len(chain) == 1
    return False


def pat_variant(p):
    """The outermost variant/struct path of a pattern (through refs / bindings), or None."""
    k = p.get("k")
    if k in ("Ref", "Box", "Deref"):
        return pat_variant(p["pat"])
    if k == "Binding" and p.get("sub"):
        return pat_variant(p["sub"])
    if k in ("TupleStruct", "Struct"):
        return norm(p["res"].get("ctor_of") or p["res"].get("def"))
    if k == "PLit" and p["e"].get("k") == "Path":
        return norm(p["e"]["res"].get("ctor_of") or p["e"]["res"].get("def"))
    return None


def pat_bindings(p):
    return [(n["name"], n["lid"]) for n in walk(p) if n.get("k") == "Binding"]


# ----------------------------------------------------------------------------------------------
# control flow on HIR


def walk_anc(node):
    """Pre-order over HIR dict nodes yielding (node, ancestors) where ancestors is a tuple of dict
    nodes from the root down to the parent."""
    stack = [(node, ())]
    while stack:
        n, anc = stack.pop()
        if isinstance(n, dict):
            yield n, anc
            nanc = anc + (n,)
            for key in reversed(list(n.keys())):
                if key in _CHILD_KEYS_SKIP:
                    continue
                v = n[key]
                if isinstance(v, (dict, list)):
                    stack.append((v, nanc))
        elif isinstance(n, list):
            for v in reversed(n):
                if isinstance(v, (dict, list)):
                    stack.append((v, anc))


def leave_targets(loop_node, ancestors):
    """ids a `break` may name in order to leave `loop_node`: the loop itself and every enclosing
    loop / labelled block."""
    ids = {loop_node.get("id")}
    for a in ancestors:
        if a.get("k") in ("Loop", "BlockExpr") and "id" in a:
            ids.add(a["id"])
    return ids


def always_leaves(e, targets):
    """True if evaluating `e` never falls through to the next iteration of the loop identified by
    `targets` (see leave_targets): every path ends in `return`, a `break` to one of `targets`, or
    a diverging call.  `continue` never leaves."""
    e = unwrap(e)
    if not isinstance(e, dict):
        return False
    k = e.get("k")
    if k == "Ret":
        return True
    if k == "Break":
        # `leaves_caller`: the `return Err(..)` of a helper inlined as the operand of `?` (see _inline_new_helpers)
        return e.get("target") in targets or bool(e.get("leaves_caller"))
    if k == "Continue":
        return False
    if e.get("ty") == "!" and k in ("Call", "MethodCall"):
        return True
    if k == "BlockExpr":
        b = e["block"]
        for s in b.get("stmts", []):
            if s.get("k") in ("Expr", "Semi") and always_leaves(s["e"], targets):
                return True
            if s.get("k") == "Let" and s.get("init") is not None and always_leaves(s["init"], targets):
                return True
        return b.get("expr") is not None and always_leaves(b["expr"], targets)
    if k == "If":
        return e.get("els") is not None and always_leaves(e["then"], targets) and always_leaves(e["els"], targets)
    if k == "Match":
        if e.get("src") == "TryDesugar":
            return always_leaves(e["scrut"], targets)
        return bool(e["arms"]) and all(always_leaves(a["body"], targets) for a in e["arms"])
    if k in ("Call", "MethodCall"):
        subs = list(e.get("args", []))
        if k == "MethodCall":
            subs.append(e["recv"])
        return any(always_leaves(a, targets) for a in subs)
    return False


# ----------------------------------------------------------------------------------------------
# facts


def arm_body(arm):
    """what an arm does when it fires: its body, or the then-branch when the body is a sole `if` whose test was lifted
    into the effective guard (see normalise)"""
    if arm.get("guard_from_body"):
        b = arm["body"]
        for _ in range(6):
            b = unwrap(b)
            if isinstance(b, dict) and b.get("k") == "If":
                return b["then"]
            if isinstance(b, dict) and b.get("k") == "BlockExpr" and len(b["block"].get("stmts") or []) == 1 and b["block"].get("expr") is None:
                b = b["block"]["stmts"][0].get("e")
            else:
                break
    return arm["body"]


def conjuncts(e):
    """the operands of a (possibly nested) `&&`"""
    eu = unwrap(e) if isinstance(e, dict) else e
    if isinstance(eu, dict) and eu.get("k") == "Binary" and eu.get("op") == "&&":
        return conjuncts(eu["l"]) + conjuncts(eu["r"])
    return [e] if e is not None else []


def reach_conds(n, anc, body=None):
    """boolean expressions that all hold whenever node `n` is reached, read off its ancestors: conjuncts of the test of
    every `if` whose then-branch holds n, of the guard of every match arm whose body holds n, and -- for a `Some(..)`
    arm over an Option built with `.filter(|x| C)` -- of C (`body`: the function body, to follow a scrutinee local to
    its initialiser)"""
    out = []
    for x in anc:
        if x.get("k") == "If" and any(y is n for y in walk(x["then"])):
            out += conjuncts(x["cond"])
        elif x.get("k") == "Match":
            for a in x.get("arms", []):
                if not any(y is n for y in walk(a["body"])):
                    continue
                if a.get("guard") is not None and not a.get("guard_from_body"):
                    out += conjuncts(a["guard"])
                if (pat_variant(a["pat"]) or "").endswith("Option::Some") and x.get("src") != "TryDesugar":
                    e = x["scrut"]
                    for _ in range(3):
                        li = let_init(body, e) if body is not None else None
                        if li is None:
                            break
                        e = li["init"]
                    for m in walk_k(e, "MethodCall"):
                        if m.get("name") == "filter" and (callee(m) or "").startswith("core::option::Option") and m.get("args"):
                            c = unwrap(m["args"][0])
                            if isinstance(c, dict) and c.get("k") == "Closure":
                                out += conjuncts(c["body"])
    return out


def matches_as_match(fn_body):
    """`if matches!(S, P) { A } else { B }` read as `match S { P => A, _ => B }`: [(synthetic match, the inner `matches!`
    match it replaces)] for every such `if` (with an else branch) in the body"""
    out = []
    for i in walk_k(fn_body, "If"):
        if i.get("els") is None:
            continue
        c = unwrap(i["cond"])
        if not (isinstance(c, dict) and c.get("k") == "Match" and len(c.get("arms", [])) == 2):
            continue
        a0, a1 = c["arms"]
        if lit_value(a0["body"]) is True and lit_value(a1["body"]) is False and a1["pat"].get("k") == "Wild" and a1.get("guard") is None:
            syn = {"k": "Match", "src": "IfMatches", "span": i.get("span"), "ty": i.get("ty"), "scrut": c["scrut"],
                   "arms": [dict(a0, body=i["then"]), dict(a1, body=i["els"])]}
            out.append((syn, c))
    return out


def virtual_arms(m):
    """the arms of a match, plus one derived arm per top-level `if C { X }` statement of an arm body: (same pattern,
    guard && C, body X).  `Ok(Event::End(e)) => { if e is A { .. } if e is B { .. } }` is read like two guarded arms."""
    out = []
    for a in m.get("arms", []):
        out.append(a)
        if a.get("guard_from_body"):
            continue
        for st in body_stmts(a["body"]):
            e = unwrap(st.get("e") or {}) if isinstance(st.get("e"), dict) else None
            if isinstance(e, dict) and e.get("k") == "If":
                cu = unwrap(e["cond"])
                if isinstance(cu, dict) and cu.get("k") == "LetExpr":
                    continue
                g = a.get("guard")
                ng = e["cond"] if g is None else {"k": "Binary", "op": "&&", "span": e["cond"].get("span", a.get("span")), "ty": "bool", "l": g, "r": e["cond"]}
                out.append(dict(a, guard=ng, body=e["then"], virtual=True))
    return out


def with_new_callees(F, fn, depth=3):
    """bodies to search when a rule looks for something "in fn": fn's own body plus the bodies of crate functions that
    did not exist when the rules were written and that fn mentions as a value (`get_or_init(first_day)`) or calls
    without having been inlined (nested fn items, helpers beyond the inlining depth)"""
    out, seen, work = [fn.body], {fn.name}, [(fn.body, 0)]
    helpers = {h.name: h for h in getattr(F, "helper_fns", [])}
    newset = set(getattr(F, "new_helpers", []))
    while work:
        b, d = work.pop()
        if d >= depth:
            continue
        for x in walk(b):
            nm = None
            if x.get("k") == "Path":
                nm = path_def(x)
            elif x.get("k") in ("Call", "MethodCall"):
                nm = callee(x)
            if nm and nm not in seen and nm in newset:
                seen.add(nm)
                g = helpers.get(nm) or F.fn(nm)
                if g is not None:
                    out.append(g.body)
                    work.append((g.body, d + 1))
    return out


def const_value(F, e):
    """literal value of an expression, looking through a path to a constant item whose body is a literal
    (`const WORKBOOK_RELS: &str = "xl/_rels/workbook.xml.rels"`)"""
    v = lit_value(e)
    if v is not None:
        return v
    pe = peel(e) if isinstance(e, dict) else None
    if isinstance(pe, dict) and pe.get("k") == "Path" and pe.get("res", {}).get("dk") in ("Const", "Static"):
        d = path_def(pe)
        for c in getattr(F, "consts", []):
            if norm(c["def"]) == d and c.get("body") is not None:
                return lit_value(c["body"])
    return None


def inl_params(body):
    """{lid of an inlined helper's parameter: the argument expression it is bound to} (see Facts._inline_new_helpers)"""
    out = {}
    for n in walk(body):
        if n.get("k") == "Let" and n.get("inl_param") and n["pat"].get("k") == "Binding":
            out[n["pat"]["lid"]] = n["init"]
    return out


def used_lids(e, imap=None, depth=0):
    """lids of the locals an expression reads, looking through parameters of inlined helpers"""
    out = set()
    for x in walk_k(e, "Path"):
        r = x.get("res", {})
        if "local" in r:
            out.add(r["lid"])
            if imap and r["lid"] in imap and depth < 4:
                out |= used_lids(imap[r["lid"]], imap, depth + 1)
    return out


def cond_exprs(body, cond, depth=0):
    """the condition itself plus the initialisers of boolean locals it mentions (`let off = first.pos.0 != n; if off {`)"""
    out = [cond]
    if depth >= 2:
        return out
    for p in walk_k(cond, "Path"):
        pl = path_local(p)
        if not pl or (p.get("ty") or "") != "bool":
            continue
        for l in walk_k(body, "Let"):
            if l.get("init") is not None and l["pat"].get("k") == "Binding" and l["pat"].get("lid") == pl[1]:
                out += cond_exprs(body, l["init"], depth + 1)
    return out


def _ends_leaving(e):
    """does the expression syntactically end with return / break / continue?"""
    e = unwrap(e) if isinstance(e, dict) else e
    if not isinstance(e, dict):
        return False
    k = e.get("k")
    if k in ("Ret", "Break", "Continue"):
        return True
    if k == "BlockExpr":
        b = e["block"]
        if b.get("expr") is not None:
            return _ends_leaving(b["expr"])
        st = b.get("stmts") or []
        if st and st[-1].get("k") in ("Semi", "Expr"):
            return _ends_leaving(st[-1].get("e"))
    return False


def _nest_let_else(block):
    """`{ ..; let PAT = INIT else { ELSE }; rest.. }`  ->  `{ ..; match INIT { PAT => { rest.. }, _ => ELSE } }`  (src =
    "LetElse"): the let-else spelling and the two-arm match spelling of the same control flow get one shape.
    `flat_stmts` gives the flat statement list back (with the binding as a `Let`)."""
    stmts = block.get("stmts") or []
    for i, st in enumerate(stmts):
        if st.get("k") != "Let" or st.get("els") is None or st.get("init") is None:
            continue
        rest_stmts = stmts[i + 1:]
        rest = {"k": "BlockExpr", "span": (rest_stmts[0] if rest_stmts else (block.get("expr") or st)).get("span", st["span"]), "ty": block.get("ty"), "nested_rest": True,
                "block": _nest_let_else({"k": "Block", "span": st["span"], "stmts": rest_stmts, "expr": block.get("expr")})}
        els = st["els"]
        els_e = els if els.get("k") == "BlockExpr" else {"k": "BlockExpr", "span": els.get("span", st["span"]), "ty": "!", "block": els}
        m = {"k": "Match", "span": st["span"], "ty": block.get("ty"), "id": st.get("id"), "src": "LetElse", "scrut": st["init"], "let_pat": st["pat"],
             "arms": [{"span": st["pat"].get("span", st["span"]), "pat": st["pat"], "guard": None, "body": rest},
                      {"span": els.get("span", st["span"]), "pat": {"k": "Wild", "span": st["span"], "ty": st["pat"].get("ty")}, "guard": None, "body": els_e}]}
        return dict(block, stmts=stmts[:i], expr=m)
    return block


def _nest_early_exits(block):
    """`{ ..; if C { leave }  rest.. }`  ->  `{ ..; if C { leave } else { rest.. } }` and, for a negated test,
    `{ ..; if !X { leave }  rest.. }`  ->  `{ ..; if X { rest.. } else { leave } }` -- the guarded-early-exit spelling and
    the if/else spelling of the same control flow get one shape (the nested one)."""
    stmts = block.get("stmts") or []
    for i, st in enumerate(stmts):
        if st.get("k") not in ("Semi", "Expr"):
            continue
        e = st.get("e")
        eu = e
        while isinstance(eu, dict) and eu.get("k") in ("DropTemps", "Use", "Type"):
            eu = eu["e"]
        if not isinstance(eu, dict) or eu.get("k") != "If" or eu.get("els") is not None or not _ends_leaving(eu["then"]):
            continue
        rest_stmts = stmts[i + 1:]
        if not rest_stmts and block.get("expr") is None:
            continue
        rest = {"k": "BlockExpr", "span": (rest_stmts[0] if rest_stmts else block["expr"]).get("span", eu["span"]), "ty": block.get("ty"), "nested_rest": True,
                "block": _nest_early_exits({"k": "Block", "span": eu["span"], "stmts": rest_stmts, "expr": block.get("expr")})}
        c = eu["cond"]
        cu = c
        while isinstance(cu, dict) and cu.get("k") in ("DropTemps", "Use", "Type"):
            cu = cu["e"]
        if isinstance(cu, dict) and cu.get("k") == "Unary" and cu.get("op") == "!":
            new_if = dict(eu, cond=cu["e"], then=rest, els=eu["then"], src="EarlyExitNeg")
        else:
            new_if = dict(eu, els=rest, src="EarlyExit")
        return dict(block, stmts=stmts[:i], expr=new_if)
    return block


def flat_stmts(block):
    """statements of a block in source order, looking through the nesting introduced by _nest_early_exits: the
    guarded early exit is yielded as an `If` statement, followed by the statements of its continuation"""
    out = []
    for st in block.get("stmts") or []:
        out.append(st)
    e = block.get("expr")
    if e is not None:
        eu = unwrap(e)
        if isinstance(eu, dict) and eu.get("k") == "If" and eu.get("src") in ("EarlyExit", "EarlyExitNeg"):
            rest = eu["els"] if eu["src"] == "EarlyExit" else eu["then"]
            out.append({"k": "Expr", "e": eu, "span": eu["span"]})
            out += flat_stmts(rest["block"])
        elif isinstance(eu, dict) and eu.get("k") == "Match" and eu.get("src") == "LetElse":
            out.append({"k": "Let", "pat": eu["let_pat"], "init": eu["scrut"], "span": eu["span"], "from_let_else": eu})
            out += flat_stmts(eu["arms"][0]["body"]["block"])
        else:
            out.append({"k": "Expr", "e": e, "span": e.get("span") if isinstance(e, dict) else None, "tail": True})
    return out


def body_stmts(e):
    """flat_stmts of a function body / arm body given as an expression (a block or a single expression)"""
    while isinstance(e, dict) and e.get("k") in ("DropTemps", "Use", "Type"):
        e = e["e"]
    if isinstance(e, dict) and e.get("k") == "BlockExpr":
        return flat_stmts(e["block"])
    return [{"k": "Expr", "e": e, "tail": True}] if e is not None else []


def for_loops(body):
    """[(iterated expression, item pattern, loop body expression, outer node)] for every `for pat in expr { body }`"""
    out = []
    for m in walk_k(body, "Match"):
        if m.get("src") != "ForLoopDesugar" or not m.get("arms"):
            continue
        it = unwrap(m["scrut"])
        if isinstance(it, dict) and it.get("k") == "Call" and it.get("args"):
            it = it["args"][0]
        lp = unwrap(m["arms"][0]["body"])
        if not isinstance(lp, dict) or lp.get("k") != "Loop":
            continue
        inner = None
        for x in walk_k(lp["body"], "Match"):
            if x.get("src") == "ForLoopDesugar":
                inner = x
                break
        if inner is None:
            continue
        some = [a for a in inner["arms"] if (pat_variant(a["pat"]) or "").endswith("Some")]
        if not some:
            continue
        pat = some[0]["pat"]["pats"][0] if some[0]["pat"].get("pats") else some[0]["pat"]
        out.append((it, pat, some[0]["body"], m))
    return out


def let_init(body, e):
    """if `e` is a local bound by exactly one `let` (plain binding) in `body`, the initialiser; else None"""
    pl = path_local(e)
    if not pl:
        return None
    hits = [l for l in walk_k(body, "Let") if l.get("init") is not None and l["pat"].get("k") == "Binding" and l["pat"].get("lid") == pl[1]]
    return hits[0] if len(hits) == 1 else None


def subst_local(node, lid, repl):
    """copy of `node` with every read of local `lid` replaced by the expression `repl`"""
    if isinstance(node, list):
        return [subst_local(x, lid, repl) for x in node]
    if not isinstance(node, dict):
        return node
    if node.get("k") == "Path" and node.get("res", {}).get("lid") == lid and "local" in node.get("res", {}):
        return dict(repl, subst_of=node["res"]["local"])
    return {k: (subst_local(v, lid, repl) if isinstance(v, (dict, list)) and k not in ("span", "res", "callee") else v) for k, v in node.items()}


def normalise(node):
    """Canonical control-flow shapes, so that a rule sees the same tree whichever of the equivalent spellings the
    source uses:
      * `if let P = E { A } else { B }`            ->  Match(E) [P => A, _ => B]      (src = "IfLet")
    Everything else is left as it is (rules that read a two-row table from a `match` on a bool also accept the
    equivalent `if`, see r_tables._tab_generic)."""
    if isinstance(node, list):
        return [normalise(x) for x in node]
    if not isinstance(node, dict):
        return node
    node = {k: (normalise(v) if isinstance(v, (dict, list)) and k not in ("span", "res", "callee") else v) for k, v in node.items()}
    k = node.get("k")
    if k == "Block" and not os.environ.get("CALAMIR_NO_EARLYEXIT"):
        node = _nest_early_exits(node)
    if k == "Block" and not os.environ.get("CALAMIR_NO_LETELSE"):
        node = _nest_let_else(node)
    if k == "If":
        c = node.get("cond")
        cu = c
        while isinstance(cu, dict) and cu.get("k") in ("DropTemps", "Use", "Type"):
            cu = cu["e"]
        if isinstance(cu, dict) and cu.get("k") == "LetExpr":
            els = node.get("els")
            if els is None:
                els = {"k": "Tup", "span": node["span"], "ty": "()", "es": []}
            return {"k": "Match", "span": node["span"], "ty": node.get("ty"), "id": node.get("id"), "src": "IfLet", "scrut": cu["init"],
                    "arms": [{"span": cu["pat"].get("span", node["span"]), "pat": cu["pat"], "guard": None, "body": node["then"]},
                             {"span": els.get("span", node["span"]), "pat": {"k": "Wild", "span": node["span"], "ty": cu["pat"].get("ty")}, "guard": None, "body": els}]}
    if k == "Match" and node.get("src") not in ("TryDesugar", "ForLoopDesugar", "AwaitDesugar") and not os.environ.get("CALAMIR_NO_ARMGUARD"):
        # `P => { if C { X } }` also carries C as its (effective) guard: what the arm does, it does iff P matches and C
        # holds, in both spellings (`guard_from_body` marks the arm; the body is left as it is)
        arms = []
        for a in node.get("arms", []):
            b = a.get("body")
            while isinstance(b, dict) and (b.get("k") in ("DropTemps", "Use", "Type") or (b.get("k") == "BlockExpr" and not b["block"].get("stmts") and b["block"].get("expr") is not None and not b.get("label"))):
                b = b["e"] if b.get("k") != "BlockExpr" else b["block"]["expr"]
            if isinstance(b, dict) and b.get("k") == "BlockExpr" and len(b["block"].get("stmts") or []) == 1 and b["block"].get("expr") is None and b["block"]["stmts"][0].get("k") in ("Semi", "Expr"):
                b = b["block"]["stmts"][0]["e"]
                while isinstance(b, dict) and b.get("k") in ("DropTemps", "Use", "Type"):
                    b = b["e"]
            if isinstance(b, dict) and b.get("k") == "If" and b.get("els") is None and b.get("src") is None:
                c = b["cond"]
                cu = c
                while isinstance(cu, dict) and cu.get("k") in ("DropTemps", "Use", "Type"):
                    cu = cu["e"]
                if not (isinstance(cu, dict) and cu.get("k") == "LetExpr"):
                    g = a.get("guard")
                    ng = c if g is None else {"k": "Binary", "op": "&&", "span": c.get("span", a.get("span")), "ty": "bool", "l": g, "r": c}
                    a = dict(a, guard=ng, guard_from_body=True)     # the body keeps its `if`: rules looking for an enclosing test still find it
            arms.append(a)
        node = dict(node, arms=arms)
    if k == "Match" and node.get("src") not in ("TryDesugar", "ForLoopDesugar", "AwaitDesugar") and len(node.get("arms", [])) == 2:
        # `match flag { true => A, false => B }` -> `if flag { A } else { B }`   (src = "MatchBool")
        def blit(a):
            p = a["pat"]
            if a.get("guard") is None and p.get("k") == "PLit" and isinstance(p.get("e"), dict) and p["e"].get("lit") == "bool":
                return p["e"].get("v")
            return None
        a0, a1 = node["arms"]
        b0, b1 = blit(a0), blit(a1)
        if b0 is not None and (b1 is not None or (a1.get("guard") is None and a1["pat"].get("k") == "Wild")) and b0 != b1:
            t, e = (a0, a1) if b0 is True else (a1, a0)
            return {"k": "If", "span": node["span"], "ty": node.get("ty"), "id": node.get("id"), "cond": node["scrut"], "then": t["body"], "els": e["body"], "src": "MatchBool"}
    return node


class Fn:
    __slots__ = ("raw", "name", "file", "line", "impl_self", "impl_trait")

    def __init__(self, raw):
        self.raw = raw
        self.name = norm(raw["def"])
        self.file = raw["span"]["f"]
        self.line = raw["span"]["l"]
        self.impl_self = norm_ty(strip_generics(raw["impl_self"])) if raw.get("impl_self") else None
        self.impl_trait = norm(raw["impl_trait"]) if raw.get("impl_trait") else None

    @property
    def body(self):
        return self.raw["body"]

    @property
    def params(self):
        return self.raw.get("params", [])

    def __repr__(self):
        return "Fn(%s)" % self.name


class Facts:
    def __init__(self, path):
        with open(path) as fh:
            d = json.load(fh)
        self.path = path
        self.raw = d
        self.features = d.get("features", [])
        self.fns = [Fn(h) for h in d["hir"] if h["dk"] in ("Fn", "AssocFn") and not self._is_test(h)]
        self.consts = [h for h in d["hir"] if h["dk"] not in ("Fn", "AssocFn")]
        self.by_name = {}
        for f in self.fns:
            self.by_name.setdefault(f.name, []).append(f)
        self.mir = {}
        for m in d["mir"]:
            self.mir.setdefault(norm(m["def"]), []).append(m)
        self.adts = {norm(a["def"]): a for a in d["adts"]}
        self.impls = d["impls"]
        if not os.environ.get("CALAMIR_NO_NORMALISE"):
            for f in self.fns:
                f.raw["body"] = normalise(f.raw["body"])
            self._inline_new_helpers()

    # ------------------------------------------------------------------------------------------
    def _inline_new_helpers(self):
        """Calls of crate functions that did not exist when the rules were written (tables/known_fns.json) are
        replaced by a block binding the parameters to the arguments followed by a copy of the helper's body, so that
        extracting code into a private helper does not hide it from a rule anchored on the caller."""
        try:
            with open(os.path.join(os.path.dirname(os.path.dirname(os.path.abspath(__file__))), "tables", "known_fns.json")) as fh:
                known = set(json.load(fh)["fns"])
        except OSError:
            return
        new = {n: v[0] for n, v in self.by_name.items() if n not in known and len(v) == 1 and "{closure" not in n}
        self.new_helpers = sorted(new)
        if not new:
            return
        counter = [0]

        def shift(node, off):
            if isinstance(node, list):
                return [shift(x, off) for x in node]
            if not isinstance(node, dict):
                return node
            out = {}
            for k, v in node.items():
                if k == "lid" and isinstance(v, int):
                    out[k] = v + off
                elif isinstance(v, (dict, list)):
                    out[k] = shift(v, off)
                else:
                    out[k] = v
            return out

        def inline(node, depth, stack):
            if isinstance(node, list):
                return [inline(x, depth, stack) for x in node]
            if not isinstance(node, dict):
                return node
            node = {k: (inline(v, depth, stack) if isinstance(v, (dict, list)) and k not in ("span", "res", "callee") else v) for k, v in node.items()}
            k = node.get("k")
            if k in ("Call", "MethodCall") and depth < 3:
                c = callee(node)
                h = new.get(c) if c else None
                if h is not None and c not in stack:
                    counter[0] += 1
                    off = 1000000 * counter[0]
                    params = shift(h.raw.get("params", []), off)
                    body = inline(shift(h.raw["body"], off), depth + 1, stack | {c})
                    # a `return` of the helper leaves the helper, not the caller: it becomes a `break` out of the
                    # block that stands for the call (closures keep their own returns)
                    blk_id = "inl%d" % counter[0]

                    def unret(n_):
                        if isinstance(n_, list):
                            return [unret(x) for x in n_]
                        if not isinstance(n_, dict):
                            return n_
                        if n_.get("k") == "Closure":
                            return n_
                        if n_.get("k") == "Ret":
                            return {"k": "Break", "span": n_.get("span"), "ty": n_.get("ty"), "target": blk_id, "e": unret(n_.get("e")), "inl_ret": True}
                        return {k_: (unret(v_) if isinstance(v_, (dict, list)) and k_ not in ("span", "res", "callee") else v_) for k_, v_ in n_.items()}
                    body = unret(body)
                    args = ([node["recv"]] if k == "MethodCall" else []) + list(node.get("args", []))
                    stmts = []
                    for p_, a_ in zip(params, args):
                        # a place-like argument (`self.row_index`, `&mut self.col_index`, `buf`, a literal) is substituted
                        # for the parameter, so that rules reading field chains see through the helper; anything
                        # else is bound by a `let`
                        core_ = a_
                        while isinstance(core_, dict) and core_.get("k") in ("AddrOf", "DropTemps", "Use", "Type") or (isinstance(core_, dict) and core_.get("k") == "Unary" and core_.get("op") == "*"):
                            core_ = core_["e"]
                        place = isinstance(core_, dict) and (core_.get("k") == "Lit" or field_chain(core_) is not None)
                        if place and p_.get("k") == "Binding" and not p_.get("sub"):
                            body = subst_local(body, p_["lid"], a_)
                        else:
                            stmts.append({"k": "Let", "span": node["span"], "pat": p_, "init": a_, "inl_param": True})
                    return {"k": "BlockExpr", "span": node["span"], "ty": node.get("ty"), "inlined": c, "id": blk_id,
                            "block": {"k": "Block", "span": node["span"], "stmts": stmts, "expr": body}}
            return node
        inlined_somewhere = set()

        def mark_tried(body):
            # `helper(..)?`: an `Err(..)` returned by the helper leaves the caller as well
            for t in walk_k(body, "Match"):
                if t.get("src") != "TryDesugar":
                    continue
                sc = unwrap(t["scrut"])
                a0 = sc["args"][0] if isinstance(sc, dict) and sc.get("k") == "Call" and sc.get("args") else None
                while isinstance(a0, dict) and a0.get("k") in ("DropTemps", "Use", "Type"):
                    a0 = a0["e"]
                if isinstance(a0, dict) and a0.get("k") == "BlockExpr" and a0.get("inlined"):
                    for b in walk_k(a0, "Break"):
                        if b.get("inl_ret") and b.get("target") == a0.get("id") and isinstance(b.get("e"), dict):
                            v = unwrap(b["e"])
                            if isinstance(v, dict) and v.get("k") == "Call" and (callee(v) or "").endswith("Result::Err"):
                                b["leaves_caller"] = True
        def beta(body):
            # `keep(&cell)` where `keep` is the closure handed to an inlined helper: the closure's body with its
            # parameters replaced by the arguments
            clos = {}
            for l_ in walk_k(body, "Let"):
                i_ = l_.get("init")
                while isinstance(i_, dict) and i_.get("k") in ("DropTemps", "Use", "Type", "AddrOf"):
                    i_ = i_["e"]
                if l_.get("inl_param") and isinstance(i_, dict) and i_.get("k") == "Closure" and l_["pat"].get("k") == "Binding":
                    clos[l_["pat"]["lid"]] = i_
            if not clos:
                return body

            def rw(n_):
                if isinstance(n_, list):
                    return [rw(x) for x in n_]
                if not isinstance(n_, dict):
                    return n_
                n_ = {k_: (rw(v_) if isinstance(v_, (dict, list)) and k_ not in ("span", "res", "callee") else v_) for k_, v_ in n_.items()}
                if n_.get("k") == "Call":
                    pl_ = path_local(n_["f"]) if isinstance(n_.get("f"), dict) else None
                    c_ = clos.get(pl_[1]) if pl_ else None
                    if c_ is not None and len(c_.get("params", [])) == len(n_.get("args", [])) and all((p_.get("k") == "Binding" and not p_.get("sub")) or p_.get("k") == "Wild" for p_ in c_["params"]):
                        b_ = c_["body"]
                        for p_, a_ in zip(c_["params"], n_["args"]):
                            if p_.get("k") == "Wild":
                                continue    # `|_| true`: the argument (a place or a field of one) is not looked at
                            b_ = subst_local(b_, p_["lid"], a_)
                        return {"k": "BlockExpr", "span": n_["span"], "ty": n_.get("ty"), "beta": True, "block": {"k": "Block", "span": n_["span"], "stmts": [], "expr": b_}}
                return n_
            return rw(body)
        for f in self.fns:
            if f.name in new:
                continue
            f.raw["body"] = beta(inline(f.raw["body"], 0, frozenset([f.name])))
            mark_tried(f.raw["body"])
        for f in self.fns:
            if f.name in new:
                continue
            for b in walk(f.raw["body"]):
                if b.get("k") == "BlockExpr" and b.get("inlined"):
                    inlined_somewhere.add(b["inlined"])
        # a helper that is seen through its call sites is not also analysed on its own: its sites, loops and tables
        # belong to the functions it was extracted from (`fn(name)` still finds it)
        if not os.environ.get("CALAMIR_KEEP_HELPERS"):
            self.helper_fns = [f for f in self.fns if f.name in inlined_somewhere]
            self.fns = [f for f in self.fns if f.name not in inlined_somewhere]

    @staticmethod
    def _is_test(h):
        return "::tests::" in h["def"] or "::test::" in h["def"]

    def fn(self, name):
        """Unique fn with exactly this normalised name, or None."""
        v = self.by_name.get(name)
        if v and len(v) == 1:
            return v[0]
        return None

    def fns_like(self, suffix):
        return [f for f in self.fns if f.name.endswith(suffix)]

    def fns_in(self, *files):
        return [f for f in self.fns if f.file in files]

    def user_fns(self):
        """Functions written in the source (not derive expansions)."""
        return [f for f in self.fns if not f.raw["span"].get("mac")]


_SRC_CACHE = {}


def src_line(file, line, repo=None):
    repo = repo or REPO
    key = (repo, file)
    if key not in _SRC_CACHE:
        try:
            with open(os.path.join(repo, file), errors="replace") as fh:
                _SRC_CACHE[key] = fh.read().split("\n")
        except OSError:
            _SRC_CACHE[key] = []
    ls = _SRC_CACHE[key]
    if 1 <= line <= len(ls):
        return ls[line - 1].strip()
    return ""


# ----------------------------------------------------------------------------------------------
# structural shapes (for sibling comparison)


def shape(node, env=None):
    """A nested tuple describing the structure of a HIR subtree: node kinds, operators, literal
    values, field names, resolved callees/paths.  Locals are numbered by first occurrence so that
    a consistent renaming does not change the shape.  Spans, ids and types are ignored."""
    if env is None:
        env = {}
    if isinstance(node, list):
        return tuple(shape(x, env) for x in node)
    if not isinstance(node, dict):
        return node
    k = node.get("k")
    if k is None:
        # arm / field record etc.
        return tuple((key, shape(node[key], env)) for key in sorted(node) if key not in ("span", "ty", "aty", "id"))
    if k in ("DropTemps", "Use", "Type"):
        return shape(node["e"], env)
    items = [k]
    if k == "Path":
        r = node.get("res", {})
        if "local" in r:
            lid = r["lid"]
            if lid not in env:
                env[lid] = len(env)
            return ("local", env[lid])
        if r.get("cval") is not None:
            return ("const", r.get("cval"))      # a named constant and the literal it stands for have one shape
        return ("path", norm(r.get("ctor_of") or r.get("def")), None)
    if k == "Binding":
        lid = node["lid"]
        if lid not in env:
            env[lid] = len(env)
        return ("bind", env[lid], shape(node.get("sub"), env) if node.get("sub") else None)
    if k == "Lit":
        v = node["v"]
        if isinstance(v, dict) and v.get("lit") in ("int", "uint", "float", "bool", None) and v.get("v") is not None:
            return ("const", v.get("v"))
        return ("lit", v.get("lit"), v.get("v")) if isinstance(v, dict) else ("lit", None)
    if k in ("MethodCall", "Binary", "Unary", "Index", "AssignOp"):
        items.append(callee(node) if k == "MethodCall" else node.get("op"))
        if k == "MethodCall":
            items.append(node.get("name"))
    if k == "Call" and node.get("resolved"):
        items.append(norm(node["resolved"]))
    if k in ("Field",):
        items.append(node.get("name"))
    if k in ("Struct", "TupleStruct"):
        r = node.get("res", {})
        items.append(norm(r.get("ctor_of") or r.get("def")))
    if k == "PLit":
        e = node["e"]
        if "lit" in e:
            return ("plit", e.get("lit"), e.get("v"))
        return ("ppath", norm(e["res"].get("ctor_of") or e["res"].get("def")))
    if k in ("Break", "Continue"):
        items.append(node.get("label"))
    for key in node:
        if key in ("span", "ty", "aty", "id", "k", "res", "callee", "name", "op", "src", "label", "target", "def", "resolved", "mode", "lid"):
            continue
        v = node[key]
        if isinstance(v, (dict, list)):
            items.append((key, shape(v, env)))
        elif key in ("mut", "inclusive", "dd"):
            items.append((key, v))
    return tuple(items)


def specialise(node, lid, value, pat_keys):
    """copy of `node` in which every nested `match` on local `lid` is replaced by the body of the arm that the constant
    `value` selects (first arm whose literal keys contain it, else the first catch-all arm) -- used when several token
    classes share one outer arm and an inner `match` on the same scrutinee tells them apart"""
    if isinstance(node, list):
        return [specialise(x, lid, value, pat_keys) for x in node]
    if not isinstance(node, dict):
        return node
    if node.get("k") == "Match" and node.get("src") not in ("ForLoopDesugar", "TryDesugar"):
        sc = path_local(peel(node["scrut"])) if isinstance(peel(node["scrut"]), dict) and peel(node["scrut"]).get("k") == "Path" else None
        if sc and sc[1] == lid:
            chosen = None
            for a in node.get("arms", []):
                ks, ca = pat_keys(a["pat"])
                hit = any(k == ("int", value) or (k[0] == "range" and k[1] is not None and k[2] is not None and k[1] <= value <= k[2]) for k in ks)
                if hit or (ca and a.get("guard") is None):
                    chosen = a
                    break
            if chosen is not None and chosen.get("guard") is None:
                return specialise(chosen["body"], lid, value, pat_keys)
    out = {k: (specialise(v, lid, value, pat_keys) if isinstance(v, (dict, list)) and k not in ("span", "res", "callee") else v) for k, v in node.items()}
    if out.get("k") == "If":
        # `if matches!(ptg, A | B) { x } else { y }` after the scrutinee was resolved: keep the branch taken
        c = lit_value(out["cond"])
        if c is True:
            return out["then"]
        if c is False and out.get("els") is not None:
            return out["els"]
    return out
