"""Run the calamir driver over /repo (or another tree) and cache the fact files.

Facts are keyed by a hash of the analysed tree (Cargo.toml, Cargo.lock, src/**) and of the driver
sources, so every check sees the *current* working tree and concurrent checks share one extraction.
Nothing lives in /tmp: cache and cargo target directories are under /verif/.cache.
"""
import fcntl
import hashlib
import json
import os
import shutil
import subprocess
import sys
import time

VERIF = os.path.dirname(os.path.dirname(os.path.abspath(__file__)))
CACHE = os.environ.get("CALAMIR_CACHE", os.path.join(VERIF, ".cache"))
DRIVER_DIR = os.path.join(VERIF, "driver")
DRIVER = os.path.join(DRIVER_DIR, "target", "release", "calamir")

CONFIGS = {
    "default": [],
    "dates": ["--features", "dates"],
    "picture": ["--features", "picture"],
    "dates_picture": ["--features", "dates,picture"],
}


def _hash_tree(repo):
    h = hashlib.sha256()
    files = []
    for name in ("Cargo.toml", "Cargo.lock"):
        files.append(os.path.join(repo, name))
    for root, dirs, fs in os.walk(os.path.join(repo, "src")):
        dirs.sort()
        for f in sorted(fs):
            files.append(os.path.join(root, f))
    for root, dirs, fs in os.walk(os.path.join(DRIVER_DIR, "src")):
        dirs.sort()
        for f in sorted(fs):
            files.append(os.path.join(root, f))
    for p in files:
        try:
            with open(p, "rb") as fh:
                # relative names: a scratch copy with the same content shares the cache entry
                rel = os.path.relpath(p, repo) if p.startswith(repo + os.sep) else os.path.relpath(p, DRIVER_DIR)
                h.update(rel.encode())
                h.update(b"\0")
                h.update(fh.read())
        except FileNotFoundError:
            h.update(os.path.basename(p).encode() + b"\0missing")
    return h.hexdigest()[:20]


def nightly_sysroot():
    return subprocess.check_output(["rustc", "+nightly", "--print", "sysroot"], text=True).strip()


def build_driver():
    env = dict(os.environ, CARGO_NET_OFFLINE="true")
    r = subprocess.run(["cargo", "build", "--release", "--offline"], cwd=DRIVER_DIR, env=env,
                       stdout=subprocess.PIPE, stderr=subprocess.STDOUT, text=True)
    if r.returncode != 0 or not os.path.exists(DRIVER):
        sys.stderr.write(r.stdout)
        raise SystemExit("calamir: driver build failed")


def ensure_facts(repo="/repo", config="default", crate="calamine"):
    """Return (path to fact file, source hash, seconds spent extracting or 0.0)."""
    repo = os.path.abspath(repo)
    if not os.path.exists(DRIVER):
        build_driver()
    h = _hash_tree(repo)
    outdir = os.path.join(CACHE, "facts", h, config)
    out = os.path.join(outdir, crate + ".json")
    if os.path.exists(out):
        return out, h, 0.0
    os.makedirs(outdir, exist_ok=True)
    lockp = os.path.join(CACHE, "lock-" + config)
    with open(lockp, "w") as lk:
        fcntl.flock(lk, fcntl.LOCK_EX)
        if os.path.exists(out):
            return out, h, 0.0
        t0 = time.time()
        target = os.path.join(CACHE, "target-" + config)
        # cargo's freshness cache would skip the wrapper: drop the analysed crate's fingerprints
        for prof in ("debug",):
            fp = os.path.join(target, prof, ".fingerprint")
            if os.path.isdir(fp):
                for d in os.listdir(fp):
                    if d.startswith(crate + "-"):
                        shutil.rmtree(os.path.join(fp, d), ignore_errors=True)
        env = dict(os.environ)
        env.update({
            "CARGO_NET_OFFLINE": "true",
            "LD_LIBRARY_PATH": nightly_sysroot() + "/lib" + (":" + env["LD_LIBRARY_PATH"] if env.get("LD_LIBRARY_PATH") else ""),
            "RUSTFLAGS": "-Zmir-opt-level=0 -Awarnings",
            "RUSTC_WORKSPACE_WRAPPER": DRIVER,
            "CALAMIR_OUT": outdir,
            "CALAMIR_CRATES": crate,
            "CARGO_TARGET_DIR": target,
        })
        env.pop("RUSTC_WRAPPER", None)
        cmd = ["cargo", "+nightly", "check", "--offline", "--lib"] + CONFIGS[config]
        r = subprocess.run(cmd, cwd=repo, env=env, stdout=subprocess.PIPE, stderr=subprocess.STDOUT, text=True)
        if r.returncode != 0 or not os.path.exists(out):
            sys.stderr.write(r.stdout[-6000:])
            raise SystemExit("calamir: extraction failed for config %s (the tree must compile)" % config)
        if os.path.getmtime(out) < t0 - 1:
            raise SystemExit("calamir: stale fact file %s" % out)
        _prune(os.path.join(CACHE, "facts"), keep=h)
        return out, h, time.time() - t0


def _prune(root, keep, maxn=150):
    try:
        ds = [(os.path.getmtime(os.path.join(root, d)), d) for d in os.listdir(root) if d != keep]
    except FileNotFoundError:
        return
    ds.sort(reverse=True)
    for _, d in ds[maxn:]:
        shutil.rmtree(os.path.join(root, d), ignore_errors=True)


if __name__ == "__main__":
    cfgs = sys.argv[1:] or ["default"]
    for c in cfgs:
        p, h, s = ensure_facts(config=c)
        print(c, p, h, "%.1fs" % s)
