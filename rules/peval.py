"""A small partial evaluator over calamir MIR: constants are computed, everything read from the input is Unknown,
branches on Unknown fork.  Used for rules about constant-bounded loops (how many bytes a varint decoder can read,
which shift amounts it applies).  No program input exists anywhere: this is constant propagation with path
enumeration, bounded by `max_paths` / `max_steps`; hitting a bound makes the caller fail closed."""

UNK = None


class Bound(Exception):
    pass


def _is_int(v):
    return isinstance(v, int) and not isinstance(v, bool)


class Path:
    __slots__ = ("env", "events", "steps")

    def __init__(self, env=None, events=None, steps=0):
        self.env = env or {}
        self.events = events or []
        self.steps = steps

    def fork(self):
        env = {}
        for k, v in self.env.items():
            env[k] = list(v) if isinstance(v, list) else v
        return Path(env, list(self.events), self.steps)


def _read_place(p, place):
    v = p.env.get(place["l"], UNK)
    for e in place.get("p") or []:
        if e == "*":
            if isinstance(v, tuple) and v and v[0] == "ref":
                v = p.env.get(v[1], UNK)
            else:
                return UNK
        elif isinstance(e, dict) and "dc" in e:
            # downcast: Option value ("some", x) / ("none",)
            continue
        elif isinstance(e, dict) and "f" in e:
            if isinstance(v, tuple) and v and v[0] == "tuple":
                v = v[1][e["f"]] if e["f"] < len(v[1]) else UNK
            elif isinstance(v, tuple) and v and v[0] == "some" and e["f"] == 0:
                v = v[1]
            elif isinstance(v, list) and v and v[0] == "range":
                v = v[1 + e["f"]] if e["f"] < 2 else UNK
            else:
                return UNK
        else:
            return UNK
    return v


def _operand(p, o):
    if "const" in o:
        c = o["const"]
        if "int" in c:
            return c["int"]
        if c.get("ty") == "bool" and "bool" in c:
            return 1 if c["bool"] else 0
        return UNK
    pl = o.get("copy") or o.get("move")
    if pl is None:
        return UNK
    return _read_place(p, pl)


_BIN = {
    "Add": lambda a, b: a + b, "Sub": lambda a, b: a - b, "Mul": lambda a, b: a * b,
    "BitAnd": lambda a, b: a & b, "BitOr": lambda a, b: a | b, "BitXor": lambda a, b: a ^ b,
    "Shl": lambda a, b: a << b if 0 <= b < 128 else None, "Shr": lambda a, b: a >> b if 0 <= b < 128 else None,
    "Lt": lambda a, b: int(a < b), "Le": lambda a, b: int(a <= b), "Gt": lambda a, b: int(a > b), "Ge": lambda a, b: int(a >= b),
    "Eq": lambda a, b: int(a == b), "Ne": lambda a, b: int(a != b),
    "Div": lambda a, b: a // b if b else None, "Rem": lambda a, b: a % b if b else None,
}


def _rvalue(p, rv, on_event):
    k = rv.get("k")
    if k == "Use":
        return _operand(p, rv["a"])
    if k == "Cast":
        return _operand(p, rv["a"]) if _is_int(_operand(p, rv["a"])) else UNK
    if k == "BinaryOp":
        a, b = _operand(p, rv["a"]), _operand(p, rv["b"])
        op = rv["op"]
        base = op.replace("WithOverflow", "").replace("Unchecked", "")
        if base in ("Shl", "Shr"):
            on_event(p, (base, b))
        if base == "BitAnd" and (_is_int(a) or _is_int(b)):
            on_event(p, ("mask", a if _is_int(a) else b))
        if _is_int(a) and _is_int(b) and base in _BIN:
            r = _BIN[base](a, b)
            r = UNK if r is None else r
        else:
            r = UNK
            # x & 0 == 0, comparisons of masked unknowns stay unknown
        if op.endswith("WithOverflow"):
            return ("tuple", [r, 0])
        return r
    if k == "UnaryOp":
        a = _operand(p, rv["a"]) if "a" in rv else UNK
        if _is_int(a) and rv.get("op") == "Not":
            return int(not a) if a in (0, 1) else UNK
        if _is_int(a) and rv.get("op") == "Neg":
            return -a
        return UNK
    if k == "Ref":
        pl = rv["place"]
        base = pl["l"]
        proj = pl.get("p") or []
        if not proj:
            return ("ref", base)
        if proj == ["*"]:
            v = p.env.get(base, UNK)
            return v if isinstance(v, tuple) and v and v[0] == "ref" else UNK
        return UNK
    if k == "Aggregate":
        ops = [_operand(p, o) for o in rv.get("ops", [])]
        if (rv.get("adt") or "").endswith("ops::range::Range") and len(ops) == 2:
            return ["range", ops[0], ops[1]]
        if rv.get("ak") == "Tuple":
            return ("tuple", ops)
        if rv.get("ak") == "Array" and ops and all(_is_int(o) for o in ops):
            # `[7, 14, 21]` about to be iterated: the values as a tuple (immutable) and a cursor
            return ["arriter", tuple(ops), 0]
        return UNK
    if k == "Discriminant":
        v = _read_place(p, rv["place"])
        if isinstance(v, tuple) and v:
            if v[0] == "some":
                return 1
            if v[0] == "none":
                return 0
        return UNK
    return UNK


def explore(mir, on_call=None, max_paths=4000, max_steps=600):
    """Enumerate paths from bb0.  `on_call(path, term, args)` may return a value for the call's destination (default
    Unknown) and may append to path.events.  Returns the list of finished paths [(how, events)] where how is
    'return' or 'diverge'."""
    blocks = mir["blocks"]
    done = []

    def on_event(p, ev):
        p.events.append(ev)

    work = [(0, Path())]
    while work:
        bi, p = work.pop()
        while True:
            p.steps += 1
            if p.steps > max_steps:
                raise Bound("path longer than %d blocks" % max_steps)
            b = blocks[bi]
            for s in b["stmts"]:
                if s.get("k") != "Assign":
                    continue
                v = _rvalue(p, s["rv"], on_event)
                pl = s["place"]
                if not pl.get("p"):
                    p.env[pl["l"]] = v
                elif pl.get("p") == ["*"]:
                    r = p.env.get(pl["l"])
                    if isinstance(r, tuple) and r and r[0] == "ref":
                        p.env[r[1]] = v
                else:
                    # partial write: forget the base
                    p.env[pl["l"]] = UNK
            t = b.get("term") or {}
            k = t.get("k")
            if k in ("Goto", "Drop", "Assert", "FalseEdge", "FalseUnwind"):
                bi = t["t"]
                continue
            if k == "Call":
                args = [_operand(p, a) for a in t.get("args", [])]
                name = t.get("resolved") or t.get("callee") or ""
                v = UNK
                if name.endswith("IntoIterator>::into_iter") or name.endswith("IntoIterator::into_iter") or (name.endswith("::into_iter") and "IntoIterator for [T; N]" in name):
                    v = args[0] if args and isinstance(args[0], list) else UNK
                elif "Iterator for core::ops::range::Range" in name and name.endswith("::next") or name.endswith("range::Range<i32> as core::iter::traits::iterator::Iterator>::next"):
                    r = args[0] if args else UNK
                    tgt = p.env.get(r[1]) if isinstance(r, tuple) and r and r[0] == "ref" else None
                    if isinstance(tgt, list) and tgt[0] == "range" and _is_int(tgt[1]) and _is_int(tgt[2]):
                        if tgt[1] < tgt[2]:
                            v = ("some", tgt[1])
                            tgt[1] += 1
                        else:
                            v = ("none",)
                elif "array::iter::IntoIter" in name and name.endswith("::next"):
                    r = args[0] if args else UNK
                    tgt = p.env.get(r[1]) if isinstance(r, tuple) and r and r[0] == "ref" else None
                    if isinstance(tgt, list) and tgt[0] == "arriter":
                        if tgt[2] < len(tgt[1]):
                            v = ("some", tgt[1][tgt[2]])
                            tgt[2] += 1
                        else:
                            v = ("none",)
                elif on_call is not None:
                    v = on_call(p, t, args)
                if t.get("dest") is not None and not t["dest"].get("p"):
                    p.env[t["dest"]["l"]] = v
                if t.get("t") is None:
                    done.append(("diverge", p.events))
                    break
                bi = t["t"]
                continue
            if k == "SwitchInt":
                d = _operand(p, t["discr"])
                if _is_int(d):
                    nxt = t["otherwise"]
                    for val, tg in zip(t["vals"], t["tgts"]):
                        if val == d:
                            nxt = tg
                    bi = nxt
                    continue
                tgts = list(t["tgts"]) + [t["otherwise"]]
                tgts = [x for x in dict.fromkeys(tgts) if (blocks[x].get("term") or {}).get("k") != "Unreachable" or blocks[x]["stmts"]]
                if len(done) + len(work) + len(tgts) > max_paths:
                    raise Bound("more than %d paths" % max_paths)
                for tg in tgts[1:]:
                    work.append((tg, p.fork()))
                bi = tgts[0]
                continue
            if k == "Return":
                done.append(("return", p.events))
                break
            done.append(("diverge", p.events))
            break
    return done
