"""C06 dataflow rules over MIR (R-INDEX, R-ARITH, R-ALLOC, R-AMP, R-PANIC) -- see mirflow.py."""
import os
from collections import defaultdict

from . import mirflow

C06_FILES = {"src/cfb.rs", "src/vba.rs", "src/xls.rs", "src/xlsb/mod.rs", "src/xlsb/cells_reader.rs", "src/xlsx/mod.rs",
             "src/xlsx/cells_reader.rs", "src/ods.rs", "src/utils.rs", "src/auto.rs"}
# functions outside those files that receive file-derived values directly from the readers
C06_EXTRA_FNS = ("Dimensions::len", "Range::from_sparse")

_cache = {}


def analyse(ctx, cfg):
    F = ctx.facts(cfg)
    if F.path in _cache:
        return _cache[F.path]
    P = mirflow.Program(F)
    names = [n for n, r in P.runs.items() if r.body["span"]["f"] in C06_FILES or n in C06_EXTRA_FNS]
    for rnd in range(6):
        changed = False
        P.arg_obs = {}
        P.arg_rel_obs = {}
        P.arg_field_obs = {}
        for n in names:
            r = P.runs[n]
            sites = r.run()
            req = {}
            for s in sites.values():
                if s.req and not s.proved:
                    if s.req[1] == "GN" or req.get(s.req[0]) == "GN":
                        req[s.req[0]] = "GN"
                    else:
                        req[s.req[0]] = max(req.get(s.req[0], 0), s.req[1])
            if req != P.requires.get(n, {}):
                P.requires[n] = req
                changed = True
            en = r.ensures_summary()
            if en != P.ensures.get(n):
                if en is None:
                    P.ensures.pop(n, None)
                else:
                    P.ensures[n] = en
                changed = True
            rr = getattr(r, "ret_range", None)
            if rr is not None and (rr[0] > -mirflow.INF or rr[1] < mirflow.INF) and P.ret_ranges.get(n) != rr and not os.environ.get("C06_NO_RETRANGE"):
                P.ret_ranges[n] = rr
                changed = True
        # argument intervals seen at the call sites of private functions (all of them are analysed: a private function
        # of a reader module is only callable from that module) bound their parameters in the next round
        pr = {n_: {i: r_ for i, r_ in o.items() if r_[0] > -mirflow.INF or r_[1] < mirflow.INF} for n_, o in P.arg_obs.items()}
        pr = {n_: o for n_, o in pr.items() if o and n_ in P.runs and P.runs[n_].body["span"]["f"] in C06_FILES}
        if pr != P.param_ranges:
            P.param_ranges = pr
            changed = True
        rl = {n_: frozenset(o) for n_, o in P.arg_rel_obs.items() if o and n_ in P.runs and P.runs[n_].body["span"]["f"] in C06_FILES}
        if rl != P.param_rel:
            P.param_rel = rl
            changed = True
        fl = {n_: dict(o) for n_, o in P.arg_field_obs.items() if o and n_ in P.runs and P.runs[n_].body["span"]["f"] in C06_FILES}
        if fl != P.param_fields:
            P.param_fields = fl
            changed = True
        if not changed:
            break
    # requirements are only discharged at analysed call sites: closures (called by iterator adaptors) and
    # functions without a direct analysed caller keep their constant needs as open sites of their own
    called = set()
    for n in names:
        for b in P.runs[n].blocks:
            t = b.get("term")
            if t and t.get("k") == "Call":
                called.add(mirflow.norm(t.get("resolved") or t.get("callee")) or "")
    for n in names:
        if ("{closure" in n and n not in P.direct_closures) or n not in called:
            for s_ in P.runs[n].sites.values():
                if s_.req and not s_.proved:
                    s_.req = None
    out = {n: P.runs[n] for n in names}
    _cache[F.path] = (P, out)
    return P, out


def site_rows(ctx, cfg):
    """[(key, site)] with stable keys: fn|KIND|signature[#n]"""
    P, runs = analyse(ctx, cfg)
    rows = []
    for n in sorted(runs):
        r = runs[n]
        cnt = defaultdict(int)
        for k, s in sorted(r.sites.items(), key=lambda kv: (kv[1].span.get("l", 0), kv[1].span.get("c", 0), str(kv[0]))):
            base = "%s|%s|%s" % (n, s.kind, s.sig)
            cnt[base] += 1
            key = base if cnt[base] == 1 else "%s#%d" % (base, cnt[base])
            rows.append((key, s, r))
    return rows


WHY = {
    "R-INDEX": "a length, offset or index taken from the file is used to slice / index without a check that dominates the access: a truncated or hostile record panics here instead of returning Err",
    "R-ARITH": "arithmetic on file-derived values can overflow (the crate is built with overflow checks in debug; in release it wraps to a wrong length/offset)",
    "R-ALLOC": "an allocation is sized by a value read from the file without a cap: a tiny file can request memory out of proportion to its size",
    "R-AMP": "a loop whose trip count is read from the file grows memory without consuming input",
    "R-PANIC": "a panicking construct is reachable with file-derived data",
}


_known = None


def _known_fns():
    global _known
    if _known is None:
        import json
        try:
            with open(os.path.join(os.path.dirname(os.path.dirname(os.path.abspath(__file__))), "tables", "known_fns.json")) as fh:
                _known = set(json.load(fh)["fns"])
        except OSError:
            _known = set()
    return _known


def _strip_closure(n):
    import re
    return re.sub(r"::\{closure#\d+\}", "", n)


def families(ctx, cfg):
    """{new function: sorted known functions it is (transitively) called from}.  A function that is not in
    tables/known_fns.json did not exist when the findings were triaged: its unproved sites are the sites of the
    code that was moved into it, so they are matched against the sites that *disappeared* from its callers."""
    P, runs = analyse(ctx, cfg)
    known = _known_fns()
    if not known:
        return {}
    callers = defaultdict(set)
    for n, r in P.runs.items():
        for b in r.blocks:
            t = b.get("term")
            if t and t.get("k") == "Call":
                c = mirflow.norm(t.get("resolved") or t.get("callee")) or ""
                callers[_strip_closure(c)].add(_strip_closure(n))
            # a fn item mentioned as a value (`chunks(6).map(Xti::from_bytes)`): whoever mentions it stands for its callers
            def _fn_values(x):
                if isinstance(x, dict):
                    c_ = x.get("const")
                    if isinstance(c_, dict) and c_.get("fn"):
                        yield mirflow.norm(c_["fn"])
                    for v_ in x.values():
                        yield from _fn_values(v_)
                elif isinstance(x, list):
                    for v_ in x:
                        yield from _fn_values(v_)
            for st in b.get("stmts", []):
                for f_ in _fn_values(st):
                    callers[_strip_closure(f_)].add(_strip_closure(n))
            if t and t.get("k") == "Call":
                for f_ in _fn_values(t.get("args")):
                    callers[_strip_closure(f_)].add(_strip_closure(n))
    fam = {}
    for n in runs:
        b = _strip_closure(n)
        if b in known:
            continue
        seen, work, out = {b}, [b], set()
        while work:
            x = work.pop()
            for c in callers.get(x, ()):
                if c in seen:
                    continue
                seen.add(c)
                if c in known:
                    out.add(c)
                else:
                    work.append(c)
        fam[b] = sorted(out)
    return fam


def r_mir(ctx, rep, kinds=("R-INDEX", "R-ARITH", "R-ALLOC", "R-AMP", "R-PANIC")):
    n_sites = 0
    seen_keys = set()
    for cfg in ctx.configs():
        fam = families(ctx, cfg)
        new_short = {f.rsplit("::", 1)[-1]: f for f in fam}
        for key, s, r in site_rows(ctx, cfg):
            if s.kind not in kinds:
                continue
            if key in seen_keys:
                continue
            seen_keys.add(key)
            n_sites += 1
            if s.proved:
                rep.holds(s.kind, key, s.where, s.detail)
            elif s.req:
                rep.holds(s.kind, key, s.where, "constant length requirement of a private helper: checked at each call site instead (%s)" % s.detail, nontrivial=False)
            elif not s.tainted:
                rep.holds(s.kind, key, s.where, "operands are not file-derived (out of scope): " + s.detail, nontrivial=False)
            else:
                facts = None
                fnb = _strip_closure(key.split("|", 1)[0])
                if fnb in fam:
                    facts = {"new_fn": fnb, "family": fam[fnb]}
                elif s.sig.startswith("call ") and s.sig.split(" ")[1] in new_short:
                    # the constant length need of a new helper, reported at its call site in an existing function
                    facts = {"new_fn": new_short[s.sig.split(" ")[1]], "family": [fnb]}
                rep.violation(s.kind, key, s.where, "%s: %s.  %s" % (s.fn, s.detail, WHY[s.kind]), facts=facts)
    try:
        P0, _ = analyse(ctx, ctx.configs()[0])
        rep.notes.append("debug_assert! sites counted and not reported (debug-only assertions, DESIGN.md 19g): %d" % getattr(P0, "debug_asserts", 0))
    except Exception:  # noqa: BLE001 -- a note only
        pass
    if n_sites < 300:
        rep.anchor_missing("R-MIR", "MIR sites in the reader modules (found %d)" % n_sites)
