"""C06 dataflow rules over MIR (R-INDEX, R-ARITH, R-ALLOC, R-AMP, R-PANIC) -- see mirflow.py."""
import os
from collections import defaultdict

from . import mirflow

C06_FILES = {"src/cfb.rs", "src/vba.rs", "src/xls.rs", "src/xlsb/mod.rs", "src/xlsb/cells_reader.rs", "src/xlsx/mod.rs",
             "src/xlsx/cells_reader.rs", "src/ods.rs", "src/utils.rs", "src/auto.rs"}
# functions outside those files that receive file-derived values directly from the readers
C06_EXTRA_FNS = ("Dimensions::len", "Range::from_sparse")

_cache = {}


def analyse(ctx, cfg):
    F = ctx.facts(cfg)
    if F.path in _cache:
        return _cache[F.path]
    P = mirflow.Program(F)
    names = [n for n, r in P.runs.items() if r.body["span"]["f"] in C06_FILES or n in C06_EXTRA_FNS]
    for rnd in range(3):
        changed = False
        for n in names:
            r = P.runs[n]
            sites = r.run()
            req = {}
            for s in sites.values():
                if s.req and not s.proved:
                    req[s.req[0]] = max(req.get(s.req[0], 0), s.req[1])
            if req != P.requires.get(n, {}):
                P.requires[n] = req
                changed = True
            rr = getattr(r, "ret_range", None)
            if rr is not None and (rr[0] > -mirflow.INF or rr[1] < mirflow.INF) and P.ret_ranges.get(n) != rr and not os.environ.get("C06_NO_RETRANGE"):
                P.ret_ranges[n] = rr
                changed = True
        if not changed:
            break
    # requirements are only discharged at analysed call sites: closures (called by iterator adaptors) and
    # functions without a direct analysed caller keep their constant needs as open sites of their own
    called = set()
    for n in names:
        for b in P.runs[n].blocks:
            t = b.get("term")
            if t and t.get("k") == "Call":
                called.add(mirflow.norm(t.get("resolved") or t.get("callee")) or "")
    for n in names:
        if "{closure" in n or n not in called:
            for s_ in P.runs[n].sites.values():
                if s_.req and not s_.proved:
                    s_.req = None
    out = {n: P.runs[n] for n in names}
    _cache[F.path] = (P, out)
    return P, out


def site_rows(ctx, cfg):
    """[(key, site)] with stable keys: fn|KIND|signature[#n]"""
    P, runs = analyse(ctx, cfg)
    rows = []
    for n in sorted(runs):
        r = runs[n]
        cnt = defaultdict(int)
        for k, s in sorted(r.sites.items(), key=lambda kv: (kv[1].span.get("l", 0), kv[1].span.get("c", 0), str(kv[0]))):
            base = "%s|%s|%s" % (n, s.kind, s.sig)
            cnt[base] += 1
            key = base if cnt[base] == 1 else "%s#%d" % (base, cnt[base])
            rows.append((key, s, r))
    return rows


WHY = {
    "R-INDEX": "a length, offset or index taken from the file is used to slice / index without a check that dominates the access: a truncated or hostile record panics here instead of returning Err",
    "R-ARITH": "arithmetic on file-derived values can overflow (the crate is built with overflow checks in debug; in release it wraps to a wrong length/offset)",
    "R-ALLOC": "an allocation is sized by a value read from the file without a cap: a tiny file can request memory out of proportion to its size",
    "R-AMP": "a loop whose trip count is read from the file grows memory without consuming input",
    "R-PANIC": "a panicking construct is reachable with file-derived data",
}


def r_mir(ctx, rep, kinds=("R-INDEX", "R-ARITH", "R-ALLOC", "R-AMP", "R-PANIC")):
    n_sites = 0
    seen_keys = set()
    for cfg in ctx.configs():
        for key, s, r in site_rows(ctx, cfg):
            if s.kind not in kinds:
                continue
            if key in seen_keys:
                continue
            seen_keys.add(key)
            n_sites += 1
            if s.proved:
                rep.holds(s.kind, key, s.where, s.detail)
            elif s.req:
                rep.holds(s.kind, key, s.where, "constant length requirement of a private helper: checked at each call site instead (%s)" % s.detail, nontrivial=False)
            elif not s.tainted:
                rep.holds(s.kind, key, s.where, "operands are not file-derived (out of scope): " + s.detail, nontrivial=False)
            else:
                rep.violation(s.kind, key, s.where, "%s: %s.  %s" % (s.fn, s.detail, WHY[s.kind]))
    if n_sites < 300:
        rep.anchor_missing("R-MIR", "MIR sites in the reader modules (found %d)" % n_sites)
