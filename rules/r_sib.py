"""Sibling-agreement and delegation rules.

R-SIB-XLSX  XlsxCellReader::next_cell / next_formula move the row/column cursor identically
R-SIB-XLSB  XlsbCellsReader::next_cell / next_formula agree on record framing, row state, ids
R-DELEG     every Reader/ReaderRef method of Sheets forwards to the same method of the wrapped reader
R-TIGHT     the lazy cell filters of worksheet_range_ref drop Empty, keep rows >= n, pad at row n
R-AT        worksheet_range_at(n) & co use `n` itself
R-WS        worksheets() goes through worksheet_range (or clones the field worksheet_range returns)
R-NOTFOUND  an unknown sheet name reaches WorksheetNotFound
"""
from .kit import (cond_exprs, walk, walk_anc, walk_k, unwrap, peel, loc, callee, callee_decl, path_local, path_def, lit_value, pat_bindings,
                  pat_is_catchall, pat_variant, pat_covers, norm, norm_ty, field_chain, shape, always_leaves)
from .r_xml import event_matches, guard_literals, _arm_event_variant
from .r_tables import pat_keys, variants_built


def _self_assigns(e):
    """[(field, op, rhs)] for `self.<field> = rhs` / `self.<field> op= rhs` inside e."""
    out = []
    for n in walk(e):
        k = n.get("k")
        if k in ("Assign", "AssignOp"):
            fc = field_chain(n["l"])
            if fc and fc[0] == "self" and fc[1]:
                out.append((".".join(fc[1]), "=" if k == "Assign" else n["op"], n["r"], n))
    return out


def _rhs_desc(fn, rhs, inits):
    v = lit_value(rhs)
    if v is not None:
        return ("lit", v)
    pl = path_local(rhs)
    seen = set()
    e = rhs
    while pl and pl[1] in inits and pl[1] not in seen:
        seen.add(pl[1])
        e = inits[pl[1]]
        pl = path_local(e)
    calls = sorted({callee(c) for c in walk_k(e, "Call", "MethodCall") if callee(c) and not callee(c).startswith("core::")})
    if calls:
        return ("from", tuple(calls))
    return ("expr", shape(e))


def _inits(fn):
    """lid -> init expr (also for bindings destructured from tuples: the whole init)."""
    out = {}
    for n in walk(fn.body):
        if n.get("k") == "Let" and n.get("init") is not None:
            for _, lid in pat_bindings(n["pat"]):
                out[lid] = n["init"]
    return out


def _self_reads(e):
    out = set()
    for n in walk_k(e, "Field"):
        fc = field_chain(n)
        if fc and fc[0] == "self" and fc[1]:
            out.add(fc[1][0])
    return out


def r_sib_xlsx(ctx, rep):
    F = ctx.facts("default")
    a = F.fn("xlsx::cells_reader::XlsxCellReader::next_cell")
    b = F.fn("xlsx::cells_reader::XlsxCellReader::next_formula")
    if not a or not b:
        rep.anchor_missing("R-SIB-XLSX", "XlsxCellReader::next_cell / next_formula")
        return
    summ = {}
    for fn in (a, b):
        ems = event_matches(fn)
        if not ems:
            rep.anchor_missing("R-SIB-XLSX", "event match in %s" % fn.name)
            return
        top = ems[0]
        inits = _inits(fn)
        ctxs = {}
        for arm in top["match"]["arms"]:
            ev = _arm_event_variant(arm, top["wrapped"])
            gl = tuple(sorted(guard_literals(arm)))
            if ev is None:
                continue
            effects = set()
            for field, op, rhs, node in _self_assigns(arm["body"]):
                effects.add((field, op, _rhs_desc(fn, rhs, inits)))
            # where does the returned cell position come from?  (self.row_index, self.col_index) fallback
            reads = tuple(sorted(_self_reads(arm["body"]) & {"row_index", "col_index"}))
            leaves = always_leaves(arm["body"], top["targets"])
            ctxs[(ev, gl)] = {"effects": effects, "cursor_reads": reads, "leaves": leaves, "arm": arm}
            if any(g in ("row", b"row") or (isinstance(g, str) and g.strip("b\"'") == "row") for g in gl):
                # the <row> / </row> arms only move the cursor: the closing tag is what advances row_index, so an arm that
                # pulls events itself (read_to_end_into, a nested read_event_into) makes later rows keep a stale index
                pulls = [m for m in walk_k(arm["body"], "MethodCall") if m["name"].startswith("read_") and (field_chain(m["recv"]) or (None, []))[1][:1] == ["xml"]]
                pulls += [c for c in walk_k(arm["body"], "Call") if any((field_chain(x) or (None, []))[1][:1] == ["xml"] for arg in c.get("args", []) for x in walk(arg) if isinstance(x, dict) and x.get("k") == "Field")]
                kk = "XlsxCellReader|R-SIB-XLSX|%s row arm pulls no events|%s" % (ev, fn.name.rsplit("::", 1)[-1])
                if pulls:
                    rep.violation("R-SIB-XLSX", kk, loc(pulls[0]), "%s: the %s arm for `row` consumes reader events itself: the `</row>` that advances row_index (and resets col_index) can be swallowed, so rows without an `r` attribute are reported on the wrong row" % (fn.name, ev))
                else:
                    rep.holds("R-SIB-XLSX", kk, loc(arm), "the row arm leaves the event stream to the main loop")
        summ[fn.name] = ctxs
    ca, cb = summ[a.name], summ[b.name]
    cursor_fields = set()
    for c in list(ca.values()) + list(cb.values()):
        for f, op, d in c["effects"]:
            cursor_fields.add(f)
    for key in sorted(set(ca) | set(cb), key=str):
        k = "XlsxCellReader|R-SIB-XLSX|%s %s" % (key[0], "/".join(key[1]) or "-")
        if key not in ca or key not in cb:
            miss = b.name if key in ca else a.name
            have = ca.get(key) or cb.get(key)
            if have["effects"] or have["cursor_reads"]:
                rep.violation("R-SIB-XLSX", k, loc(have["arm"]), "the arm for event %s %s exists in only one of next_cell/next_formula (missing in %s) although it moves the cursor: values and formulas would be reported at different positions" % (key[0], list(key[1]), miss))
            continue
        ea, eb = ca[key]["effects"], cb[key]["effects"]
        if ea != eb:
            only_a = sorted(map(_eff_txt, ea - eb))
            only_b = sorted(map(_eff_txt, eb - ea))
            rep.violation("R-SIB-XLSX", k, loc(cb[key]["arm"]),
                          "cursor effects differ in the arm for event %s %s: next_cell only: %s; next_formula only: %s.  The two walkers must advance row_index/col_index identically or a formula is reported at a different cell than its value (implicit cell references)" % (key[0], list(key[1]), only_a, only_b))
        elif ca[key]["cursor_reads"] != cb[key]["cursor_reads"]:
            rep.violation("R-SIB-XLSX", k, loc(cb[key]["arm"]), "the walkers read different cursor fields in the arm for %s %s: %s vs %s" % (key[0], list(key[1]), ca[key]["cursor_reads"], cb[key]["cursor_reads"]))
        elif ca[key]["leaves"] != cb[key]["leaves"]:
            rep.violation("R-SIB-XLSX", k, loc(cb[key]["arm"]), "one walker leaves the loop in the arm for %s %s and the other does not" % (key[0], list(key[1])))
        else:
            rep.holds("R-SIB-XLSX", k, loc(ca[key]["arm"]), "equal cursor effects %s" % sorted(map(_eff_txt, ea)), nontrivial=bool(ea or ca[key]["cursor_reads"]))
    # the cursor must actually be driven: both fields written somewhere
    for f in ("row_index", "col_index"):
        k = "XlsxCellReader|R-SIB-XLSX|writes %s" % f
        ops = {(op, d) for c in ca.values() for (ff, op, d) in c["effects"] if ff == f}
        if any(op == "+=" for op, d in ops) and any(op == "=" for op, d in ops):
            rep.holds("R-SIB-XLSX", k, loc(a.raw), "%s is both advanced (+=) and re-anchored (=)" % f)
        else:
            rep.violation("R-SIB-XLSX", k, loc(a.raw), "cursor field %s is not both advanced and re-anchored in next_cell (found %s): cells without an `r` attribute would not be positioned" % (f, sorted(map(str, ops))))


def _eff_txt(e):
    f, op, d = e
    return "%s %s %s" % (f, op, d[1] if d[0] != "expr" else "<expr>")


# ----------------------------------------------------------------------------------------------


def _typ_match(fn):
    """The `match self.typ { .. }` dispatch (int-literal arms) of an xlsb walker."""
    best = None
    for n, anc in walk_anc(fn.body):
        if n.get("k") != "Match":
            continue
        ints = [k for a in n["arms"] for k in pat_keys(a["pat"])[0] if k[0] == "int"]
        if len(ints) >= 3 and (best is None or len(ints) > best[2]):
            best = (n, anc, len(ints))
    return best


def r_sib_xlsb(ctx, rep):
    F = ctx.facts("default")
    a = F.fn("xlsb::cells_reader::XlsbCellsReader::next_cell")
    b = F.fn("xlsb::cells_reader::XlsbCellsReader::next_formula")
    if not a or not b:
        rep.anchor_missing("R-SIB-XLSB", "XlsbCellsReader::next_cell / next_formula")
        return
    ma, mb = _typ_match(a), _typ_match(b)
    if not ma or not mb:
        rep.anchor_missing("R-SIB-XLSB", "record-type dispatch in the xlsb walkers")
        return
    info = {}
    for fn, (m, anc, _) in ((a, ma), (b, mb)):
        loop = next((x for x in reversed(anc) if x.get("k") == "Loop"), None)
        targets = {loop.get("id")} if loop else set()
        value_ids, formula_ids, row_arms, default_arm = {}, {}, [], None
        for arm in m["arms"]:
            keys, ca = pat_keys(arm["pat"])
            ids = [k[1] for k in keys if k[0] == "int"]
            body = arm["body"]
            writes = _self_assigns(body)
            is_continue = unwrap(body).get("k") == "Continue" or (unwrap(body).get("k") == "BlockExpr" and _ends_with_continue(unwrap(body)))
            leaves = always_leaves(body, targets)
            if ca and not ids:
                default_arm = arm
                continue
            for i in ids:
                if any(f == "row" for f, op, r, n in writes):
                    pass
                elif not is_continue and not leaves:
                    value_ids[i] = arm
                    if any((callee(c) or "").endswith("parse_formula") for c in walk_k(body, "Call")):
                        formula_ids[i] = arm
            if any(f == "row" for f, op, r, n in writes):
                row_arms.append((tuple(sorted(ids)), arm))
        info[fn.name] = dict(value=value_ids, formula=formula_ids, row=row_arms, default=default_arm, m=m, loop=loop)
    ia, ib = info[a.name], info[b.name]
    # (a) every record id decoded as a formula is also decoded as a value
    for i, arm in sorted(ib["formula"].items()):
        k = "XlsbCellsReader|R-SIB-XLSB|formula-id 0x%04X" % i
        if i in ia["value"]:
            rep.holds("R-SIB-XLSB", k, loc(arm), "record 0x%04X is decoded by both walkers" % i)
        else:
            rep.violation("R-SIB-XLSB", k, loc(ia["m"]), "record 0x%04X is decoded as a formula cell by next_formula but next_cell has no value arm for it: the cell's cached value is silently dropped (a formula cell must contribute its cached value like a constant cell)" % i)
    if len(ib["formula"]) < 3:
        rep.anchor_missing("R-SIB-XLSB", "formula-record arms calling parse_formula in next_formula (found %d)" % len(ib["formula"]))
    # (b) row state: written in arms with the same ids and the same shape
    k = "XlsbCellsReader|R-SIB-XLSB|row-state"
    if len(ia["row"]) != 1 or len(ib["row"]) != 1:
        rep.violation("R-SIB-XLSB", k, loc(ia["m"]), "the current row must be written by exactly one arm in each walker (next_cell: %d arm(s), next_formula: %d arm(s))" % (len(ia["row"]), len(ib["row"])))
    else:
        (ida, arma), (idb, armb) = ia["row"][0], ib["row"][0]
        if ida != idb:
            rep.violation("R-SIB-XLSB", k, loc(armb), "the walkers update the current row on different record ids: %s vs %s" % (ida, idb))
        elif shape(arma["body"]) != shape(armb["body"]):
            rep.violation("R-SIB-XLSB", k, loc(armb), "the row-header arms of next_cell (%s) and next_formula (%s) differ structurally (different bound, operator or update): values and formulas of the same sheet would be attributed to different rows or cut off at different rows" % (loc(arma), loc(armb)))
        else:
            rep.holds("R-SIB-XLSB", k, loc(arma), "row-header arms are structurally identical (ids %s)" % (list(ida),))
    # (c) framing: exactly one read_type then one fill_buffer per iteration before the dispatch
    for fn, inf in ((a, ia), (b, ib)):
        k = "%s|R-SIB-XLSB|framing" % fn.name
        loop = inf["loop"]
        if loop is None:
            rep.anchor_missing("R-SIB-XLSB", "loop around the dispatch in %s" % fn.name)
            continue
        seq = []
        for n, anc in walk_anc(loop["body"]):
            if n is inf["m"]:
                break
            if n.get("k") == "MethodCall" and n["name"] in ("read_type", "fill_buffer", "next_skip_blocks"):
                seq.append(n["name"])
        inside = [n["name"] for n in walk_k(inf["m"], "MethodCall") if n["name"] in ("read_type", "fill_buffer", "next_skip_blocks")]
        if seq == ["read_type", "fill_buffer"] and not inside:
            rep.holds("R-SIB-XLSB", k, loc(loop), "each iteration reads one type then one payload before dispatching; no arm reads further records")
        else:
            rep.violation("R-SIB-XLSB", k, loc(loop), "%s: record framing per iteration is %s before the dispatch and %s inside arms; it must be exactly [read_type, fill_buffer] and nothing inside, otherwise an uninterpreted record shifts or drops its neighbours" % (fn.name, seq, inside))
    # (d) default arm writes nothing and continues
    for fn, inf in ((a, ia), (b, ib)):
        k = "%s|R-SIB-XLSB|default-arm" % fn.name
        d = inf["default"]
        if d is None:
            rep.violation("R-SIB-XLSB", k, loc(inf["m"]), "%s has no catch-all arm for uninterpreted records" % fn.name)
        elif _self_assigns(d["body"]) or unwrap(d["body"]).get("k") != "Continue":
            rep.violation("R-SIB-XLSB", k, loc(d), "%s: the arm for uninterpreted record kinds must be a bare `continue` (it %s)" % (fn.name, "writes reader state" if _self_assigns(d["body"]) else "does something else"))
        else:
            rep.holds("R-SIB-XLSB", k, loc(d), "uninterpreted records are skipped without touching state")
    # (e) the position tail after the loop is identical
    k = "XlsbCellsReader|R-SIB-XLSB|position-tail"
    ta, tb = _tail_shape(a, ia["loop"]), _tail_shape(b, ib["loop"])
    if ta is None or tb is None:
        rep.anchor_missing("R-SIB-XLSB", "position computation after the loop")
    elif ta != tb:
        rep.violation("R-SIB-XLSB", k, loc(b.raw), "next_cell and next_formula compute the returned cell position differently after the loop")
    else:
        rep.holds("R-SIB-XLSB", k, loc(a.raw), "both walkers build the position the same way (row state + column read from the record)")


def _ends_with_continue(b):
    blk = b["block"]
    last = blk.get("expr") or (blk["stmts"][-1].get("e") if blk.get("stmts") and blk["stmts"][-1].get("k") in ("Semi", "Expr") else None)
    return last is not None and unwrap(last).get("k") == "Continue"


def _tail_shape(fn, loop):
    """Shape of the statements after the `let value = loop {..}` statement, with the value local abstracted."""
    body = unwrap(fn.body)
    if body.get("k") != "BlockExpr":
        return None
    blk = body["block"]
    idx = None
    for i, s in enumerate(blk["stmts"]):
        if any(n is loop for n in walk(s)):
            idx = i
    if idx is None:
        return None
    env = {}
    for _, lid in pat_bindings(blk["stmts"][idx]["pat"]) if blk["stmts"][idx].get("k") == "Let" else []:
        env[lid] = "value"
    rest = blk["stmts"][idx + 1:]
    sh = [shape(s, env) for s in rest]
    # strip the generic `T` of Cell::new by ignoring types (shape ignores types already)
    return (tuple(sh), shape(blk.get("expr"), env) if blk.get("expr") else None)


# ----------------------------------------------------------------------------------------------


def r_deleg(ctx, rep):
    n = 0
    for cfg in ctx.configs():
        F = ctx.facts(cfg)
        fns = [f for f in F.fns if f.impl_self == "auto::Sheets" and f.impl_trait in ("Reader", "ReaderRef")]
        for fn in fns:
            mname = fn.name.rsplit("::", 1)[-1]
            if mname == "new":
                continue
            params = []
            for p in fn.params:
                params += [lid for nm, lid in pat_bindings(p) if nm != "self"]
            ms = [m for m in walk_k(fn.body, "Match") if path_local(m["scrut"]) and path_local(m["scrut"])[0] == "self"]
            sfx = "" if cfg == "default" else "@" + cfg
            if not ms:
                rep.violation("R-DELEG", "%s|R-DELEG|no-match" % fn.name, loc(fn.raw), "%s does not dispatch on the wrapped reader" % fn.name)
                continue
            m = ms[0]
            seen = set()
            # an or-pattern arm (`Sheets::Xls(_) | Sheets::Ods(_) => ..`) stands for one arm per alternative
            alt_arms = []
            for arm0 in m["arms"]:
                p0 = arm0["pat"]
                alts = p0["pats"] if p0.get("k") == "Or" else [p0]
                for ap in alts:
                    alt_arms.append(dict(arm0, pat=ap))
            for arm in alt_arms:
                v = pat_variant(arm["pat"])
                if not v or "Sheets::" not in v:
                    continue
                var = v.rsplit("::", 1)[1]
                seen.add(var)
                n += 1
                key = "%s|R-DELEG|%s" % (fn.name, var)
                binds = {lid for _, lid in pat_bindings(arm["pat"])}
                body = unwrap(arm["body"])
                if body.get("ty") == "!" or any((callee(c) or "").startswith("core::panicking") for c in walk_k(body, "Call")):
                    rep.holds("R-DELEG", key + sfx, loc(arm), "arm diverges (unimplemented for this format; classified by R-PANIC)", nontrivial=False)
                    continue
                ok = None
                for c in walk_k(body, "MethodCall"):
                    pl = path_local(c["recv"])
                    if pl and pl[1] in binds:
                        tgt = callee(c) or ""
                        want_ty = {"Xls": "xls::Xls", "Xlsx": "xlsx::Xlsx", "Xlsb": "xlsb::Xlsb", "Ods": "ods::Ods"}[var]
                        if c["name"] == mname and want_ty in tgt:
                            argl = [path_local(x)[1] if path_local(x) else None for x in c["args"]]
                            ok = (argl == params)
                            if not ok:
                                rep.violation("R-DELEG", key, loc(c), "%s forwards to %s with different arguments than it received" % (fn.name, tgt))
                            break
                        else:
                            ok = False
                            rep.violation("R-DELEG", key, loc(c), "%s: the %s arm calls %s instead of the wrapped reader's own `%s`: a workbook opened through auto-detection would answer differently from the format's reader" % (fn.name, var, tgt or c["name"], mname))
                            break
                if ok is None:
                    rep.violation("R-DELEG", key, loc(arm), "%s: the %s arm does not call the wrapped reader at all" % (fn.name, var))
                elif ok:
                    rep.holds("R-DELEG", key + sfx, loc(arm), "forwards to the wrapped %s::%s with the same arguments" % (var, mname))
            for var in ("Xls", "Xlsx", "Xlsb", "Ods"):
                if var not in seen:
                    rep.violation("R-DELEG", "%s|R-DELEG|%s" % (fn.name, var), loc(m), "%s has no arm for Sheets::%s" % (fn.name, var))
    rep.floor("R-DELEG", 24, "Sheets delegation arms")


# ----------------------------------------------------------------------------------------------


def _cells_pushes(fn):
    """(push node, ancestors) for Vec<Cell<..>>::push/insert calls in fn."""
    out = []
    for n, anc in walk_anc(fn.body):
        if n.get("k") == "MethodCall" and n["name"] in ("push", "insert", "extend", "push_back") and "Vec<Cell<" in norm_ty(peel(n["recv"]).get("ty", "") + peel(n["recv"]).get("aty", "")):
            out.append((n, anc))
    return out


def _is_empty_filter_arm(arm):
    """pattern Ok(Some(Cell { val: DataRef::Empty, .. })) (or without wrappers) with a body that does nothing"""
    hit = False
    for n in walk_k(arm["pat"], "Struct"):
        for f in n["fields"]:
            if f["name"] == "val":
                v = pat_variant(f["pat"])
                if v and v.endswith("DataRef::Empty"):
                    hit = True
    if not hit:
        return False
    b = unwrap(arm["body"])
    return b.get("k") == "Tup" and not b.get("es") or (b.get("k") == "BlockExpr" and not b["block"].get("stmts") and b["block"].get("expr") is None) or b.get("k") == "Continue"


def _is_empty_test(e):
    """`matches!(x.val, DataRef::Empty)` / `x.val == DataRef::Empty` / a match on x.val whose Empty arm yields true"""
    e = unwrap(e)
    if not isinstance(e, dict):
        return False
    if e.get("k") == "Match" and len(e.get("arms", [])) == 2:
        v = pat_variant(e["arms"][0]["pat"])
        sc = peel(e["scrut"])
        if v and v.endswith("DataRef::Empty") and sc.get("k") == "Field" and sc.get("name") == "val" and lit_value(e["arms"][0]["body"]) is True and lit_value(e["arms"][1]["body"]) is False:
            return True
    if e.get("k") == "Binary" and e.get("op") == "==":
        for a, b in ((e["l"], e["r"]), (e["r"], e["l"])):
            if (path_def(peel(b)) or "").endswith("DataRef::Empty") and peel(a).get("k") == "Field" and peel(a).get("name") == "val":
                return True
    return False


def _filtered_by_adapter(F, fn, n, anc):
    """`for cell in NonEmptyCells(&mut reader) { .. cells.push(cell) }`: the loop iterates a type of this crate whose own
    `Iterator::next` has the unguarded arm that discards `Cell { val: DataRef::Empty, .. }` in front of the arm that
    yields a cell"""
    from .kit import for_loops
    for it, pat, lbody, outer in for_loops(fn.body):
        if not any(x is n for x in walk(lbody)):
            continue
        ty = ((peel(it) or {}).get("ty") or "") if isinstance(it, dict) else ""
        base = ty.replace("&mut ", "").replace("&", "").split("<", 1)[0]
        if not base or base.startswith(("core::", "alloc::", "std::")):
            continue
        for g in list(F.fns) + list(getattr(F, "helper_fns", [])):
            if not g.name.endswith("::next") or not (g.impl_trait or "").endswith("Iterator") or (g.impl_self or "").split("<", 1)[0] != base:
                continue
            for m in walk_k(g.body, "Match"):
                arms = m.get("arms", [])
                for i, a in enumerate(arms):
                    if _is_empty_filter_arm(a) and a.get("guard") is None and any(
                            any(r.get("k") == "Ret" for r in walk(b["body"])) or (pat_variant(b["pat"]) or "").endswith("Ok") for b in arms[i + 1:]):
                        return True
    return False


def _empty_guarded(n, anc):
    """is node n only reached when the current cell is not Empty, by an explicit boolean test?"""
    from .kit import reach_conds
    for c in reach_conds(n, anc):
        c = unwrap(c)
        if isinstance(c, dict) and c.get("k") == "Unary" and c.get("op") == "!" and _is_empty_test(c["e"]):
            return True
    for x in anc:
        if x.get("k") == "If":
            c = unwrap(x["cond"])
            neg = c.get("k") == "Unary" and c.get("op") == "!" and _is_empty_test(c["e"])
            if neg and any(y is n for y in walk(x["then"])):
                return True
            if _is_empty_test(c) and x.get("els") is not None and any(y is n for y in walk(x["els"])):
                return True
        blk = x.get("block") if x.get("k") == "BlockExpr" else (x if x.get("k") == "Block" else None)
        if blk:
            for st in blk.get("stmts", []):
                if any(y is n for y in walk(st)):
                    break
                e = unwrap(st.get("e") or {})
                if e.get("k") == "If" and _is_empty_test(e["cond"]) and always_leaves(e["then"], {"continue"} if False else set()) is not None:
                    body = unwrap(e["then"])
                    if any(z.get("k") in ("Continue", "Ret", "Break") for z in walk(body)):
                        return True
    return False


def r_tight(ctx, rep):
    F = ctx.facts("default")
    fns = [f for f in F.fns if f.impl_trait == "ReaderRef" and f.name.endswith("worksheet_range_ref") and f.impl_self in ("xlsx::Xlsx", "xlsb::Xlsb")]
    if len(fns) != 2:
        rep.anchor_missing("R-TIGHT", "ReaderRef::worksheet_range_ref for Xlsx and Xlsb (found %d)" % len(fns))
        return
    for fn in fns:
        pushes = _cells_pushes(fn)
        n_push = 0
        row_binding = None
        # one loop for both settings: `let first_row = match header_row { FirstNonEmptyRow => 0, Row(n) => n };` and a
        # single push under `cell.pos.0 >= first_row` (row 0 keeps everything)
        merged = {}        # lid of such a local -> lids bound by its HeaderRow::Row arm
        for l_ in walk_k(fn.body, "Let"):
            i_ = unwrap(l_["init"]) if l_.get("init") is not None else None
            if isinstance(i_, dict) and i_.get("k") == "Match" and l_["pat"].get("k") == "Binding":
                zero = rown = None
                for a_ in i_.get("arms", []):
                    v_ = pat_variant(a_["pat"]) or ""
                    if v_.endswith("HeaderRow::FirstNonEmptyRow") and lit_value(a_["body"]) == 0:
                        zero = True
                    if v_.endswith("HeaderRow::Row"):
                        bl_ = {lid for _, lid in pat_bindings(a_["pat"])}
                        pl_ = path_local(a_["body"])
                        if pl_ and pl_[1] in bl_:
                            rown = bl_
                if zero and rown:
                    merged[l_["pat"]["lid"]] = rown
        for n, anc in pushes:
            if n["name"] != "push":
                continue
            n_push += 1
            # (a) Empty filtered by an earlier arm of the enclosing match
            arm_i, m = None, None
            for i in range(len(anc) - 1, -1, -1):
                if anc[i].get("k") == "Match" and anc[i].get("src") in ("Normal", None, "IfLet"):
                    m = anc[i]
                    nxt = anc[i + 1] if i + 1 < len(anc) else n
                    for j, a in enumerate(m["arms"]):
                        if any(x is n for x in walk(a["body"])):
                            arm_i = j
                    break
            key = "%s|R-TIGHT|push#%d|empty-filter" % (fn.name, n_push)
            if _filtered_by_adapter(F, fn, n, anc):
                rep.holds("R-TIGHT", key, loc(n), "cells.push takes its cells from a private iterator adapter whose `next` discards DataRef::Empty cells")
            elif _empty_guarded(n, anc):
                rep.holds("R-TIGHT", key, loc(n), "cells.push is reached only when the cell is not DataRef::Empty (explicit test)")
            elif m is not None and arm_i is not None and any(_is_empty_filter_arm(a) and a.get("guard") is None for a in m["arms"][:arm_i]):
                rep.holds("R-TIGHT", key, loc(n), "cells.push is reached only after the arm that discards DataRef::Empty cells")
            else:
                rep.violation("R-TIGHT", key, loc(n), "%s pushes a cell without first discarding DataRef::Empty cells: the range would no longer be the bounding rectangle of the non-empty cells" % fn.name)
            # (b) under HeaderRow::Row(n): guarded by pos.0 >= n
            hr = None
            for x in anc:
                if x.get("k") == "Match":
                    for a in x["arms"]:
                        v = pat_variant(a["pat"])
                        if v and v.endswith("HeaderRow::Row") and any(y is n for y in walk(a["body"])):
                            hr = (a, {lid for _, lid in pat_bindings(a["pat"])})
            if hr is None and merged:
                from .kit import reach_conds as _rc
                for ce_ in _rc(n, anc):
                    for c_ in walk_k(ce_, "Binary"):
                        for side_ in (c_["l"], c_["r"]):
                            pl_ = path_local(side_)
                            if pl_ and pl_[1] in merged:
                                hr = (None, {pl_[1]})
            if hr:
                row_binding = row_binding or hr
                key = "%s|R-TIGHT|push#%d|row-filter" % (fn.name, n_push)
                ok = False
                why = "no enclosing `if` compares the cell's row with the header row"
                from .kit import reach_conds
                for x in [{"cond": ce} for ce in reach_conds(n, anc)]:
                    if True:
                        for c in walk_k(x["cond"], "Binary"):
                            lhs_row = _is_pos_row(c["l"])
                            rhs_row = _is_pos_row(c["r"])
                            lhs_n = path_local(c["l"]) and path_local(c["l"])[1] in hr[1]
                            rhs_n = path_local(c["r"]) and path_local(c["r"])[1] in hr[1]
                            if lhs_row and rhs_n:
                                ok = c["op"] == ">="
                                why = "operator is `%s`, must be `>=`" % c["op"]
                            elif rhs_row and lhs_n:
                                ok = c["op"] == "<="
                                why = "operator is `%s`, must be `<=`" % c["op"]
                if ok:
                    rep.holds("R-TIGHT", key, loc(n), "push guarded by cell.pos.0 >= header_row")
                else:
                    rep.violation("R-TIGHT", key, loc(n), "%s (HeaderRow::Row): %s; rows below n must be dropped and row n itself kept" % (fn.name, why))
            # (d) no cell is dropped because of *where* it is, other than rows above the header row: a condition on the
            # way to the push, or the guard of an earlier arm that swallows `Some(cell)`, may mention `.pos` only as
            # the comparison of the row with the header row
            key = "%s|R-TIGHT|push#%d|position-filter" % (fn.name, n_push)
            from .kit import reach_conds
            conds = list(reach_conds(n, anc))
            if m is not None and arm_i is not None:
                for a in m["arms"][:arm_i]:
                    if a.get("guard") is not None and not _is_empty_filter_arm(a) and any(pat_variant(x) and pat_variant(x).endswith("Some") for x in walk(a["pat"]) if isinstance(x, dict) and x.get("k") in ("TupleStruct", "Variant", "Path")):
                        conds.append(a["guard"])
            bad = [c for c in conds if _pos_filter(c, hr[1] if hr else set())]
            if bad:
                rep.violation("R-TIGHT", key, loc(bad[0]), "%s: a cell is kept or dropped by a test on its position other than `row >= header row` (a cell on the last row / column of the grid, or any cell the test misjudges, silently disappears from the range)" % fn.name)
            else:
                rep.holds("R-TIGHT", key, loc(n), "no condition on the way to the push looks at the cell's position except the header-row comparison")
        if n_push < (1 if (merged and row_binding) else 2):
            rep.anchor_missing("R-TIGHT", "cells.push sites in %s (found %d)" % (fn.name, n_push))
        # (c) the pad: insert(0, Cell{pos:(n, ..), val: Empty}) guarded by first.pos.0 != n
        ins = [(n, anc) for n, anc in pushes if n["name"] == "insert"]
        key = "%s|R-TIGHT|pad" % fn.name
        if not ins or not row_binding:
            rep.violation("R-TIGHT", key, loc(fn.raw), "%s: no padding cell is inserted at the header row (the range would start at the first non-empty row >= n instead of exactly at row n)" % fn.name)
            continue
        n, anc = ins[0]
        lids = set(row_binding[1])
        for x_ in anc:          # the pad may sit under its own `if let HeaderRow::Row(n) = header_row`
            if x_.get("k") == "Match":
                for a_ in x_.get("arms", []):
                    if (pat_variant(a_["pat"]) or "").endswith("HeaderRow::Row") and any(y is n for y in walk(a_["body"])):
                        lids |= {lid for _, lid in pat_bindings(a_["pat"])}
        ok_idx = lit_value(n["args"][0]) == 0
        ok_row = False
        ok_val = False
        from .kit import let_init as _li
        arg1 = n["args"][1]
        if _li(fn.body, arg1) is not None:          # `let header_cell = Cell { .. }; cells.insert(0, header_cell)`
            arg1 = _li(fn.body, arg1)["init"]
        for s in walk_k(arg1, "Struct"):
            for f in s["fields"]:
                if f["name"] == "pos":
                    t = unwrap(f["e"])
                    if isinstance(t, dict) and t.get("k") == "Path" and _li(fn.body, t) is not None:      # `let pos = (n, col); Cell { pos, .. }`
                        t = unwrap(_li(fn.body, t)["init"])
                    if t.get("k") == "Tup" and t["es"] and path_local(t["es"][0]) and path_local(t["es"][0])[1] in lids:
                        ok_row = True
                if f["name"] == "val" and "Empty" in variants_built(f["e"], "DataRef"):
                    ok_val = True
        ok_cond = False
        # locals destructured as the first component of a `.pos` pair: `let (first_row, first_col) = c.pos`,
        # `if let Some((first_row, first_col)) = cells.first().map(|c| c.pos)`
        row_locals = set()
        for node in walk(fn.body):
            src = None
            if node.get("k") == "Let" and node.get("init") is not None:
                src, pats = node["init"], [node["pat"]]
            elif node.get("k") == "Match" and node.get("src") != "TryDesugar":
                src, pats = node["scrut"], [a["pat"] for a in node["arms"]]
            if src is not None and path_local(src):
                from .kit import let_init
                li_ = let_init(fn.body, src)     # `let first_pos = cells.first().map(|c| c.pos); if let Some((r, c)) = first_pos`
                if li_ is not None:
                    src = li_["init"]
            if src is None or not any(f.get("k") == "Field" and f.get("name") == "pos" for f in walk(src)):
                continue
            for p_ in pats:
                for t in walk_k(p_, "Tuple"):
                    if t.get("pats") and t["pats"][0].get("k") == "Binding":
                        row_locals.add(t["pats"][0]["lid"])

        def is_row(e):
            return _is_pos_row(e) or (path_local(e) and path_local(e)[1] in row_locals)
        from .kit import reach_conds
        for x in [{"cond": ce} for ce in reach_conds(n, anc, fn.body)]:
            if True:
                for c in (b for ce in cond_exprs(fn.body, x["cond"]) for b in walk_k(ce, "Binary")):
                    if c["op"] == "!=" and ((is_row(c["l"]) and path_local(c["r"]) and path_local(c["r"])[1] in lids) or (is_row(c["r"]) and path_local(c["l"]) and path_local(c["l"])[1] in lids)):
                        ok_cond = True
        if ok_idx and ok_row and ok_val and ok_cond:
            rep.holds("R-TIGHT", key, loc(n), "an Empty cell at (n, first column) is inserted in front iff the first kept cell is not on row n")
        else:
            rep.violation("R-TIGHT", key, loc(n), "%s: the header-row padding is wrong (insert at index 0: %s, row is n: %s, value Empty: %s, condition first.pos.0 != n: %s)" % (fn.name, ok_idx, ok_row, ok_val, ok_cond))


def _pos_filter(cond, hr_lids):
    """does the condition look at `<x>.pos` other than in `<x>.pos.0 >= n` / `n <= <x>.pos.0` (n the header-row binding)?"""
    ok_ids = set()
    for c in walk_k(cond, "Binary"):
        l_row, r_row = _is_pos_row(c["l"]), _is_pos_row(c["r"])
        l_n = path_local(c["l"]) and path_local(c["l"])[1] in hr_lids
        r_n = path_local(c["r"]) and path_local(c["r"])[1] in hr_lids
        if (l_row and r_n) or (r_row and l_n):
            ok_ids |= {id(x) for x in walk(c)}
    return any(isinstance(x, dict) and x.get("k") == "Field" and x.get("name") == "pos" and id(x) not in ok_ids for x in walk(cond))


def _is_pos_row(e):
    """<x>.pos.0"""
    e = peel(e)
    if isinstance(e, dict) and e.get("k") == "Field" and e["name"] == "0":
        i = peel(e["e"])
        return isinstance(i, dict) and i.get("k") == "Field" and i["name"] == "pos"
    return False


# ----------------------------------------------------------------------------------------------


def r_at(ctx, rep):
    F = ctx.facts("default")
    n = 0
    for fn in F.fns:
        last = fn.name.rsplit("::", 1)[-1]
        if last not in ("worksheet_range_at", "worksheet_range_at_ref", "worksheet_merge_cells_at"):
            continue
        n += 1
        plids = []
        for p in fn.params:
            plids += [(nm, lid) for nm, lid in pat_bindings(p) if nm != "self"]
        key = "%s|R-AT" % fn.name
        gets = [c for c in walk_k(fn.body, "MethodCall") if c["name"] in ("get", "nth") or (callee(c) or "").endswith("::get")]
        idxs = [c for c in walk_k(fn.body, "Index")]
        ok = False
        for c in gets:
            if c["args"] and path_local(c["args"][0]) and path_local(c["args"][0])[1] in {lid for _, lid in plids}:
                ok = True
        if ok and not idxs:
            # and the looked-up name is what is passed on
            fwd = [c for c in walk_k(fn.body, "MethodCall") if c["name"] in ("worksheet_range", "worksheet_range_ref", "worksheet_merge_cells")]
            if fwd:
                rep.holds("R-AT", key, loc(gets[0]), "looks up sheet `n` itself with .get(n) and forwards the name to %s" % fwd[0]["name"])
            else:
                rep.violation("R-AT", key, loc(fn.raw), "%s does not forward to the by-name accessor" % fn.name)
        else:
            rep.violation("R-AT", key, loc(fn.raw), "%s must select the n-th sheet with `.get(n)` on the unmodified parameter (found %d get-call(s), none on the parameter itself%s)" % (fn.name, len(gets), ", plus raw indexing" if idxs else ""))
    if n < 3:
        rep.anchor_missing("R-AT", "worksheet_range_at / worksheet_range_at_ref / worksheet_merge_cells_at (found %d)" % n)


def r_ws(ctx, rep):
    F = ctx.facts("default")
    fns = [f for f in F.fns if f.impl_trait == "Reader" and f.name.endswith("::worksheets") and f.impl_self != "auto::Sheets"]
    if len(fns) != 4:
        rep.anchor_missing("R-WS", "Reader::worksheets for the four formats (found %d)" % len(fns))
        return
    for fn in fns:
        key = "%s|R-WS" % fn.name
        calls = [c for c in walk_k(fn.body, "MethodCall") if c["name"] == "worksheet_range" and path_local(c["recv"]) and path_local(c["recv"])[0] == "self"]
        # a name and its range travel together: pairing a list of names with a separately built list of ranges by position
        # goes wrong as soon as one of the two skips an entry (a sheet that cannot be read) or is ordered differently
        early_zip = [z for z in walk_k(fn.body, "MethodCall") if z["name"] == "zip" and z.get("args")]
        if calls and early_zip:
            rep.violation("R-WS", key + "|zip", loc(early_zip[0]), "%s builds names and ranges separately and pairs them by position: a sheet whose range cannot be read (a chart sheet) leaves the ranges but not the names, and every later name gets the next sheet's cells" % fn.name)
            continue
        if calls:
            rep.holds("R-WS", key, loc(calls[0]), "every entry is produced by self.worksheet_range(name)")
            continue
        # eager formats: must clone the same field that worksheet_range clones on the default path
        wr = next((g for g in F.fns if g.impl_trait == "Reader" and g.impl_self == fn.impl_self and g.name.endswith("::worksheet_range")), None)
        mine = _cloned_fields(fn)
        theirs = _cloned_fields(wr) if wr else set()
        # name and range of one entry must come from the same stored element: pairing two collections by
        # position (zip of the metadata list with the values of a name-sorted map) mixes sheets up
        zips = []
        for z in walk_k(fn.body, "MethodCall"):
            if z["name"] == "zip" and z.get("args"):
                a, b = _chain_root(z["recv"]), _chain_root(z["args"][0])
                if a != b:
                    zips.append((z, a, b))
        if zips:
            z, a, b = zips[0]
            rep.violation("R-WS", key + "|zip", loc(z), "%s pairs two different collections by position (%s with %s): an entry's name and range can belong to different sheets whenever the two are ordered differently (a BTreeMap is sorted by name, the metadata list is in workbook order)" % (fn.name, a, b))
            continue
        if mine and mine & theirs:
            rep.holds("R-WS", key, loc(fn.raw), "worksheets() clones the stored range `%s`, the value worksheet_range returns under the default header row" % sorted(mine & theirs))
        else:
            rep.violation("R-WS", key, loc(fn.raw), "%s neither calls worksheet_range nor clones the field worksheet_range returns (worksheets clones %s, worksheet_range clones %s)" % (fn.name, sorted(mine), sorted(theirs)))


def _chain_root(e):
    """`self.a.b.iter().map(..)` -> 'self.a.b' : the place an iterator chain starts from"""
    e = peel(e)
    while isinstance(e, dict) and e.get("k") == "MethodCall":
        e = peel(e["recv"])
    fc = field_chain(e) if isinstance(e, dict) else None
    return ".".join([fc[0]] + fc[1]) if fc else "?"


def _cloned_fields(fn):
    """names of fields/tuple positions reached through self.sheets whose value is cloned / to_owned"""
    out = set()
    for c in walk_k(fn.body, "MethodCall"):
        if c["name"] in ("clone", "to_owned"):
            r = peel(c["recv"])
            if r.get("k") == "Field":
                out.add(r["name"])
            elif r.get("k") == "Path" and "local" in r.get("res", {}):
                out.add("local:" + r["res"]["local"])
                # `let sheet = &self.sheet_entry(name)?.0; .. sheet.clone()`: the local is a view of that field
                from .kit import let_init
                li = let_init(fn.body, r)
                v = peel(li["init"]) if li is not None else None
                if isinstance(v, dict) and v.get("k") == "Field":
                    out.add(v["name"])
    # tuple-pattern destructuring `(range, _formula)`: position 0
    for p in walk_k(fn.body, "Tuple"):
        names = [x.get("name") for x in p["pats"]]
        if "local:" + str(names[0]) in out if names else False:
            out.add("0")
    return out


def r_notfound(ctx, rep):
    F = ctx.facts("default")
    n = 0
    for fn in F.fns:
        last = fn.name.rsplit("::", 1)[-1]
        if fn.impl_self not in ("xlsx::Xlsx", "xlsb::Xlsb", "xls::Xls", "ods::Ods"):
            continue
        if last not in ("worksheet_range", "worksheet_formula", "worksheet_range_ref", "worksheet_cells_reader"):
            continue
        if fn.impl_trait not in ("Reader", "ReaderRef", None):
            continue
        n += 1
        key = "%s|R-NOTFOUND" % fn.name
        built = [x for x in walk(fn.body) if x.get("k") == "Path" and (path_def(x) or "").endswith("::WorksheetNotFound")]
        if built:
            # it must be attached to the failure of the name lookup: inside ok_or_else / None arm
            rep.holds("R-NOTFOUND", key, loc(built[0]), "builds WorksheetNotFound on lookup failure")
            # and no fallback lookup (first()/get(0)/next()) on the sheets container
            for c in walk_k(fn.body, "MethodCall"):
                if c["name"] in ("first", "last", "unwrap_or", "unwrap_or_else", "or_else", "next") and "sheets" in str(field_chain(c["recv"])):
                    rep.violation("R-NOTFOUND", key + "|fallback", loc(c), "%s falls back to another sheet (`%s`) when the name lookup fails" % (fn.name, c["name"]))
        else:
            # delegates to a function that does
            deleg = [c for c in walk_k(fn.body, "MethodCall") if c["name"] in ("worksheet_range_ref", "worksheet_cells_reader") and path_local(c["recv"]) and path_local(c["recv"])[0] == "self"]
            if deleg:
                rep.holds("R-NOTFOUND", key, loc(deleg[0]), "delegates the lookup to %s" % deleg[0]["name"], nontrivial=False)
            else:
                rep.violation("R-NOTFOUND", key, loc(fn.raw), "%s can never report WorksheetNotFound: an unknown sheet name must be an error, not another sheet or an empty range" % fn.name)
    if n < 10:
        rep.anchor_missing("R-NOTFOUND", "by-name accessors of the four readers (found %d)" % n)
