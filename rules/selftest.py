"""Thorough-tier self-validation: does the check of property P still report the changes it is known to report?

For every reverse-fix mutant (mutants/expect.json) and every seeded change (seeded/matrix.json, caught_by) recorded
for P, a scratch copy of the analysed tree (its Cargo files and src/ as they are *now*, including any local edits)
is made under the system temp directory, the patch is applied there, the rules of P are run on the copy
(facts are extracted by the same driver) and the copy is removed.  /repo itself is never modified.  A patch that
does not apply to the current tree is skipped.  The result goes into the evidence file; it never turns into a
VIOLATION line (a miss says something about the checker, not about the tree under analysis)."""
import glob
import json
import os
import shutil
import subprocess
import tempfile

from . import extract

VERIF = extract.VERIF


def candidates(prop):
    out = []
    ep = os.path.join(VERIF, "mutants", "expect.json")
    if os.path.exists(ep):
        for name, props in sorted(json.load(open(ep)).items()):
            if prop in props:
                out.append(("mutant", name, os.path.join(VERIF, "mutants", name + ".patch")))
    mp = os.path.join(VERIF, "seeded", "matrix.json")
    if os.path.exists(mp):
        for name, e in sorted(json.load(open(mp)).items()):
            if prop in e.get("caught_by", []):
                out.append(("seeded", name, os.path.join(VERIF, "seeded", name, "patch.diff")))
    return [c for c in out if os.path.exists(c[2])]


def scratch_copy(repo):
    d = tempfile.mkdtemp(prefix="calamir-selftest-")
    for f in ("Cargo.toml", "Cargo.lock", "build.rs"):
        p = os.path.join(repo, f)
        if os.path.exists(p):
            shutil.copy2(p, os.path.join(d, f))
    shutil.copytree(os.path.join(repo, "src"), os.path.join(d, "src"))
    for extra in ("tests", "benches", "examples"):
        # Cargo.toml may name targets in these directories; only the file names matter for `cargo check --lib`
        p = os.path.join(repo, extra)
        if os.path.isdir(p):
            os.makedirs(os.path.join(d, extra), exist_ok=True)
            for f in os.listdir(p):
                if f.endswith(".rs"):
                    shutil.copy2(os.path.join(p, f), os.path.join(d, extra, f))
    return d


def run(prop, rules, repo, run_rules, limit=None):
    """Every candidate patch is applied to its own scratch copy and the quick tier of `prop` is evaluated there by a
    worker process (bin/_matrix_worker.py); several copies are worked on in parallel.  `run_rules` (in-process
    evaluation) is the fallback when the worker cannot be started."""
    import sys
    from concurrent.futures import ThreadPoolExecutor
    res = {"applied": 0, "detected": 0, "skipped": [], "missed": [], "errors": []}
    cands = candidates(prop)
    if limit:
        cands = cands[:limit]
    worker = os.path.join(VERIF, "bin", "_matrix_worker.py")

    def one(c):
        kind, name, patch = c
        d = scratch_copy(repo)
        try:
            r = subprocess.run(["git", "apply", patch], cwd=d, capture_output=True, text=True, env=dict(os.environ, GIT_CEILING_DIRECTORIES=os.path.dirname(d)))
            if r.returncode != 0:
                return name, "skipped", None
            try:
                w = subprocess.run([sys.executable, worker, d, prop], capture_output=True, text=True)
                out = json.loads(w.stdout.strip().split("\n")[-1])[prop]
                if out.get("exit") == 2:
                    return name, "error", out.get("tail", "")[-300:]
                return name, ("detected" if out.get("exit") == 1 else "missed"), None
            except Exception as ex:  # noqa: BLE001 -- fall back to the in-process evaluation
                try:
                    return name, ("detected" if run_rules(d) else "missed"), None
                except SystemExit as ex2:
                    return name, "error", str(ex2)
        finally:
            shutil.rmtree(d, ignore_errors=True)
    jobs = int(os.environ.get("SELFTEST_JOBS", "6"))
    with ThreadPoolExecutor(jobs) as ex:
        for name, what, info in ex.map(one, cands):
            if what == "skipped":
                res["skipped"].append(name)
                continue
            res["applied"] += 1
            if what == "detected":
                res["detected"] += 1
            elif what == "missed":
                res["missed"].append(name)
            else:
                res["errors"].append("%s: %s" % (name, info))
    return res
