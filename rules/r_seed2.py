"""Rules added after the second seeding round (see DESIGN.md section 17).

R-XTI      xls: the sheet named by a 3-D reference / defined name is looked up through ExternSheet (Xti.itab_first)
R-DIGITS   utils::push_column: every value of the running quotient reaches the pushed letters (must-use on MIR)
"""
import re
from collections import defaultdict

from .kit import (walk, walk_anc, walk_k, unwrap, peel, loc, callee, path_local, path_def, lit_value, field_chain, norm)


def _ty_core(t):
    t = (t or "").strip()
    while t.startswith("&"):
        t = t[1:].lstrip()
        if t.startswith("mut "):
            t = t[4:]
    return t


_SHEET_LIST = re.compile(r"^(\[|alloc::vec::Vec<)\s*(alloc::string::String|\(usize, alloc::string::String\))\s*(\]|>)$")
_XTI_LIST = re.compile(r"^(\[|alloc::vec::Vec<)\s*xls::Xti\s*(\]|>)$")


def r_xti(ctx, rep):
    """[MS-XLS] 2.5.198.76 ff.: the ixti of PtgRef3d / PtgArea3d / PtgRefErr3d / PtgAreaErr3d and the itab of a Lbl
    index the ExternSheet XTI array; the sheet is XTI.itabFirst.  Every element access to a sheet-name list made
    by a function that has the XTI list in scope must therefore be indexed by an expression built from
    `.itab_first` (contradiction rule: PtgRef3d always did this, its three siblings did not)."""
    F = ctx.facts("default")
    n = 0
    for fn in F.fns_in("src/xls.rs"):
        if fn.raw["span"].get("mac"):
            continue
        has_xti = any(_XTI_LIST.match(_ty_core(x.get("ty"))) for x in walk(fn.raw) if isinstance(x, dict) and x.get("k") in ("Binding", "Path"))
        if not has_xti:
            continue
        cnt = defaultdict(int)
        for e in walk(fn.body):
            k = e.get("k")
            if k == "MethodCall" and e.get("name") in ("get", "get_unchecked", "get_mut") and e.get("args"):
                recv, idx = e["recv"], e["args"][0]
            elif k == "Index":
                recv, idx = e["e"], e["idx"]
            else:
                continue
            if not _SHEET_LIST.match(_ty_core(recv.get("ty"))):
                continue
            fc = field_chain(recv)
            rname = ".".join([fc[0]] + fc[1]) if fc else "?"
            cnt[rname] += 1
            key = "%s|R-XTI|%s%s" % (fn.name, rname, "" if cnt[rname] == 1 else "#%d" % cnt[rname])
            n += 1
            via = any(x.get("k") == "Field" and x.get("name") == "itab_first" for x in walk(idx))
            if via:
                rep.holds("R-XTI", key, loc(e), "sheet list `%s` indexed by XTI.itab_first" % rname)
            else:
                rep.violation("R-XTI", key, loc(e), "the sheet list `%s` is indexed by a value that does not come from an ExternSheet entry (`.itab_first`): a 3-D reference or defined name would name the wrong sheet whenever the ExternSheet table is not the identity" % rname)
    rep.floor("R-XTI", 2, "xls::xti_sheet and the defined-name closure of Xls::parse_workbook")


# ----------------------------------------------------------------------------------------------
# R-DIGITS: must-use of the running quotient in utils::push_column (MIR)

_CMP = ("Lt", "Le", "Gt", "Ge", "Eq", "Ne")


def _operand_locals(o):
    if isinstance(o, dict):
        for k in ("copy", "move"):
            if k in o and isinstance(o[k], dict) and "l" in o[k]:
                yield o[k]["l"]
                return
        for v in o.values():
            if isinstance(v, (dict, list)):
                yield from _operand_locals(v)
    elif isinstance(o, list):
        for v in o:
            yield from _operand_locals(v)


def must_use(mir, tracked, is_sink):
    """For every definition of local `tracked` (function entry and each assignment): explore all CFG paths; a path
    is satisfied when a value derived from the definition (by anything except a comparison) is an argument of a
    sink call.  Returns [(def description, offending exit description)] for unsatisfied paths."""
    blocks = mir["blocks"]
    defs = [("entry", 0, 0)]
    for bi, b in enumerate(blocks):
        if b.get("cleanup"):
            continue
        for si, s in enumerate(b["stmts"]):
            if s.get("k") == "Assign" and s["place"]["l"] == tracked and not s["place"].get("p"):
                defs.append(("assignment at line %d" % s["span"]["l"], bi, si + 1))
    bad = []
    for (what, b0, s0) in defs:
        seen = set()
        stack = [(b0, s0, frozenset([tracked]))]
        while stack:
            bi, si, taint = stack.pop()
            if (bi, si, taint) in seen:
                continue
            seen.add((bi, si, taint))
            b = blocks[bi]
            taint = set(taint)
            dead = False
            for s in b["stmts"][si:]:
                if s.get("k") != "Assign":
                    continue
                dst = s["place"]["l"]
                rv = s["rv"]
                reads = set(_operand_locals(rv)) & taint
                derived = bool(reads) and not (rv.get("k") == "BinaryOp" and rv.get("op") in _CMP)
                if derived:
                    taint.add(dst)
                elif not s["place"].get("p"):
                    taint.discard(dst)
                    if dst == tracked:
                        bad.append((what, "overwritten at line %d before any derived value reached the output" % s["span"]["l"]))
                        dead = True
                        break
            if dead or not taint:
                if not dead:
                    bad.append((what, "every derived value is dead in bb%d (line %d)" % (bi, (b.get("term") or {}).get("span", {}).get("l", 0))))
                continue
            t = b.get("term") or {}
            k = t.get("k")
            if k == "Call":
                args_t = [bool(set(_operand_locals(a)) & taint) for a in t.get("args", [])]
                if is_sink(t, args_t):
                    continue                     # consumed: this path is satisfied
                if any(args_t) and t.get("dest") is not None:
                    taint.add(t["dest"]["l"])
                elif t.get("dest") is not None:
                    taint.discard(t["dest"]["l"])
                if t.get("t") is not None:
                    stack.append((t["t"], 0, frozenset(taint)))
            elif k in ("Goto", "Drop", "Assert", "FalseEdge", "FalseUnwind"):
                stack.append((t["t"], 0, frozenset(taint)))
            elif k == "SwitchInt":
                for tg in list(t["tgts"]) + [t["otherwise"]]:
                    stack.append((tg, 0, frozenset(taint)))
            elif k == "Return":
                bad.append((what, "the function returns (bb%d) without a derived value having reached the output" % bi))
    return bad


def r_digits(ctx, rep):
    """utils::push_column renders a column index in bijective base 26.  At any point the pair (letters pushed so
    far, running quotient `col`) determines the column, and distinct columns must render differently; hence every
    value `col` takes must flow (through arithmetic, not merely through a comparison) into a pushed letter on
    every path -- otherwise two columns that differ only in that value get the same text (AA and BA both "A")."""
    F = ctx.facts("default")
    name = "utils::push_column"
    ms = F.mir.get(name)
    fn = F.fn(name)
    if not ms or fn is None:
        rep.anchor_missing("R-DIGITS", name)
        return
    mir = ms[0]
    tracked = None
    for d in mir.get("dbg", []):
        pass
    # the first parameter (the column) is MIR local _1
    tracked = 1
    def is_sink(t, args_t):
        c = norm(t.get("resolved") or t.get("callee")) or ""
        return c.endswith("String::push") and len(args_t) > 1 and args_t[1]
    bad = must_use(mir, tracked, is_sink)
    key = name + "|R-DIGITS"
    if bad:
        what, why = bad[0]
        rep.violation("R-DIGITS", key, loc(fn.raw), "the column value defined at %s does not reach a pushed letter: %s (%d such path(s)); columns differing only in that digit render identically" % (what, why, len(bad)))
    else:
        rep.holds("R-DIGITS", key, loc(fn.raw), "every definition of the running column value flows into String::push on every path")
