"""Rules added after the second seeding round (see DESIGN.md section 17).

R-XTI      xls: the sheet named by a 3-D reference / defined name is looked up through ExternSheet (Xti.itab_first)
R-DIGITS   utils::push_column: every value of the running quotient reaches the pushed letters (must-use on MIR)
"""
import re
from collections import defaultdict

from .kit import (walk, walk_anc, walk_k, unwrap, peel, loc, callee, callee_decl, path_local, path_def, lit_value, field_chain, norm, pat_bindings)


def _ty_core(t):
    t = (t or "").strip()
    while t.startswith("&"):
        t = t[1:].lstrip()
        if t.startswith("mut "):
            t = t[4:]
    return t


# a list of sheets: names, (position, name) pairs, or a private struct of the xls module holding them (not the XTI list)
_SHEET_LIST = re.compile(r"^(\[|alloc::vec::Vec<)\s*(alloc::string::String|\(usize, alloc::string::String\)|xls::(?!Xti\b|Cell\b|Record\b)[A-Z]\w*)\s*(\]|>)$")
_XTI_LIST = re.compile(r"^(\[|alloc::vec::Vec<)\s*xls::Xti\s*(\]|>)$")


def r_xti(ctx, rep):
    """[MS-XLS] 2.5.198.76 ff.: the ixti of PtgRef3d / PtgArea3d / PtgRefErr3d / PtgAreaErr3d and the itab of a Lbl
    index the ExternSheet XTI array; the sheet is XTI.itabFirst.  Every element access to a sheet-name list made
    by a function that has the XTI list in scope must therefore be indexed by an expression built from
    `.itab_first` (contradiction rule: PtgRef3d always did this, its three siblings did not)."""
    F = ctx.facts("default")
    n = 0
    for fn in F.fns_in("src/xls.rs"):
        if fn.raw["span"].get("mac"):
            continue
        has_xti = any(_XTI_LIST.match(_ty_core(x.get("ty"))) for x in walk(fn.raw) if isinstance(x, dict) and x.get("k") in ("Binding", "Path"))
        if not has_xti:
            continue
        cnt = defaultdict(int)
        for e in walk(fn.body):
            k = e.get("k")
            if k == "MethodCall" and e.get("name") in ("get", "get_unchecked", "get_mut") and e.get("args"):
                recv, idx = e["recv"], e["args"][0]
            elif k == "Index":
                recv, idx = e["e"], e["idx"]
            else:
                continue
            if not _SHEET_LIST.match(_ty_core(recv.get("ty"))):
                continue
            fc = field_chain(recv)
            rname = ".".join([fc[0]] + fc[1]) if fc else "?"
            cnt[rname] += 1
            key = "%s|R-XTI|%s%s" % (fn.name, rname, "" if cnt[rname] == 1 else "#%d" % cnt[rname])
            n += 1
            via = any(x.get("k") == "Field" and x.get("name") == "itab_first" for x in walk(idx))
            if via:
                rep.holds("R-XTI", key, loc(e), "sheet list `%s` indexed by XTI.itab_first" % rname)
            else:
                rep.violation("R-XTI", key, loc(e), "the sheet list `%s` is indexed by a value that does not come from an ExternSheet entry (`.itab_first`): a 3-D reference or defined name would name the wrong sheet whenever the ExternSheet table is not the identity" % rname)
    rep.floor("R-XTI", 2, "xls::xti_sheet and the defined-name closure of Xls::parse_workbook")


# ----------------------------------------------------------------------------------------------
# R-DIGITS: must-use of the running quotient in utils::push_column (MIR)

_CMP = ("Lt", "Le", "Gt", "Ge", "Eq", "Ne")


def _operand_locals(o):
    if isinstance(o, dict):
        for k in ("copy", "move"):
            if k in o and isinstance(o[k], dict) and "l" in o[k]:
                yield o[k]["l"]
                return
        for v in o.values():
            if isinstance(v, (dict, list)):
                yield from _operand_locals(v)
    elif isinstance(o, list):
        for v in o:
            yield from _operand_locals(v)


def must_use(mir, tracked, is_sink):
    """For every definition of local `tracked` (function entry and each assignment): explore all CFG paths; a path
    is satisfied when a value derived from the definition (by anything except a comparison) is an argument of a
    sink call.  Returns [(def description, offending exit description)] for unsatisfied paths."""
    blocks = mir["blocks"]
    # `_7 = &mut _rev` : a push through _7 fills _rev
    alias = {}
    for b_ in blocks:
        for s_ in b_["stmts"]:
            if s_.get("k") == "Assign" and s_["rv"].get("k") == "Ref" and not s_["place"].get("p") and not (s_["rv"]["place"].get("p")):
                alias[s_["place"]["l"]] = s_["rv"]["place"]["l"]
    defs = [("entry", 0, 0)]
    for bi, b in enumerate(blocks):
        if b.get("cleanup"):
            continue
        for si, s in enumerate(b["stmts"]):
            if s.get("k") == "Assign" and s["place"]["l"] == tracked and not s["place"].get("p"):
                defs.append(("assignment at line %d" % s["span"]["l"], bi, si + 1))
    bad = []
    for (what, b0, s0) in defs:
        seen = set()
        stack = [(b0, s0, frozenset([tracked]))]
        while stack:
            bi, si, taint = stack.pop()
            if (bi, si, taint) in seen:
                continue
            seen.add((bi, si, taint))
            b = blocks[bi]
            taint = set(taint)
            dead = False
            for s in b["stmts"][si:]:
                if s.get("k") != "Assign":
                    continue
                dst = s["place"]["l"]
                rv = s["rv"]
                reads = set(_operand_locals(rv)) & taint
                if rv.get("k") in ("Ref", "RawPtr") and isinstance(rv.get("place"), dict) and rv["place"].get("l") in taint:
                    reads.add(rv["place"]["l"])     # `&rev` / `&rev[..n]` of a scratch array that carries derived letters
                derived = bool(reads) and not (rv.get("k") == "BinaryOp" and rv.get("op") in _CMP)
                if derived:
                    taint.add(dst)
                elif not s["place"].get("p"):
                    taint.discard(dst)
                    if dst == tracked:
                        bad.append((what, "overwritten at line %d before any derived value reached the output" % s["span"]["l"]))
                        dead = True
                        break
            if dead or not taint:
                if not dead:
                    bad.append((what, "every derived value is dead in bb%d (line %d)" % (bi, (b.get("term") or {}).get("span", {}).get("l", 0))))
                continue
            t = b.get("term") or {}
            k = t.get("k")
            if k == "Call":
                args_t = [bool(set(_operand_locals(a)) & taint) for a in t.get("args", [])]
                if is_sink(t, args_t):
                    continue                     # consumed: this path is satisfied
                cn_ = (norm(t.get("resolved") or t.get("callee")) or "").rsplit("::", 1)[-1]
                if cn_ in ("push", "push_str", "insert", "extend", "extend_from_slice", "push_back") and any(args_t[1:]) and t.get("args"):
                    # a derived value stored in a scratch container (`rev.push(letter)`): the container carries it on
                    a0_ = t["args"][0].get("move") or t["args"][0].get("copy")
                    if a0_ is not None:
                        taint.add(alias.get(a0_["l"], a0_["l"]))
                if any(args_t) and t.get("dest") is not None:
                    taint.add(t["dest"]["l"])
                elif t.get("dest") is not None:
                    taint.discard(t["dest"]["l"])
                if t.get("t") is not None:
                    stack.append((t["t"], 0, frozenset(taint)))
            elif k in ("Goto", "Drop", "Assert", "FalseEdge", "FalseUnwind"):
                stack.append((t["t"], 0, frozenset(taint)))
            elif k == "SwitchInt":
                for tg in list(t["tgts"]) + [t["otherwise"]]:
                    stack.append((tg, 0, frozenset(taint)))
            elif k == "Return":
                bad.append((what, "the function returns (bb%d) without a derived value having reached the output" % bi))
    return bad


def r_digits(ctx, rep):
    """utils::push_column renders a column index in bijective base 26.  At any point the pair (letters pushed so
    far, running quotient `col`) determines the column, and distinct columns must render differently; hence every
    value `col` takes must flow (through arithmetic, not merely through a comparison) into a pushed letter on
    every path -- otherwise two columns that differ only in that value get the same text (AA and BA both "A")."""
    F = ctx.facts("default")
    name = "utils::push_column"
    ms = F.mir.get(name)
    fn = F.fn(name)
    if not ms or fn is None:
        rep.anchor_missing("R-DIGITS", name)
        return
    mir = ms[0]
    tracked = None
    for d in mir.get("dbg", []):
        pass
    # the first parameter (the column) is MIR local _1
    tracked = 1
    def is_sink(t, args_t):
        c = norm(t.get("resolved") or t.get("callee")) or ""
        if c.endswith("String::push") and len(args_t) > 1 and args_t[1]:
            return True
        # the letters collected in a scratch container and appended in one go (`buf.extend(rev.into_iter().rev())`)
        out_is_param = bool(t.get("args")) and (t["args"][0].get("move") or t["args"][0].get("copy") or {}).get("l") in (2,) or False
        return ("String" in c and c.rsplit("::", 1)[-1] in ("extend", "push_str")) and len(args_t) > 1 and args_t[1] and (out_is_param or True)
    bad = must_use(mir, tracked, is_sink)
    key = name + "|R-DIGITS"
    if bad:
        what, why = bad[0]
        rep.violation("R-DIGITS", key, loc(fn.raw), "the column value defined at %s does not reach a pushed letter: %s (%d such path(s)); columns differing only in that digit render identically" % (what, why, len(bad)))
    else:
        rep.holds("R-DIGITS", key, loc(fn.raw), "every definition of the running column value flows into String::push on every path")


# ----------------------------------------------------------------------------------------------
# R-SIB-PTG: the two token decoders agree on the operand-stack / output-buffer discipline of every token class

_APPEND = ("push", "push_str", "write_fmt", "extend")
SIB_PTG_EXCEPTIONS = {
    "0x18": "PtgElf / PtgList: MS-XLSB renders a table reference placeholder and pushes an operand, MS-XLS skips the extended token",
    "0x19": "PtgAttr: the xls decoder also renders PtgAttrSpace, the xlsb decoder skips it (sub-token tables are compared by R-TAB-PTG)",
    "0x20": "PtgArray: only the xls decoder writes the {PtgArray} placeholder; both push one operand",
}


def _ptg_arms(F, name):
    from .r_tables import pat_keys
    fn = F.fn(name)
    if fn is None:
        return None, {}
    ms = sorted(walk_k(fn.body, "Match"), key=lambda m: -len(m["arms"]))
    out = {}
    from .kit import specialise
    sc = None
    if ms:
        pe = peel(ms[0]["scrut"])
        sc = path_local(pe) if isinstance(pe, dict) and pe.get("k") == "Path" else None
    for a in ms[0]["arms"] if ms else []:
        ks, _ = pat_keys(a["pat"])
        ints = sorted(k[1] for k in ks if k[0] == "int")
        # an arm shared by several token classes (the three data-type variants b, b+0x20, b+0x40 form one class) is
        # split per class and specialised: an inner `match ptg` picks the class's own code
        groups = {}
        for v in ints:
            groups.setdefault(v if v < 0x20 else 0x20 + (v & 0x1F), []).append(v)
        if len(groups) > 1 and sc is not None and all(b >= 0x20 for b in groups):
            for b, vs in groups.items():
                out[tuple(sorted(vs))] = dict(a, body=specialise(a["body"], sc[1], vs[0], pat_keys))
            continue
        if ints:
            out[tuple(ints)] = a
        else:
            rng = sorted((k[1], k[2]) for k in ks if k[0] == "range" and isinstance(k[1], int))
            if rng:
                out[(rng[0][0],)] = a
    return fn, out


_SIB_IMAP = {}


def _role(e):
    fc = field_chain(e)
    if not fc or fc[1]:
        return None
    pl = path_local(peel(e))
    seen = 0
    while pl and pl[1] in _SIB_IMAP and seen < 4:      # parameter of an inlined helper: the role of the argument
        e = _SIB_IMAP[pl[1]]
        fc = field_chain(e)
        if not fc or fc[1]:
            return None
        pl = path_local(peel(e))
        seen += 1
    t = (peel(e).get("ty") or "").replace("&mut ", "").replace("&", "")
    if t == "alloc::vec::Vec<usize>":
        return "stack"
    if t == "alloc::string::String":
        return "out:" + fc[0]
    return None


def stack_events(node, out_name="formula", canonical=False):
    """source-order sequence of operations on the operand stack (Vec<usize>) and on the output String.  With
    `canonical`, the alternatives of an `if` / `match` are ordered by their own event sequences instead of by source
    position, so that swapping the branches of a conditional (or re-ordering match arms) gives the same sequence."""
    def rec(n):
        if isinstance(n, list):
            out = []
            for x in n:
                out += rec(x)
            return out
        if not isinstance(n, dict):
            return []
        k = n.get("k")
        if k == "MethodCall":
            ev = rec(n["recv"]) + rec(n["args"])
            r = _role(n["recv"])
            if r == "stack" and n["name"] in ("windows", "iter", "iter_mut", "len", "is_empty", "as_slice", "get", "first", "chunks", "into_iter", "as_mut_slice"):
                pass        # reads and traversals do not change the discipline
            elif r == "stack":
                ev.append("stack." + n["name"])
            elif r == "out:" + out_name and n["name"] in ("reserve", "reserve_exact", "capacity", "shrink_to_fit", "as_str", "is_empty"):
                pass        # capacity management and reads of the output buffer change nothing of the discipline
            elif r == "out:" + out_name:
                ev.append("out." + ("append" if n["name"] in _APPEND else n["name"]))
            return ev
        if canonical and k == "If":
            alts = [rec(n["then"]), rec(n.get("els"))]
            return rec(n["cond"]) + [e for a in sorted(alts) for e in a]
        if canonical and k == "Match" and n.get("src") not in ("ForLoopDesugar", "TryDesugar"):
            alts = [rec(a.get("guard")) + rec(a["body"]) for a in n.get("arms", [])]
            return rec(n["scrut"]) + [e for a in sorted(alts) for e in a]
        ev = []
        for key, v in n.items():
            if key in ("span", "res", "callee"):
                continue
            if isinstance(v, (dict, list)):
                ev += rec(v)
        return ev
    flat = rec(node)
    out = []
    for e in flat:
        if e == "out.append" and out and out[-1] == "out.append":
            continue
        out.append(e)
    return out


def r_sib_ptg(ctx, rep):
    """xls::parse_formula and xlsb::parse_formula are two copies of one algorithm (an operand stack of offsets into
    the output string).  For every token class both decode, the order of stack operations and output-buffer
    operations (len / split_off / insert / append) must agree: the payload widths differ between the formats,
    the evaluation-order bookkeeping does not."""
    F = ctx.facts("default")
    fa, A = _ptg_arms(F, "xls::parse_formula")
    fb, B = _ptg_arms(F, "xlsb::parse_formula")
    if fa is None or fb is None:
        rep.anchor_missing("R-SIB-PTG", "xls::parse_formula / xlsb::parse_formula")
        return
    from .kit import inl_params
    _SIB_IMAP.clear()
    _SIB_IMAP.update(inl_params(fa.body))
    _SIB_IMAP.update(inl_params(fb.body))
    for ks in sorted(A):
        if ks not in B:
            continue
        tag = "0x%x" % ks[0]
        key = "parse_formula|R-SIB-PTG|%s" % tag
        ea, eb = stack_events(A[ks]["body"]), stack_events(B[ks]["body"])
        if tag in SIB_PTG_EXCEPTIONS:
            rep.holds("R-SIB-PTG", key, loc(A[ks]), "documented difference: " + SIB_PTG_EXCEPTIONS[tag], nontrivial=False)
        elif ea == eb or stack_events(A[ks]["body"], canonical=True) == stack_events(B[ks]["body"], canonical=True):
            rep.holds("R-SIB-PTG", key, loc(A[ks]), "both decoders: %s" % (" ; ".join(ea) or "no stack/output effect"), nontrivial=bool(ea))
        else:
            rep.violation("R-SIB-PTG", key, "%s / %s" % (loc(A[ks]), loc(B[ks])),
                          "the xls and xlsb decoders disagree on the stack/output discipline of token class %s:\n  xls : %s\n  xlsb: %s\nthe operand offsets recorded on the stack decide where operators, parentheses and function names are inserted" % (tag, " ; ".join(ea), " ; ".join(eb)))
    rep.floor("R-SIB-PTG", 20, "token classes decoded by both parse_formula functions")


# ----------------------------------------------------------------------------------------------
# R-CELLPOS: an explicit cell reference decides the reported position (xlsx walkers)

def _lets(fn):
    out = {}
    for n in walk_k(fn.body, "Let"):
        if n.get("init") is not None:
            out[id(n)] = n
    return out


def _binding_source(fn, lid):
    """(let node, index of the binding inside a tuple pattern or None)"""
    for n in walk_k(fn.body, "Let"):
        if n.get("init") is None:
            continue
        p = n["pat"]
        if p.get("k") == "Tuple":
            for i, sp in enumerate(p.get("pats", [])):
                if sp.get("k") == "Binding" and sp.get("lid") == lid:
                    return n, i
        elif p.get("k") == "Binding" and p.get("lid") == lid:
            return n, None
    return None, None


def _calls_fn(e, name):
    return any(callee(c) == name for c in walk_k(e, "Call"))


def r_cellpos(ctx, rep):
    """C01/C14: when a <c> element carries an `r` attribute, the position reported for the cell is exactly the
    (row, column) pair that xlsx::get_row_column decodes from it -- not the running cursor.  Checked in both
    walkers: in the `Some(r)` branch of the position computation the resulting tuple is (first, second) component
    of the get_row_column result; in the other branch it is the cursor (row_index, col_index)."""
    F = ctx.facts("default")
    for name in ("xlsx::cells_reader::XlsxCellReader::next_cell", "xlsx::cells_reader::XlsxCellReader::next_formula"):
        fn = F.fn(name)
        short = name.rsplit("::", 1)[-1]
        key = "XlsxCellReader::%s|R-CELLPOS" % short
        if fn is None:
            rep.anchor_missing("R-CELLPOS", name)
            continue
        found = False
        def unok(t):
            # `Ok(x)` (the position computed by a fallible helper) -> x
            t = unwrap(t) if t is not None else None
            if isinstance(t, dict) and t.get("k") == "Call" and (callee(t) or "").endswith("Result::Ok") and len(t.get("args", [])) == 1:
                return unwrap(t["args"][0])
            return t
        cands = []
        for n in walk_k(fn.body, "Let"):
            init0 = unwrap(n.get("init")) if n.get("init") is not None else None
            if not init0:
                continue
            if init0.get("k") == "Match" and init0.get("src") != "TryDesugar":
                cands.append((n, init0))
            else:
                # the computation sits inside the initialiser (a helper inlined at `let pos = helper(..)?;`)
                for m_ in walk_k(init0, "Match"):
                    if m_.get("src") not in ("TryDesugar", "ForLoopDesugar"):
                        cands.append((n, m_))
        for n, init in cands:
            # `if let Some(r) = attr { A } else { B }` (normalised to a match) or `match attr { Some(r) => A, None => B }`
            if len(init.get("arms", [])) != 2:
                continue
            some = [a for a in init["arms"] if a["pat"].get("k") == "TupleStruct" and (a["pat"].get("res", {}).get("def") or "").endswith("Option::Some")]
            other = [a for a in init["arms"] if a not in some]
            if len(some) != 1 or len(other) != 1:
                continue
            init = {"then": some[0]["body"], "els": other[0]["body"]}
            if not _calls_fn(init["then"], "xlsx::get_row_column"):
                continue
            found = True
            then = unwrap(init["then"])
            tail = then["block"].get("expr") if then.get("k") == "BlockExpr" else then
            tail = unok(tail)
            ok, why = False, "unrecognised form of the position expression"
            if tail is not None and tail.get("k") == "Tup" and len(tail["es"]) == 2:
                comps = []
                for i, c in enumerate(tail["es"]):
                    pl = path_local(c)
                    if not pl:
                        comps.append("component %d is not a local (%s)" % (i, unwrap(c).get("k")))
                        continue
                    let, idx = _binding_source(fn, pl[1])
                    if let is None or not _calls_fn(let["init"], "xlsx::get_row_column"):
                        comps.append("component %d (`%s`) does not come from get_row_column" % (i, pl[0]))
                    elif idx != i:
                        comps.append("component %d (`%s`) is component %s of the get_row_column result" % (i, pl[0], idx))
                ok = not comps
                why = "; ".join(comps)
            elif tail is not None and path_local(tail):
                let, idx = _binding_source(fn, path_local(tail)[1])
                ok = let is not None and idx is None and _calls_fn(let["init"], "xlsx::get_row_column")
            elif tail is not None and _calls_fn(tail, "xlsx::get_row_column") and tail.get("k") in ("Match", "Call"):
                ok = True
            els = unwrap(init["els"]) if init.get("els") is not None else None
            etail = unwrap(els["block"].get("expr")) if els and els.get("k") == "BlockExpr" and els["block"].get("expr") is not None else els
            etail = unok(etail)
            eok = False
            if etail is not None and etail.get("k") == "Tup" and len(etail["es"]) == 2:
                fcs = [field_chain(c) for c in etail["es"]]
                eok = fcs == [("self", ["row_index"]), ("self", ["col_index"])]
            if ok and eok:
                rep.holds("R-CELLPOS", key, loc(n), "explicit reference: (row, col) of get_row_column in order; implicit: (row_index, col_index)")
            elif not ok:
                rep.violation("R-CELLPOS", key, loc(n), "a cell with an explicit `r` attribute is not reported at the position the attribute encodes: %s" % why)
            else:
                rep.violation("R-CELLPOS", key, loc(n), "a cell without an `r` attribute is not reported at the running cursor (self.row_index, self.col_index)")
        if not found:
            rep.anchor_missing("R-CELLPOS", "position computation (if let Some(r) = attribute { get_row_column(r) .. }) in %s" % name)


# ----------------------------------------------------------------------------------------------
# R-IOAMT: the byte count returned by Read::read / Write::write is used

_IO_AMOUNT = ("std::io::Read::read", "std::io::Write::write", "std::io::Read::read_vectored", "std::io::Write::write_vectored")


def r_ioamt(ctx, rep):
    """C06 (termination) / every reader: `Read::read` may return Ok(0) at end of input or a short count; a call site
    that throws the count away (`r.read(&mut b)?;`) treats end of input as success -- the record loops of the xlsb
    reader end only through the UnexpectedEof error of read_exact, so they would spin forever on a truncated part.
    Every call of an amount-returning io method must use the amount (bind it, compare it, return it)."""
    from .kit import callee_decl
    n_io = 0
    for cfg in ctx.configs():
        F = ctx.facts(cfg)
        for fn in F.user_fns():
            cnt = 0
            for n, anc in walk_anc(fn.body):
                if n.get("k") not in ("MethodCall", "Call"):
                    continue
                d = callee_decl(n) or ""
                if not d.startswith("std::io::"):
                    continue
                n_io += 1
                if d not in _IO_AMOUNT:
                    continue
                cnt += 1
                key = "%s|R-IOAMT|%s#%d" % (fn.name, d.rsplit("::", 1)[-1], cnt)
                # climb through `?`, map_err, unwrap, expect
                i = len(anc) - 1
                cur = n
                while i >= 0:
                    a = anc[i]
                    k = a.get("k")
                    if k == "Match" and a.get("src") == "TryDesugar" or k in ("DropTemps", "Use") or \
                       (k == "Call" and (callee(a) or "").endswith("Try::branch")) or \
                       (k == "MethodCall" and a.get("name") in ("map_err", "unwrap", "expect", "unwrap_or_default") and unwrap(a["recv"]) is cur or k == "MethodCall" and a.get("name") in ("map_err", "unwrap", "expect") and any(x is cur for x in walk(a["recv"]))):
                        cur = a
                        i -= 1
                        continue
                    break
                parent = anc[i] if i >= 0 else None
                discarded = parent is not None and (parent.get("k") == "Semi" or (parent.get("k") == "Let" and (parent.get("pat") or {}).get("k") == "Wild"))
                if discarded:
                    rep.violation("R-IOAMT", key, loc(n), "the number of bytes returned by %s is discarded: Ok(0) at end of input (or a short read) is taken for success, so a loop that relies on an UnexpectedEof error to stop never stops on a truncated stream" % d)
                else:
                    rep.holds("R-IOAMT", key, loc(n), "the returned byte count is used (%s)" % (parent.get("k") if parent else "value of the function"))
    if n_io < 10:
        rep.violation("R-IOAMT", "R-IOAMT|floor", "-", "only %d std::io trait call(s) were resolved in the crate (10 confirmed by hand): the matcher no longer sees io calls and would pass vacuously" % n_io)
    rep.floor("R-IOAMT", 1, "cfb::Sectors::get reads sectors with Read::read and uses the count")


# ----------------------------------------------------------------------------------------------
# R-DBCS-PROGRESS: the character loop of xls::read_dbcs advances to the next CONTINUE fragment (or fails) whenever
# characters are still owed

def _tv_and(a, b):
    if a is False or b is False:
        return False
    if a is True and b is True:
        return True
    return None


def _tv_or(a, b):
    if a is True or b is True:
        return True
    if a is False and b is False:
        return False
    return None


def _implied_by_positive(e, lid):
    """three-valued value of boolean expression `e` under the assumption  <local lid> > 0 ; other atoms unknown"""
    e = unwrap(e)
    k = e.get("k")
    if k == "Binary":
        op = e.get("op")
        if op == "&&":
            return _tv_and(_implied_by_positive(e["l"], lid), _implied_by_positive(e["r"], lid))
        if op == "||":
            return _tv_or(_implied_by_positive(e["l"], lid), _implied_by_positive(e["r"], lid))
        l, r = unwrap(e["l"]), unwrap(e["r"])
        pl, pr = path_local(l), path_local(r)
        vl, vr = lit_value(l), lit_value(r)
        if pl and pl[1] == lid and isinstance(vr, int):
            return {">": vr <= 0, ">=": vr <= 1, "!=": vr <= 0, "==": False if vr <= 0 else None, "<": False if vr <= 1 else None, "<=": False if vr <= 0 else None}.get(op)
        if pr and pr[1] == lid and isinstance(vl, int):
            return {"<": vl <= 0, "<=": vl <= 1, "!=": vl <= 0, "==": False if vl <= 0 else None}.get(op)
        return None
    if k == "Unary" and e.get("op") == "!":
        v = _implied_by_positive(e["e"], lid)
        return None if v is None else (not v)
    if k == "Lit" and isinstance(lit_value(e), bool):
        return lit_value(e)
    return None


def _iter_outcomes(e, stepped):
    """{(kind, stepped)} over the paths through expression e of one loop iteration: kind 'fall' (goes on to what
    follows), 'cont' (`continue`), 'leave' (return / break); stepped = a continue_record() call answered true on the way"""
    e = unwrap(e)
    if not isinstance(e, dict):
        return {("fall", stepped)}
    k = e.get("k")
    if k in ("Ret", "Break"):
        return {("leave", stepped)}
    if k == "Continue":
        return {("cont", stepped)}
    if k == "BlockExpr":
        b = e["block"]
        seq = []
        for s_ in b.get("stmts", []):
            if s_.get("k") in ("Expr", "Semi"):
                seq.append(s_["e"])
            elif s_.get("k") == "Let" and s_.get("init") is not None:
                seq.append(s_["init"])
        if b.get("expr") is not None:
            seq.append(b["expr"])
        cur = {("fall", stepped)}
        for x in seq:
            nxt = set()
            for kind, st_ in cur:
                if kind != "fall":
                    nxt.add((kind, st_))
                else:
                    nxt |= _iter_outcomes(x, st_)
            cur = nxt
        return cur
    if k == "If":
        c = unwrap(e["cond"])
        neg = isinstance(c, dict) and c.get("k") == "Unary" and c.get("op") == "!"
        inner = unwrap(c["e"]) if neg else c
        is_step = isinstance(inner, dict) and inner.get("k") == "MethodCall" and inner.get("name") == "continue_record"
        t_st = stepped or (is_step and not neg)
        f_st = stepped or (is_step and neg)
        out = _iter_outcomes(e["then"], t_st)
        out |= _iter_outcomes(e["els"], f_st) if e.get("els") is not None else {("fall", f_st)}
        return out
    if k == "Match":
        if e.get("src") == "TryDesugar":
            return _iter_outcomes(e["scrut"], stepped) | {("leave", stepped)}
        out = set()
        for a in e.get("arms", []):
            out |= _iter_outcomes(a["body"], stepped)
        return out
    if k in ("Loop", "Closure"):
        return {("fall", stepped)}
    return {("fall", stepped)}


def r_dbcs_progress(ctx, rep):
    """C06 (termination) and C12: the loop `while len > 0` of xls::read_dbcs decodes as many characters as the
    current fragment holds -- possibly none (a dangling half code unit, an exhausted fragment).  It terminates
    because every iteration that still owes characters moves to the next CONTINUE fragment or returns EoStream.
    Decided structurally: the guard of the continue_record() step is implied by `len > 0`, lies on every path of
    the loop body, and the branch without a further fragment leaves the function."""
    from .kit import always_leaves
    F = ctx.facts("default")
    fn = F.fn("xls::read_dbcs")
    key = "xls::read_dbcs|R-DBCS-PROGRESS"
    if fn is None:
        rep.anchor_missing("R-DBCS-PROGRESS", "xls::read_dbcs")
        return
    done = False
    for lp, anc in walk_anc(fn.body):
        if lp.get("k") != "Loop" or lp.get("src") != "while":
            continue
        top = unwrap(lp["body"].get("expr")) if lp["body"].get("expr") is not None else None
        if not top or top.get("k") != "If":
            continue
        cond = unwrap(top["cond"])
        lids = [path_local(x)[1] for x in walk_k(cond, "Path") if path_local(x)]
        if len(lids) != 1:
            continue
        lid = lids[0]
        if _implied_by_positive(cond, lid) is not True:
            continue
        body = top["then"]
        steps = [(n, a) for n, a in walk_anc(body) if n.get("k") == "MethodCall" and n.get("name") == "continue_record"]
        if not steps:
            continue
        done = True
        call, canc = steps[0]
        conds = [a for a in canc if a.get("k") in ("If", "Match") and a.get("src") != "TryDesugar"]
        # innermost conditional is `if r.continue_record() {..} else {return Err}`, the one around it is the guard
        inner = conds[-1] if conds else None
        guard = conds[-2] if len(conds) >= 2 else None
        problems = []
        if inner is None or inner.get("k") != "If" or not any(x is call for x in walk(inner["cond"])):
            problems.append("continue_record() is not the condition of an if/else")
        elif inner.get("els") is None or not always_leaves(inner["els"], set()):
            problems.append("the branch taken when there is no further CONTINUE fragment does not leave the function")
        if guard is None:
            pass    # unconditional step: every iteration advances
        else:
            if len(conds) > 2:
                problems.append("the continue_record() step is nested in %d conditionals" % (len(conds) - 1))
            if guard.get("k") != "If":
                problems.append("the guard of the step is not an `if`")
            else:
                in_then = any(x is inner for x in walk(guard["then"]))
                v = _implied_by_positive(guard["cond"], lid)
                if not in_then and v is not None:
                    # the step sits in the else branch (`if len == 0 { break } else { step }`): the guard is the negation
                    v = not v
                    in_then = guard.get("els") is not None and any(x is inner for x in walk(guard["els"]))
                if not in_then or v is not True:
                    problems.append("the guard of the continue_record() step is not implied by the loop condition (it has a conjunct beyond the remaining-character count): an iteration that decoded nothing and still owes characters repeats with identical state")
        if problems:
            rep.violation("R-DBCS-PROGRESS", key, loc(guard or call), "; ".join(problems))
        else:
            rep.holds("R-DBCS-PROGRESS", key, loc(call), "every iteration with characters still owed moves to the next CONTINUE fragment or returns Err")
    if not done:
        # the same loop spelt `loop { decode; if len == 0 { leave } if !r.continue_record() { return Err } .. }`: no path
        # through one iteration reaches the next one without a successful continue_record()
        for lp in walk_k(fn.body, "Loop"):
            if not any(n.get("k") == "MethodCall" and n.get("name") == "continue_record" for n in walk(lp["body"])):
                continue
            done = True
            outs = _iter_outcomes({"k": "BlockExpr", "block": lp["body"]} if lp["body"].get("k") == "Block" else lp["body"], False)
            stale = [o for o in outs if o[0] in ("fall", "cont") and not o[1]]
            if stale:
                rep.violation("R-DBCS-PROGRESS", key, loc(lp), "an iteration of the character loop of read_dbcs can reach the next one without having moved to a further CONTINUE fragment (and without leaving): when nothing could be decoded it repeats with identical state")
            else:
                rep.holds("R-DBCS-PROGRESS", key, loc(lp), "every path through one iteration leaves the loop or passes a successful continue_record()")
            break
    if not done:
        rep.anchor_missing("R-DBCS-PROGRESS", "`while len > 0` loop with a continue_record() step in xls::read_dbcs")


# ----------------------------------------------------------------------------------------------
# R-DBCS-ENC, R-INTCAST, R-CFBCLONE, R-CFBTAB

def r_dbcs_enc(ctx, rep):
    """C12: the three storage forms of BIFF8 characters (code page bytes, 8-bit compressed, 16-bit) must decode to
    the same text.  XlsEncoding::decode_to achieves this by widening compressed bytes to UTF-16 code units and
    sending everything through the one decoder chosen for the workbook.  Decided: every encoding_rs decode call in
    decode_to has `self.encoding` (or the UTF_16LE static) as receiver, and no arm returns before it."""
    F = ctx.facts("default")
    fn = F.fn("cfb::XlsEncoding::decode_to")
    key = "cfb::XlsEncoding::decode_to|R-DBCS-ENC"
    if fn is None:
        rep.anchor_missing("R-DBCS-ENC", "cfb::XlsEncoding::decode_to")
        return
    calls = [n for n in walk_k(fn.body, "MethodCall") if (callee(n) or "").startswith("encoding_rs::Encoding::decode")]
    if not calls:
        rep.anchor_missing("R-DBCS-ENC", "a call of encoding_rs::Encoding::decode* in decode_to")
        return
    bad = []
    for c in calls:
        fc = field_chain(c["recv"])
        pd = path_def(peel(c["recv"]))
        if fc == ("self", ["encoding"]) or (pd or "").endswith("UTF_16LE"):
            continue
        bad.append((c, pd or "?"))
    rets = []
    for r, anc in walk_anc(fn.body):
        if r.get("k") != "Ret":
            continue
        # `if len == 0 { return (0, 0) }`: nothing asked for, nothing consumed, nothing written -- what every arm yields for 0
        v = unwrap(r.get("e")) if r.get("e") is not None else None
        zero = isinstance(v, dict) and v.get("k") == "Tup" and v.get("es") and all(lit_value(x) == 0 for x in v["es"])
        ifs = [a for a in anc if a.get("k") == "If"]
        c = unwrap(ifs[-1]["cond"]) if ifs else None
        on_zero = isinstance(c, dict) and c.get("k") == "Binary" and c.get("op") == "==" and 0 in (lit_value(c["l"]), lit_value(c["r"])) and any(
            path_local(x) and path_local(x)[0] == "len" for x in (peel(c["l"]), peel(c["r"])) if isinstance(x, dict))
        if zero and on_zero and len(ifs) == 1:
            continue
        rets.append(r)
    if bad:
        rep.violation("R-DBCS-ENC", key, loc(bad[0][0]), "decode_to decodes one storage form with its own decoder (%s) instead of the workbook's: the same character reads differently depending on whether the writer stored it compressed or as 16 bits (e.g. U+0085 vs 0x85 in windows-1252)" % bad[0][1])
    elif rets:
        rep.violation("R-DBCS-ENC", key, loc(rets[0]), "an arm of decode_to returns before the common decoder call")
    else:
        rep.holds("R-DBCS-ENC", key, loc(calls[0]), "%d decode call(s), all on self.encoding / UTF_16LE, reached by every arm" % len(calls))


_INTS = ("u8", "u16", "u32", "u64", "usize", "i8", "i16", "i32", "i64", "isize", "u128", "i128")


def r_intcast(ctx, rep):
    """C09 (numeric casts): an integer cell converts to an integer field by one `as` cast.  A chain
    int -> f32/f64 -> int is never equivalent (it rounds beyond 2^53 and saturates instead of wrapping), so no such
    chain may appear in the deserializer."""
    F = ctx.facts("default")
    n = 0
    cnt = defaultdict(int)
    for fn in F.fns_in("src/de.rs"):
        for c in walk_k(fn.body, "Cast"):
            if c.get("ty") not in _INTS:
                continue
            n += 1
            inner = unwrap(c["e"])
            if inner.get("k") == "Cast" and inner.get("ty") in ("f32", "f64") and (unwrap(inner["e"]).get("ty") or "").lstrip("&") in _INTS:
                cnt[fn.name] += 1
                rep.violation("R-INTCAST", "%s|R-INTCAST|%s#%d" % (fn.name, c.get("ty"), cnt[fn.name]), loc(c),
                              "an integer value is converted to %s through %s: values beyond 2^53 lose their low bits and out-of-range values saturate instead of following the documented `as` cast" % (c.get("ty"), inner.get("ty")))
            else:
                k = "%s|R-INTCAST|%s" % (fn.name, c.get("ty"))
                cnt[k] += 1
                rep.holds("R-INTCAST", k + ("" if cnt[k] == 1 else "#%d" % cnt[k]), loc(c), "direct cast", nontrivial=False)
    rep.floor("R-INTCAST", 16, "integer casts in the deserialize_<int> methods of src/de.rs")


def r_cfbclone(ctx, rep):
    """C13: a Cfb caches the sectors read so far from a forward-only reader; a clone made after construction shares
    the reader but not the cache, so using the original after reading through the clone returns bytes from the
    wrong file offset.  Decided: no `Clone::clone` on a cfb::Cfb whose original is used afterwards."""
    n_clone = 0
    for cfg in ctx.configs():
        F = ctx.facts(cfg)
        for fn in F.user_fns():
            calls = []
            for n in walk_k(fn.body, "MethodCall"):
                if n.get("name") != "clone":
                    continue
                n_clone += 1
                t = (peel(n["recv"]).get("ty") or "").replace("&mut ", "").replace("&", "")
                if t == "cfb::Cfb":
                    calls.append(n)
            for i, c in enumerate(calls):
                key = "%s|R-CFBCLONE|#%d" % (fn.name, i + 1)
                pl = path_local(peel(c["recv"]))
                later = []
                if pl:
                    cl = (c["span"]["l"], c["span"]["c"])
                    later = [p for p in walk_k(fn.body, "Path") if path_local(p) and path_local(p)[1] == pl[1] and (p["span"]["l"], p["span"]["c"]) > (c["span"]["el"], c["span"]["ec"])]
                if later or not pl:
                    rep.violation("R-CFBCLONE", key, loc(c), "a cfb::Cfb is cloned and the original is used again at %s: the two copies share one forward-only reader but not the sector cache, so streams read afterwards come from the wrong offset" % (loc(later[0]) if later else "?"))
                else:
                    rep.holds("R-CFBCLONE", key, loc(c), "the original is not used after the clone")
    if n_clone < 10:
        rep.violation("R-CFBCLONE", "R-CFBCLONE|floor", "-", "only %d clone() calls resolved in the crate: the matcher would pass vacuously" % n_clone)
    else:
        rep.holds("R-CFBCLONE", "R-CFBCLONE|scan", "-", "%d clone() calls in the crate, none on a cfb::Cfb that is used afterwards" % n_clone, nontrivial=False)


_VEC_BUILD_OK = ("with_capacity", "new", "extend", "reserve", "collect", "len", "is_empty", "iter", "as_slice", "capacity", "get", "into_iter")


def _tail_paths(e, depth=0):
    """the locals an expression may evaluate *to* (not the ones it merely reads): through blocks, branches, tuples,
    `Ok(..)` / `Some(..)` and `?`"""
    e = unwrap(e) if isinstance(e, dict) else None
    if not isinstance(e, dict) or depth > 8:
        return []
    k = e.get("k")
    if k == "Path":
        return [e]
    if k == "Tup":
        return [p for x in e.get("es", []) for p in _tail_paths(x, depth + 1)]
    if k == "BlockExpr":
        t = e["block"].get("expr")
        return _tail_paths(t, depth + 1) if t is not None else []
    if k == "If":
        return _tail_paths(e["then"], depth + 1) + _tail_paths(e.get("els"), depth + 1)
    if k == "Match" and e.get("src") == "TryDesugar":
        sc = unwrap(e["scrut"])
        return _tail_paths(sc["args"][0], depth + 1) if isinstance(sc, dict) and sc.get("k") == "Call" and sc.get("args") else []
    if k == "Match":
        return [p for a in e.get("arms", []) for p in _tail_paths(a["body"], depth + 1)]
    if k == "Call" and (callee(e) or "").rsplit("::", 1)[-1] in ("Ok", "Some") and len(e.get("args", [])) == 1:
        return _tail_paths(e["args"][0], depth + 1)
    if k in ("Break",) and e.get("inl_ret"):
        return _tail_paths(e.get("e"), depth + 1)
    return []


def r_cfbtab(ctx, rep):
    """C13: the FAT and mini-FAT tables are the concatenation of the decoded table sectors; every sector id of the
    container must keep its entry.  Decided: in Cfb::new the Vec<u32> tables other than the DIFAT work list are only
    built by appending (with_capacity / extend / collect) -- never truncated, popped, resized or reordered."""
    F = ctx.facts("default")
    fn = F.fn("cfb::Cfb::new")
    if fn is None:
        rep.anchor_missing("R-CFBTAB", "cfb::Cfb::new")
        return
    seen = set()
    # the tables are the Vec<u32> locals that end up in the `Cfb { fats, mini_fats, .. }` value (through lets and
    # tuple destructuring); the DIFAT work list, which is legitimately popped, never gets there
    table_lids = set()
    for st_ in walk_k(fn.body, "Struct"):
        if (norm(st_.get("res", {}).get("ctor_of") or st_.get("res", {}).get("def")) or "").endswith("cfb::Cfb"):
            for f_ in st_.get("fields", []):
                for p_ in walk_k(f_["e"], "Path"):
                    if path_local(p_) and "Vec<u32>" in (p_.get("ty") or ""):
                        table_lids.add(path_local(p_)[1])
    for _ in range(3):
        for l_ in walk_k(fn.body, "Let"):
            if l_.get("init") is None:
                continue
            from .kit import pat_bindings as _pb
            if any(lid in table_lids for _, lid in _pb(l_["pat"])):
                for p_ in _tail_paths(l_["init"]):
                    if path_local(p_) and "Vec<u32>" in (p_.get("ty") or ""):
                        table_lids.add(path_local(p_)[1])
    for n in walk_k(fn.body, "MethodCall"):
        r = peel(n["recv"])
        t = (r.get("ty") or "").replace("&mut ", "").replace("&", "")
        pl = path_local(r)
        if t != "alloc::vec::Vec<u32>" or not pl or (table_lids and pl[1] not in table_lids) or (not table_lids and pl[0] == "difat"):
            continue
        key = "cfb::Cfb::new|R-CFBTAB|%s.%s" % (pl[0], n["name"])
        if key in seen:
            continue
        seen.add(key)
        if n["name"] in _VEC_BUILD_OK:
            rep.holds("R-CFBTAB", key, loc(n), "append-only construction")
        else:
            rep.violation("R-CFBTAB", key, loc(n), "the sector table `%s` is modified by `%s` after being decoded: entries of valid sectors can be lost, so a stream whose chain passes through them is cut short or the lookup panics" % (pl[0], n["name"]))
    # the tables must exist
    if not table_lids:
        rep.anchor_missing("R-CFBTAB", "Vec<u32> locals flowing into the Cfb value built by cfb::Cfb::new")
    rep.floor("R-CFBTAB", 1, "fats.extend(..)")


def r_numparse(ctx, rep):
    """C09 (numeric strings): a text cell bound to a numeric field is parsed as that field's type, so "300" for a u8
    or "1.5" for an i32 is an error rather than a silently saturated / truncated number.  Decided: in every
    deserialize_<num> method of DataDeserializer the str::parse call yields the method's own type."""
    F = ctx.facts("default")
    for fn in F.fns_in("src/de.rs"):
        m = re.search(r"::deserialize_([iuf](?:8|16|32|64))$", fn.name)
        if not m or "DataDeserializer" not in fn.name:
            continue
        want = m.group(1)
        key = "DataDeserializer::deserialize_%s|R-NUMPARSE" % want
        ps = [n for n in walk_k(fn.body, "MethodCall") if n.get("name") == "parse" and (callee(n) or "").startswith("core::str::")]
        if not ps:
            rep.violation("R-NUMPARSE", key, loc(fn.raw), "no str::parse call: numeric strings are not converted for %s fields" % want)
            continue
        got = re.match(r"core::result::Result<([^,]+),", ps[0].get("ty") or "")
        got = got.group(1) if got else "?"
        if got == want:
            rep.holds("R-NUMPARSE", key, loc(ps[0]), "text is parsed as %s" % want)
        else:
            rep.violation("R-NUMPARSE", key, loc(ps[0]), "text bound to a %s field is parsed as %s and then cast: out-of-range and fractional strings are silently saturated / truncated instead of being rejected" % (want, got))
    rep.floor("R-NUMPARSE", 10, "deserialize_{i,u}{8,16,32,64} and deserialize_f{32,64} of DataDeserializer")


# ----------------------------------------------------------------------------------------------
# R-TAB-ATTR: payload widths of the PtgAttr sub-tokens

def _lin(fn, e, depth=0):
    """(a, b) such that e == a * read_u16(payload) + b, or None"""
    e = unwrap(e)
    if not isinstance(e, dict) or depth > 8:
        return None
    k = e.get("k")
    v = lit_value(e) if k in ("Lit",) else None
    if isinstance(v, int) and not isinstance(v, bool):
        return (0, v)
    if k == "Cast":
        return _lin(fn, e["e"], depth + 1)
    if k == "Call" and (callee(e) or "").endswith("read_u16"):
        return (1, 0)
    if k in ("Call", "MethodCall") and (callee_decl(e) or callee(e) or "").rsplit("::", 1)[-1] in ("from", "into") and (e.get("args") or e.get("recv")):
        # a lossless widening written as `usize::from(x)` / `x.into()`
        return _lin(fn, e["args"][0] if k == "Call" else e["recv"], depth + 1)
    if k == "Path":
        pl = path_local(e)
        if pl:
            let, idx = _binding_source(fn, pl[1])
            if let is not None and idx is None:
                return _lin(fn, let["init"], depth + 1)
        return None
    if k == "Binary":
        l, r = _lin(fn, e["l"], depth + 1), _lin(fn, e["r"], depth + 1)
        if l is None or r is None:
            return None
        if e["op"] == "+":
            return (l[0] + r[0], l[1] + r[1])
        if e["op"] == "-":
            return (l[0] - r[0], l[1] - r[1])
        if e["op"] == "*":
            if l[0] == 0:
                return (l[1] * r[0], l[1] * r[1])
            if r[0] == 0:
                return (l[0] * r[1], l[1] * r[1])
    return None


def r_tab_attr(ctx, rep):
    from .r_tables import pat_keys
    from .r_ptg import _ptg_match, _arm_for
    from .runner import load_table
    T = load_table("tables/ptg_attr.json")
    F = ctx.facts("default")
    for which, name in (("xls", "xls::parse_formula"), ("xlsb", "xlsb::parse_formula")):
        fn = F.fn(name)
        m = _ptg_match(fn) if fn else None
        arm = _arm_for(m, 0x19) if m else None
        if arm is None:
            rep.anchor_missing("R-TAB-ATTR", "PtgAttr (0x19) arm of %s" % name)
            continue
        inner = None
        for mm in walk_k(arm["body"], "Match"):
            ints = [k for a in mm["arms"] for k in pat_keys(a["pat"])[0] if k[0] == "int"]
            if len(ints) >= 4:
                inner = mm
                break
        if inner is None:
            rep.anchor_missing("R-TAB-ATTR", "sub-kind match inside the PtgAttr arm of %s" % name)
            continue
        for a in inner["arms"]:
            ks = sorted(k[1] for k in pat_keys(a["pat"])[0] if k[0] == "int")
            if not ks:
                continue
            adv = []
            for asg in walk_k(a["body"], "Assign"):
                cur_lid = fn.params[0].get("lid") if fn.params and fn.params[0].get("k") == "Binding" else None
                if path_local(asg["l"]) and (path_local(asg["l"])[0] == "rgce" or path_local(asg["l"])[1] == cur_lid):
                    for ix in walk_k(asg["r"], "Index"):
                        idx = unwrap(ix["idx"])
                        if idx.get("k") == "Struct":
                            f = {x["name"]: x["e"] for x in idx["fields"]}
                            if "start" in f:
                                adv.append(_lin(fn, f["start"]))
            for code in ks:
                tag = "0x%02x" % code
                key = "%s|R-TAB-ATTR|%s" % (name, tag)
                sp = T["sub"].get(tag)
                if sp is None:
                    rep.violation("R-TAB-ATTR", key, loc(a), "PtgAttr sub-kind %s is not defined by the specification table (tables/ptg_attr.json)" % tag)
                    continue
                if None in adv or not adv:
                    rep.violation("R-TAB-ATTR", key, loc(a), "cannot evaluate how many payload bytes the %s arm consumes" % sp["name"])
                    continue
                tot = (sum(x[0] for x in adv), sum(x[1] for x in adv))
                want = (0, 2) if sp["width"] == 2 else (2, 4)
                if tot == want:
                    rep.holds("R-TAB-ATTR", key, loc(a), "%s consumes %s payload bytes" % (sp["name"], sp["width"]))
                else:
                    got = ("%d" % tot[1]) if tot[0] == 0 else "%d * cOffset + %d" % tot
                    rep.violation("R-TAB-ATTR", key, loc(a), "%s must consume %s payload bytes but the %s decoder consumes %s: the tokens after it are read from the wrong offset" % (sp["name"], sp["width"], which, got))
    rep.floor("R-TAB-ATTR", 14, "PtgAttr sub-kinds handled by the two decoders")


# ----------------------------------------------------------------------------------------------
# R-VARINT: the xlsb record header decoders read at most 2 (type) / 4 (length) bytes of 7 bits each

def r_varint(ctx, rep):
    """[MS-XLSB] 2.1.4: a record type is 1-2 bytes, a record size 1-4 bytes; each byte contributes its low 7 bits,
    least significant group first, and bit 7 says another byte follows.  The two decoders are constant-bounded
    loops over input bytes: partial evaluation of their MIR (constants computed, input bytes unknown, every branch
    on an unknown explored) yields, per path, the number of bytes read and the shift amounts applied."""
    from . import peval
    F = ctx.facts("default")
    for name, maxb in (("xlsb::RecordIter::read_type", 2), ("xlsb::RecordIter::fill_buffer", 4)):
        key = "%s|R-VARINT" % name
        ms = F.mir.get(name)
        fn = F.fn(name)
        if not ms or fn is None:
            rep.anchor_missing("R-VARINT", name)
            continue

        def on_call(p, t, args):
            c = norm(t.get("resolved") or t.get("callee")) or ""
            if c.endswith("RecordIter::read_u8"):
                p.events.append(("read",))
            return None
        try:
            paths = peval.explore(ms[0], on_call)
        except peval.Bound as ex:
            rep.violation("R-VARINT", key, loc(fn.raw), "partial evaluation did not finish (%s): the decoder is no longer a constant-bounded loop over input bytes" % ex)
            continue
        want = [7 * i for i in range(1, maxb)]
        worst = None
        best = 0
        masks = set()
        for how, ev in paths:
            reads = sum(1 for e in ev if e[0] == "read")
            shifts = [e[1] for e in ev if e[0] == "Shl"]
            masks |= {e[1] for e in ev if e[0] == "mask"}
            if None in shifts:
                worst = worst or "a shift amount is not a compile-time constant on some path"
                continue
            if shifts != want[:len(shifts)]:
                worst = worst or "shift amounts %s on a path (expected a prefix of %s)" % (shifts, want)
            if reads > maxb:
                worst = worst or "a path reads %d bytes (at most %d allowed)" % (reads, maxb)
            if reads not in (len(shifts) + 1, len(shifts) + 2) and not (reads == 0):
                worst = worst or "a path reads %d bytes but applies %d shift(s)" % (reads, len(shifts))
            best = max(best, reads)
        if worst is None and best != maxb:
            worst = "no path reads %d bytes (maximum found: %d): the largest legal value cannot be decoded" % (maxb, best)
        if worst is None and not ({0x7F, 0x80} <= masks):
            worst = "the masks 0x7F (payload bits) and 0x80 (continuation bit) are not both applied (found %s)" % sorted(m for m in masks if m is not None)
        if worst:
            rep.violation("R-VARINT", key, loc(fn.raw), "%s: %s" % (name.rsplit("::", 1)[-1], worst))
        else:
            rep.holds("R-VARINT", key, loc(fn.raw), "%d paths: at most %d bytes, 7-bit groups shifted by %s, continuation bit 0x80" % (len(paths), maxb, want))


# ----------------------------------------------------------------------------------------------
# R-HDRWIN: the eager readers window the stored range at (header row, first column) .. end

def _pattern_sources(fn):
    """lid -> ('ctor', variant) for bindings directly under a tuple-struct pattern of a match arm, or
    ('init', expr) pairing sub-patterns with the corresponding sub-expression of a tuple initialiser"""
    out = {}

    def pair(pat, init):
        pat_k = pat.get("k")
        if pat_k == "Binding":
            out[pat["lid"]] = ("init", init)
            if pat.get("sub"):
                pair(pat["sub"], init)
        elif pat_k == "Tuple" and isinstance(init, dict) and unwrap(init).get("k") == "Tup" and len(unwrap(init)["es"]) == len(pat["pats"]):
            for p, e in zip(pat["pats"], unwrap(init)["es"]):
                pair(p, e)
        elif pat_k == "TupleStruct" and len(pat.get("pats", [])) == 1 and (pat.get("res", {}).get("def") or "").endswith("Option::Some"):
            # Some(x) against an Option-valued initialiser: x is "the payload of init"
            pair(pat["pats"][0], ("some-of", init))
        elif pat_k in ("Tuple", "TupleStruct"):
            for p in pat.get("pats", []):
                pair(p, None)
    for n in walk(fn.body):
        k = n.get("k")
        if k in ("Let", "LetExpr") and n.get("init") is not None:
            pair(n["pat"], n["init"])
        elif k == "Match":
            for a in n["arms"]:
                p = a["pat"]
                if n.get("src") != "TryDesugar":
                    pair(p, n["scrut"])
                if p.get("k") == "TupleStruct":
                    v = norm(p.get("res", {}).get("ctor_of") or p.get("res", {}).get("def"))
                    if (v or "").endswith("Option::Some") and n.get("src") != "TryDesugar":
                        continue        # `Some(x)` against an Option-valued scrutinee: paired above as its payload
                    for sp in p.get("pats", []):
                        if sp.get("k") == "Binding":
                            out[sp["lid"]] = ("ctor", v, n["scrut"])
    return out


def r_hdrwin(ctx, rep):
    """C08: with header_row = Row(n) the eager readers (xls, ods) return the stored sheet range windowed to
    (n, first column) ..= (last row, last column).  Decided on the call of Range::range in the Row(n) branch of
    worksheet_range: its first argument is the pair (n bound by the HeaderRow::Row pattern, field 1 of the payload of
    `.start()`), its second argument the payload of `.end()` of the same range."""
    F = ctx.facts("default")
    for ty in ("xls::Xls", "ods::Ods"):
        fn = next((f for f in F.fns if f.impl_self == ty and f.impl_trait == "Reader" and f.name.endswith("::worksheet_range")), None)
        key = "%s::worksheet_range|R-HDRWIN" % ty
        if fn is None:
            rep.anchor_missing("R-HDRWIN", "Reader::worksheet_range for %s" % ty)
            continue
        src = _pattern_sources(fn)
        calls = [c for c in walk_k(fn.body, "MethodCall") if c["name"] == "range" and (callee(c) or "").endswith("Range::range") and len(c.get("args", [])) == 2]
        if not calls:
            rep.anchor_missing("R-HDRWIN", "Range::range call in %s" % fn.name)
            continue
        for i, c in enumerate(calls):
            k = key if i == 0 else "%s#%d" % (key, i + 1)
            a0, a1 = unwrap(c["args"][0]), unwrap(c["args"][1])
            probs = []

            def is_payload_of(e, meth):
                pl = path_local(e)
                s_ = src.get(pl[1]) if pl else None
                if not s_ or s_[0] != "init" or not isinstance(s_[1], tuple) or s_[1][0] != "some-of":
                    return False
                init = unwrap(s_[1][1]) if s_[1][1] is not None else None
                # `let start = sheet.start(); match start { Some(start) => ..` : follow the local to its initialiser
                for _ in range(3):
                    pl2 = path_local(init) if isinstance(init, dict) and init.get("k") == "Path" else None
                    s2 = src.get(pl2[1]) if pl2 else None
                    if s2 and s2[0] == "init" and isinstance(s2[1], dict):
                        init = unwrap(s2[1])
                    else:
                        break
                return bool(init) and init.get("k") == "MethodCall" and init.get("name") == meth
            if a0.get("k") != "Tup" or len(a0["es"]) != 2:
                probs.append("the window start is not a (row, column) pair")
            else:
                r0, c0 = unwrap(a0["es"][0]), unwrap(a0["es"][1])
                pl = path_local(r0)
                s_ = src.get(pl[1]) if pl else None
                if not s_ or s_[0] != "ctor" or not (s_[1] or "").endswith("HeaderRow::Row"):
                    probs.append("the window's first row is not the n of HeaderRow::Row(n)")
                if not (c0.get("k") == "Field" and c0.get("name") == "1" and is_payload_of(c0["e"], "start")):
                    probs.append("the window's first column is not `.1` of the stored range's start()")
            if not is_payload_of(a1, "end"):
                probs.append("the window's end is not the stored range's end()")
            if probs:
                rep.violation("R-HDRWIN", k, loc(c), "%s: %s: cells at or below the header row would be dropped or shifted" % (fn.name, "; ".join(probs)))
            else:
                rep.holds("R-HDRWIN", k, loc(c), "range((n, start.1), end) with start/end of the stored sheet range")


# ----------------------------------------------------------------------------------------------
# R-LENGUARD: a length guard agrees with the error it raises

def r_lenguard(ctx, rep):
    """C02 (every well-formed record reads back): a guard of the form `if buf.len() < K { return Err(Len { expected: E,
    found: buf.len() }) }` states its own contract -- a buffer of `expected` bytes is acceptable.  The guard must
    therefore be exactly `len < expected` (same constant, strict comparison): `<=`, or a larger constant, rejects
    the smallest well-formed record (a one-character string result, a one-cell MULRK)."""
    n = 0
    F = ctx.facts("default")
    from .kit import inl_params
    for fn in F.fns_in("src/xls.rs", "src/xlsb/mod.rs", "src/xlsb/cells_reader.rs"):
        cnt = 0
        imap = inl_params(fn.body)

        def res(e):
            """look through a parameter of an inlined helper (check_len(found, expected, ..))"""
            pl = path_local(e)
            return imap[pl[1]] if pl and pl[1] in imap else e
        for i in walk_k(fn.body, "If"):
            structs = [x for x in walk_k(i["then"], "Struct") if (norm(x.get("res", {}).get("ctor_of") or x.get("res", {}).get("def")) or "").endswith("Error::Len")]
            if not structs:
                continue
            st = structs[0]
            fields = {f["name"]: f["e"] for f in st.get("fields", [])}
            exp = lit_value(res(fields.get("expected"))) if "expected" in fields else None
            cond = unwrap(i["cond"])
            if not isinstance(exp, int) or cond.get("k") != "Binary" or cond.get("op") not in ("<", "<=", ">", ">=", "!=", "=="):
                continue
            l, r = unwrap(res(cond["l"])), unwrap(res(cond["r"]))
            lenside, const, op = None, None, cond["op"]
            if l.get("k") == "MethodCall" and l.get("name") == "len" and isinstance(lit_value(r), int):
                lenside, const = l, lit_value(r)
            elif r.get("k") == "MethodCall" and r.get("name") == "len" and isinstance(lit_value(l), int):
                lenside, const = r, lit_value(l)
                op = {"<": ">", ">": "<", "<=": ">=", ">=": "<="}.get(op, op)
            if lenside is None:
                continue
            cnt += 1
            n += 1
            key = "%s|R-LENGUARD|#%d" % (fn.name, cnt)
            # rejected lengths under the guard, for the comparison `len op const`
            if op == "<" and const == exp:
                rep.holds("R-LENGUARD", key, loc(i), "rejects exactly len < %d" % exp)
            elif op in ("<", "<=") and (const < exp or (op == "<=" and const < exp)):
                rep.holds("R-LENGUARD", key, loc(i), "rejects only lengths below the stated minimum %d" % exp, nontrivial=False)
            elif op in ("!=",) and const == exp:
                rep.holds("R-LENGUARD", key, loc(i), "exact-length record of %d bytes" % exp)
            else:
                rep.violation("R-LENGUARD", key, loc(i), "the guard `len %s %d` raises Len { expected: %d }: it rejects a buffer of exactly the %d bytes the error message calls sufficient, i.e. the smallest well-formed record of this kind" % (op, const, exp, exp))
    rep.floor("R-LENGUARD", 8, "length guards raising XlsError::Len / XlsbError in the record decoders")


def r_xlsbcell(ctx, rep):
    """C10: [MS-XLSB] 2.5.9 Cell: column (4 bytes), iStyleRef (24 bits), fPhShow + reserved (8 bits).  The style that
    decides date typing is the 24-bit field only: cell_format must build its index from bytes 4, 5 and 6 of the
    record and nothing else (byte 7 carries the show-phonetic flag that East-Asian Excel editions set)."""
    F = ctx.facts("default")
    fn = F.fn("xlsb::cell_format")
    key = "xlsb::cell_format|R-XLSBCELL"
    if fn is None:
        rep.anchor_missing("R-XLSBCELL", "xlsb::cell_format")
        return
    idx = set()
    other = []
    for ix in walk_k(fn.body, "Index"):
        t = (peel(ix["e"]).get("ty") or "")
        if "[u8]" not in t:
            continue
        v = lit_value(ix["idx"])
        if isinstance(v, int):
            idx.add(v)
        else:
            other.append(ix)
    masked = any(b["op"] == "&" and lit_value(b["r"]) == 0x00FFFFFF for b in walk_k(fn.body, "Binary"))
    reads = [c for c in walk_k(fn.body, "Call") if (callee(c) or "").startswith("utils::read_")]
    if idx == {4, 5, 6} and not other and not reads:
        rep.holds("R-XLSBCELL", key, loc(fn.raw), "iStyleRef is assembled from bytes 4, 5, 6 of the cell record")
    elif (reads or other) and masked and not idx - {4, 5, 6, 7}:
        rep.holds("R-XLSBCELL", key, loc(fn.raw), "iStyleRef is read wide and masked to 24 bits")
    else:
        rep.violation("R-XLSBCELL", key, loc(fn.raw), "cell_format builds the style index from bytes %s%s of the cell record instead of the 24-bit iStyleRef (bytes 4..7 exclusive): with the show-phonetic flag in byte 7 set the lookup misses and a date cell is returned as a plain number" % (sorted(idx), " and a wide read" if reads or other else ""))


# ----------------------------------------------------------------------------------------------
# R-ODSWIDTH: every row written into the cropped ods grid has the width of the used rectangle

class _L:
    """linear expression: const + sum coef*atom"""
    def __init__(self, c=0, t=None):
        self.c, self.t = c, dict(t or {})

    def __add__(self, o):
        t = dict(self.t)
        for k, v in o.t.items():
            t[k] = t.get(k, 0) + v
        return _L(self.c + o.c, {k: v for k, v in t.items() if v})

    def __sub__(self, o):
        return self + _L(-o.c, {k: -v for k, v in o.t.items()})

    def subst(self, atom, e):
        if atom not in self.t:
            return self
        k = self.t[atom]
        rest = _L(self.c, {a: v for a, v in self.t.items() if a != atom})
        return rest + _L(k * e.c, {a: k * v for a, v in e.t.items()})

    def __eq__(self, o):
        return self.c == o.c and self.t == o.t

    def __repr__(self):
        s = " + ".join(("%s" % a if v == 1 else "%d*%s" % (v, a)) for a, v in sorted(self.t.items()))
        return (s + (" + %d" % self.c if self.c else "")) if s else str(self.c)


def _lin_named(fn, e, src, depth=0):
    e = unwrap(e)
    if not isinstance(e, dict) or depth > 6:
        return None
    k = e.get("k")
    if k == "Lit" and isinstance(lit_value(e), int) and not isinstance(lit_value(e), bool):
        return _L(lit_value(e))
    if k == "Cast":
        return _lin_named(fn, e["e"], src, depth + 1)
    if k == "Path" and path_local(e):
        # an immutable local bound once to a linear expression (`let full_width = col_max + 1;`) stands for it
        nm_, lid_ = path_local(e)
        for l_ in walk_k(fn.body, "Let"):
            p_ = l_["pat"]
            if l_.get("init") is not None and p_.get("k") == "Binding" and p_.get("lid") == lid_ and "Mut)" not in (p_.get("mode") or "") and not p_.get("sub"):
                i_ = unwrap(l_["init"])
                if isinstance(i_, dict) and (i_.get("k") == "Binary" and i_.get("op") in ("+", "-") or (i_.get("k") == "MethodCall" and i_.get("name") == "len")):
                    r_ = _lin_named(fn, i_, src, depth + 1)      # also `let row_len = row.len();`
                    if r_ is not None:
                        return r_
        return _L(0, {nm_: 1})
    if k == "MethodCall" and e.get("name") == "len":
        return _slice_len(fn, e["recv"], src, depth + 1)
    if k == "Binary" and e.get("op") in ("+", "-"):
        a, b = _lin_named(fn, e["l"], src, depth + 1), _lin_named(fn, e["r"], src, depth + 1)
        if a is None or b is None:
            return None
        return a + b if e["op"] == "+" else a - b
    return None


def _slice_len(fn, e, src, depth=0):
    """length of a slice-valued expression as a linear expression over named locals and len(<local>) atoms"""
    e = peel(e)
    if not isinstance(e, dict) or depth > 6:
        return None
    k = e.get("k")
    if k == "Path" and path_local(e):
        nm, lid = path_local(e)
        s_ = src.get(lid)
        if s_ and s_[0] == "init" and not isinstance(s_[1], tuple) and s_[1] is not None:
            init = unwrap(s_[1])
            if init.get("k") == "Call" and (callee(init) or "").endswith("vec::from_elem") and len(init.get("args", [])) == 2:
                return _lin_named(fn, init["args"][1], src, depth + 1)
            if peel(init).get("k") == "Index" and (peel(peel(init)["idx"]).get("k") in ("Struct", "Call")):
                # a re-slice bound to a (possibly shadowing) local: its length is that of the slice expression
                # unless the range is built from window bounds (`&cells[w[0]..w[1]]`), which stays an atom
                r = _slice_len(fn, init, src, depth + 1)
                if r is not None:
                    return r
        return _L(0, {"len(%s)" % nm: 1})
    if k == "Array" and not e.get("es"):
        return _L(0)        # `&[]`
    if k == "Index":
        base = _slice_len(fn, e["e"], src, depth + 1)
        idx = unwrap(e["idx"])
        if base is None:
            return None
        if idx.get("k") == "Struct":
            f = {x["name"]: x["e"] for x in idx.get("fields", [])}
            st = _lin_named(fn, f["start"], src, depth + 1) if "start" in f else _L(0)
            en = _lin_named(fn, f["end"], src, depth + 1) if "end" in f else base
            if st is None or en is None:
                return None
            return en - st
        if idx.get("k") == "Call" and (callee(idx) or "").endswith("RangeInclusive::new") and len(idx["args"]) == 2:
            st, en = _lin_named(fn, idx["args"][0], src, depth + 1), _lin_named(fn, idx["args"][1], src, depth + 1)
            if st is None or en is None:
                return None
            return en + _L(1) - st
    return None


def r_odswidth(ctx, rep):
    """C04: ods::get_range rebuilds the sheet as a dense grid of width col_max + 1 - col_min.  Every group of
    `extend_from_slice` calls that emits one grid row must add exactly that many cells, whatever the length of the
    stored row: the pushed lengths are evaluated as linear expressions over col_min, col_max and len(row) (with
    len(row) = col_max + 1 in the `Equal` arm of the length comparison) and compared with the width."""
    F = ctx.facts("default")
    fn = F.fn("ods::get_range")
    if fn is None:
        rep.anchor_missing("R-ODSWIDTH", "ods::get_range")
        return
    src = _pattern_sources(fn)
    W = _L(1, {"col_max": 1, "col_min": -1})
    groups = []    # (label, where, [calls], substitution or None)
    seen_calls = set()
    # the arms of `row.len().cmp(&(col_max + 1))`
    for m in walk_k(fn.body, "Match"):
        sc = unwrap(m["scrut"])
        if sc.get("k") == "MethodCall" and sc.get("name") == "cmp":
            lhs = _lin_named(fn, sc["recv"], src)
            rhs = _lin_named(fn, peel(sc["args"][0]), src) if sc.get("args") else None
            for a in m["arms"]:
                v = norm(a["pat"].get("e", {}).get("res", {}).get("def") or a["pat"].get("res", {}).get("def") or "") if isinstance(a.get("pat"), dict) else ""
                calls = [c for c in walk_k(a["body"], "MethodCall") if c["name"] == "extend_from_slice"]
                for c in calls:
                    seen_calls.add(id(c))
                tb = unwrap(a["body"])
                if not calls and isinstance(tb, dict) and tb.get("k") == "Tup" and tb.get("es"):
                    # `let (kept, padding) = match row_len.cmp(&width) { Less => (&row[col_min..], &empty[row_len..]), .. }`
                    # hoisted out of the repeat loop: the arm's slices are what the pushes of the bound names add
                    bound = set()
                    for l_ in walk_k(fn.body, "Let"):
                        if l_.get("init") is not None and unwrap(l_["init"]) is m:
                            bound = {lid for _, lid in pat_bindings(l_["pat"])}
                    if bound:
                        for c in walk_k(fn.body, "MethodCall"):
                            if c["name"] == "extend_from_slice" and c.get("args") and path_local(peel(c["args"][0])) and path_local(peel(c["args"][0]))[1] in bound:
                                seen_calls.add(id(c))
                        calls = [{"k": "MethodCall", "name": "extend_from_slice", "args": [x], "span": x.get("span", a.get("span"))} for x in tb["es"]]
                sub = None
                if v.endswith("Ordering::Equal") and lhs is not None and rhs is not None and len(lhs.t) == 1 and lhs.c == 0:
                    sub = (list(lhs.t)[0], rhs)
                groups.append((v.rsplit("::", 1)[-1] or "arm", a, calls, sub))
    for c in walk_k(fn.body, "MethodCall"):
        if c["name"] == "extend_from_slice" and id(c) not in seen_calls:
            groups.append(("flush", c, [c], None))
    for label, where, calls, sub in groups:
        key = "ods::get_range|R-ODSWIDTH|%s" % label
        if any(i["key"] == key for i in rep.instances):
            key += "#%d" % (1 + sum(1 for i in rep.instances if i["key"].startswith(key)))
        tot = _L(0)
        bad = None
        for c in calls:
            ln = _slice_len(fn, c["args"][0], src)
            if ln is None:
                bad = c
                break
            tot = tot + ln
        if bad is not None:
            rep.violation("R-ODSWIDTH", key, loc(bad), "cannot evaluate how many cells this extend_from_slice adds")
            continue
        if sub:
            tot = tot.subst(sub[0], sub[1])
        if not calls:
            rep.violation("R-ODSWIDTH", key, loc(where), "the `%s` case emits no cells for the row" % label)
        elif tot == W:
            rep.holds("R-ODSWIDTH", key, loc(where), "emits %r cells = the width of the used rectangle" % tot)
        else:
            rep.violation("R-ODSWIDTH", key, loc(where), "the `%s` case emits %r cells per grid row, the used rectangle is %r wide: every later row of the range is displaced" % (label, tot, W))
    rep.floor("R-ODSWIDTH", 4, "flush of interior empty rows + the three arms of the row-length comparison")


# ----------------------------------------------------------------------------------------------
# R-BENIGN: inter-element whitespace and comments never abort a pull loop

def r_benign(ctx, rep):
    """C04 / C16 (every well-formed document): the readers never trim text (R-XMLCFG), so a pretty-printed part
    delivers whitespace Text events -- and possibly Comment events -- between the elements a loop is waiting for.
    28 of the 30 pull loops of the crate let such events fall into an ignoring catch-all; the rule requires it of
    all of them: the first unguarded arm that an Event::Text / Event::Comment reaches must not raise an error."""
    from .r_xml import event_matches, _chain
    from .kit import pat_covers, always_leaves
    F = ctx.facts("default")
    n = 0
    for fn in F.user_fns():
        k = 0
        for em in event_matches(fn):
            if em["loop"] is None:
                continue
            k += 1
            n += 1
            for V in ("Text", "Comment"):
                chain = _chain(em["wrapped"], V)
                hit = None
                for arm in em["match"]["arms"]:
                    if pat_covers(arm["pat"], chain) and arm.get("guard") is None:
                        hit = arm
                        break
                key = "%s|R-BENIGN|loop#%d|%s" % (fn.name, k, V)
                if hit is None:
                    rep.holds("R-BENIGN", key, loc(em["match"]), "no unguarded arm takes Event::%s (it is skipped)" % V, nontrivial=False)
                    continue
                raises = any((path_def(x) or "").endswith("Result::Err") for x in walk_k(hit["body"], "Path")) and always_leaves(hit["body"], set())
                if raises:
                    rep.violation("R-BENIGN", key, loc(hit), "%s: an Event::%s between the expected elements (whitespace of a pretty-printed document, a comment) reaches an arm that returns an error: a well-formed document fails to open" % (fn.name, V))
                else:
                    rep.holds("R-BENIGN", key, loc(hit), "Event::%s is consumed or ignored" % V)
    if n < 25:
        rep.violation("R-BENIGN", "R-BENIGN|floor", "-", "only %d pull loops found (25 confirmed by hand)" % n)


# ----------------------------------------------------------------------------------------------
# R-CFBRES: reserved sector ids never name a sector

MAXREGSECT = 0xFFFFFFFA


def _guard_const(e, lid):
    """smallest constant C such that the boolean expression `e` implies <local lid> < C, or None"""
    e = unwrap(e)
    if not isinstance(e, dict):
        return None
    if e.get("k") == "Binary":
        if e["op"] == "&&":
            cs = [c for c in (_guard_const(e["l"], lid), _guard_const(e["r"], lid)) if c is not None]
            return min(cs) if cs else None
        l, r = peel(e["l"]), peel(e["r"])
        pl, pr = path_local(l), path_local(r)
        vl, vr = lit_value(l), lit_value(r)
        if pl and pl[1] == lid and isinstance(vr, int):
            return {"<": vr, "<=": vr + 1}.get(e["op"])
        if pr and pr[1] == lid and isinstance(vl, int):
            return {">": vl, ">=": vl + 1}.get(e["op"])
    return None


def r_cfbres(ctx, rep):
    """C06 / C13: [MS-CFB] 2.1: sector numbers >= MAXREGSECT (0xFFFFFFFA) are reserved markers (DIFSECT, FATSECT,
    ENDOFCHAIN, FREESECT); they never designate a sector.  Sectors::get computes `id * sector_size` and resizes its
    buffer to that offset, so a reserved value that reaches it asks for terabytes.  Every call of Sectors::get must be
    dominated by a test that implies id < MAXREGSECT (a loop / if condition on the id, or the filter of the iterator
    that produces it)."""
    F = ctx.facts("default")
    n = 0
    for fn in F.fns_in("src/cfb.rs"):
        k = 0
        for c, anc in walk_anc(fn.body):
            if c.get("k") != "MethodCall" or (callee(c) or "") != "cfb::Sectors::get" or not c.get("args"):
                continue
            k += 1
            n += 1
            key = "%s|R-CFBRES|get#%d" % (fn.name, k)
            pl = path_local(peel(c["args"][0]))
            if not pl:
                rep.violation("R-CFBRES", key, loc(c), "the sector id passed to Sectors::get is not a plain local; cannot establish its guard")
                continue
            lid = pl[1]
            best = None
            for a in anc:
                cond = None
                if a.get("k") == "If" and any(x is c for x in walk(a.get("then"))):
                    cond = a["cond"]
                if cond is not None:
                    g = _guard_const(cond, lid)
                    if g is not None:
                        best = g if best is None else min(best, g)
                # the call sits on the other side of `if id >= C { break / continue }` (the early exit was nested at load):
                # reaching it implies id < C
                if a.get("k") == "If" and a.get("els") is not None and any(x is c for x in walk(a["els"])):
                    cu = unwrap(a["cond"])
                    if isinstance(cu, dict) and cu.get("k") == "Binary" and cu.get("op") in (">=", ">"):
                        from .kit import const_value as _cv
                        pl_ = path_local(peel(cu["l"])) if isinstance(peel(cu["l"]), dict) and peel(cu["l"]).get("k") in ("Path", "Unary", "Deref") else None
                        if pl_ is None:
                            for x_ in walk_k(cu["l"], "Path"):
                                pl_ = path_local(x_) or pl_
                        cv_ = _cv(F, cu["r"])
                        if pl_ and pl_[1] == lid and isinstance(cv_, int):
                            g = cv_ if cu["op"] == ">=" else cv_ + 1
                            best = g if best is None else min(best, g)
            # `for id in <iter>.filter(|id| *id < C)`: the filter closure's parameter stands for the loop variable
            for a in anc:
                for f in walk_k(a, "MethodCall") if a.get("k") in ("Match", "Loop", "Call") else []:
                    if f.get("name") == "filter" and f.get("args") and any(x is c for x in walk(a)) and not any(x is c for x in walk(f)):
                        clo = unwrap(f["args"][0])
                        params = [p_ for p_ in walk_k(clo, "Binding")]
                        if params:
                            g = _guard_const(clo.get("body") or clo.get("e") or clo, params[0]["lid"])
                            if g is not None:
                                best = g if best is None else min(best, g)
            if best is not None and best <= MAXREGSECT:
                rep.holds("R-CFBRES", key, loc(c), "dominated by a test implying id < %#x" % best)
            else:
                rep.violation("R-CFBRES", key, loc(c), "%s: Sectors::get(%s) is reached with reserved sector numbers (%s): [MS-CFB] reserves ids >= 0xFFFFFFFA as markers; get() would compute a multi-terabyte offset from them and resize its buffer to it" % (
                    fn.name, pl[0], ("the only bound is id < %#x" % best) if best is not None else "no upper bound on the id dominates the call"))
    rep.floor("R-CFBRES", 3, "DIFAT walk, FAT loading, get_chain")


def r_cfbver(ctx, rep):
    """C13 (512- or 4096-byte sectors, with or without a mini stream): the format version of a compound file
    implies nothing beyond the sector size, which is read from its own header field.  No decision of Cfb::new may
    depend on the version: a condition that reads it accepts a layout in one version and rejects the same layout in
    the other (the pinned tree rejected version-4 files whose root entry has no mini stream)."""
    F = ctx.facts("default")
    fn = F.fn("cfb::Cfb::new")
    key = "cfb::Cfb::new|R-CFBVER"
    if fn is None:
        rep.anchor_missing("R-CFBVER", "cfb::Cfb::new")
        return
    bad = []
    for n in walk(fn.body):
        cond = None
        if n.get("k") == "If":
            cond = n["cond"]
        elif n.get("k") == "Match" and n.get("src") not in ("TryDesugar", "ForLoopDesugar"):
            cond = n["scrut"]
        if cond is None:
            continue
        for f in walk_k(cond, "Field"):
            if f.get("name") in ("version", "_version") and "Header" in (peel(f["e"]).get("ty") or ""):
                bad.append(n)
    if bad:
        rep.violation("R-CFBVER", key, loc(bad[0]), "Cfb::new branches on the header's format version: the same physical layout (e.g. a root entry without mini stream, start = ENDOFCHAIN) is accepted for one version and rejected for the other")
    else:
        rep.holds("R-CFBVER", key, loc(fn.raw), "no decision of Cfb::new reads the format version")


def r_strbytes(ctx, rep):
    """C14 / C16: an XLUnicodeStringNoCch is a flag byte followed by cch characters of one *or two* bytes.  Its byte
    extent is only known after looking at the flag, so (a) the slice handed to the decoder must not be cut at the
    character count, and (b) the formula cursor must advance by the number of bytes the decoder reports, not by an
    expression in the character count."""
    F = ctx.facts("default")
    fn = F.fn("xls::read_unicode_string_no_cch")
    key = "xls::read_unicode_string_no_cch|R-STRBYTES|slice"
    if fn is None:
        rep.anchor_missing("R-STRBYTES", "xls::read_unicode_string_no_cch")
    else:
        calls = [c for c in walk_k(fn.body, "MethodCall") if c.get("name") == "decode_to"]
        if not calls:
            rep.anchor_missing("R-STRBYTES", "decode_to call in read_unicode_string_no_cch")
        else:
            lens = {p["lid"] for p in fn.params if p.get("k") == "Binding" and "usize" in (p.get("ty") or "")}
            arg = calls[0]["args"][0]
            cut = []
            for ix in walk_k(arg, "Index"):
                idx = unwrap(ix["idx"])
                ends = []
                if idx.get("k") == "Struct":
                    ends = [x["e"] for x in idx.get("fields", []) if x["name"] == "end"]
                elif idx.get("k") == "Call" and (callee(idx) or "").endswith("RangeInclusive::new"):
                    ends = idx["args"][1:2]
                for e in ends:
                    if any(path_local(p) and path_local(p)[1] in lens for p in walk_k(e, "Path")):
                        cut.append(ix)
            if cut:
                rep.violation("R-STRBYTES", key, loc(cut[0]), "the bytes handed to the decoder are cut at the character count: a string stored as 16-bit characters (fHighByte = 1) needs twice as many bytes, so only half of it is decoded")
            else:
                rep.holds("R-STRBYTES", key, loc(calls[0]), "the decoder sees the rest of the buffer and stops after cch characters by itself")
    pf = F.fn("xls::parse_formula")
    key = "xls::parse_formula|R-STRBYTES|PtgStr advance"
    if pf is None:
        rep.anchor_missing("R-STRBYTES", "xls::parse_formula")
        return
    from .r_ptg import _ptg_match, _arm_for
    m = _ptg_match(pf)
    arm = _arm_for(m, 0x17) if m else None
    if arm is None:
        rep.anchor_missing("R-STRBYTES", "PtgStr (0x17) arm of xls::parse_formula")
        return
    src = _pattern_sources(pf)
    ok = False
    where = arm
    for asg in walk_k(arm["body"], "Assign"):
        cur_lid = pf.params[0].get("lid") if pf.params and pf.params[0].get("k") == "Binding" else None
        if path_local(asg["l"]) and (path_local(asg["l"])[0] == "rgce" or path_local(asg["l"])[1] == cur_lid):
            where = asg
            for p in walk_k(asg["r"], "Path"):
                pl = path_local(p)
                s_ = src.get(pl[1]) if pl else None
                if s_ and s_[0] == "init" and s_[1] is not None and not isinstance(s_[1], tuple) and any((callee(c) or "").endswith("read_unicode_string_no_cch") or c.get("name") == "decode_to" for c in walk_k(s_[1], "Call", "MethodCall")):
                    ok = True
    if ok:
        rep.holds("R-STRBYTES", key, loc(where), "the cursor advances by the byte count the decoder returned")
    else:
        rep.violation("R-STRBYTES", key, loc(where), "after a PtgStr the formula cursor advances by an expression that does not come from the decoder's byte count: a string literal stored as 16-bit characters leaves the cursor in the middle of it and every later token is misread")


def r_intarm(ctx, rep):
    """C09 (numeric casts): an integer cell (Data::Int) bound to an integer or float field is converted by casting the
    stored i64 itself -- the arm of deserialize_<num> that takes Data::Int casts its own binding, it does not route
    the value through a helper that first turns it into another numeric type."""
    from .kit import pat_variant, pat_bindings
    F = ctx.facts("default")
    n = 0
    for fn in F.fns_in("src/de.rs"):
        m = re.search(r"::deserialize_([iuf](?:8|16|32|64))$", fn.name)
        if not m or "DataDeserializer" not in fn.name:
            continue
        n += 1
        key = "DataDeserializer::deserialize_%s|R-INTARM" % m.group(1)
        arm = None
        for mt in walk_k(fn.body, "Match"):
            for a in mt["arms"]:
                if (pat_variant(a["pat"]) or "").endswith("Data::Int"):
                    arm = a
        if arm is None:
            rep.violation("R-INTARM", key, loc(fn.raw), "no arm takes Data::Int by itself (it is merged with another variant or missing): integer cells no longer convert by a cast of the stored integer")
            continue
        lids = {lid for _, lid in pat_bindings(arm["pat"])}
        direct = [c for c in walk_k(arm["body"], "Cast") if path_local(peel(c["e"])) and path_local(peel(c["e"]))[1] in lids]
        if direct:
            rep.holds("R-INTARM", key, loc(direct[0]), "Data::Int(v) => *v as %s" % direct[0].get("ty"))
        else:
            rep.violation("R-INTARM", key, loc(arm), "the Data::Int arm does not cast its own binding: the integer reaches the field through another conversion (e.g. as_f64), which loses precision beyond 2^53")
    rep.floor("R-INTARM", 10, "deserialize_<num> methods of DataDeserializer")


def r_emptydef(ctx, rep):
    """C09 / C01-C04 (empty cells are absent): a cell is empty iff it is the Empty variant.  Every `is_empty` defined
    for Data / DataRef (the DataType impls and the deserializer's ToCellDeserializer impl) mentions that variant
    and no other; a definition that also calls the emptiness of a payload (String("") ...) changes which cells are
    skipped by readers and by map deserialization."""
    F = ctx.facts("default")
    n = 0
    for fn in F.fns:
        if not fn.name.endswith("::is_empty") or fn.impl_self not in ("datatype::Data", "datatype::DataRef"):
            continue
        n += 1
        key = "%s|R-EMPTYDEF" % fn.name
        variants = set()
        for p in walk(fn.body):
            d = None
            if p.get("k") == "Path":
                d = path_def(p)
            elif p.get("k") in ("PLit",) and isinstance(p.get("e"), dict):
                d = norm(p["e"].get("res", {}).get("ctor_of") or p["e"].get("res", {}).get("def"))
            elif p.get("k") in ("TupleStruct", "Struct") and p.get("res"):
                d = norm(p["res"].get("ctor_of") or p["res"].get("def"))
            if d and re.search(r"datatype::Data(Ref)?::[A-Z]\w*$", d):
                variants.add(d.rsplit("::", 1)[-1])
        payload = [c for c in walk_k(fn.body, "MethodCall") if not (callee(c) or "").endswith("::eq") and not ((callee(c) or "").endswith("::is_empty") and "datatype::" in (callee(c) or ""))]
        payload += [b for b in walk_k(fn.body, "Binary") if b.get("op") in ("||", "&&")]
        deleg = [c for c in walk_k(fn.body, "MethodCall", "Call") if (callee(c) or "").endswith("::is_empty") and "datatype::" in (callee(c) or "")]
        if payload or (variants - {"Empty"}):
            rep.violation("R-EMPTYDEF", key, loc(fn.raw), "%s treats more than the Empty variant as empty (%s): a cell holding an empty string would be dropped by the readers' Empty filter and skipped by map deserialization" % (fn.name, ", ".join(sorted(variants - {"Empty"})) or "a further condition on the value (method call or || / &&)"))
        elif variants == {"Empty"} or deleg:
            rep.holds("R-EMPTYDEF", key, loc(fn.raw), "empty iff the Empty variant" if variants else "delegates to another Data/DataRef is_empty (checked on its own)")
        else:
            rep.violation("R-EMPTYDEF", key, loc(fn.raw), "%s does not test for the Empty variant" % fn.name)
    rep.floor("R-EMPTYDEF", 3, "DataType::is_empty for Data and DataRef, ToCellDeserializer::is_empty for Data")


def r_trunc(ctx, rep):
    """C14 (any column A..XFD): utils::push_column turns a column index into letters; every integer cast on the way
    must be lossless for the values that can reach it.  Decided with the interval analysis of the MIR interpreter: the
    operand interval of each int-to-int cast lies inside the target type (`(col % 26) as u8` does; `col as u8`
    followed by `% 26` truncates every column beyond 255 first)."""
    from . import mirflow
    F = ctx.facts("default")
    name = "utils::push_column"
    if name not in F.mir:
        rep.anchor_missing("R-TRUNC", name)
        return
    P = mirflow.Program(F)
    r = P.runs.get(name)
    if r is None:
        rep.anchor_missing("R-TRUNC", name)
        return
    # push_column plus the helpers extracted from it (functions that did not exist when the rules were written and
    # that it calls, e.g. `column_letter(digit)`): their parameters are bounded by the argument intervals seen at the
    # call sites (private functions only; three rounds)
    newset = set(getattr(F, "new_helpers", []))
    names, work = [name], [name]
    while work:
        x = work.pop()
        for b in P.runs[x].blocks:
            t = b.get("term") or {}
            if t.get("k") == "Call":
                c = mirflow.norm(t.get("resolved") or t.get("callee")) or ""
                if c in newset and c in P.runs and c not in names:
                    names.append(c)
                    work.append(c)
    for _ in range(3):
        P.arg_obs, P.arg_rel_obs, P.arg_field_obs = {}, {}, {}
        for x in names:
            P.runs[x].run()
        P.param_ranges = {n_: {i: v for i, v in o.items() if v[0] > -mirflow.INF or v[1] < mirflow.INF} for n_, o in P.arg_obs.items() if n_ in names}
    casts = {}
    for x in names:
        for tag, v in getattr(P.runs[x], "int_casts", {}).items():
            casts[(x, tag)] = v
    n = 0
    for (x, tag), (tc, lo, hi, fits) in sorted(casts.items()):
        n += 1
        try:
            bi, si = [int(y) for y in tag.split("_")[:2]]
            sp = P.runs[x].blocks[bi]["stmts"][si].get("span", {})
            where = "%s:%s" % (sp.get("f"), sp.get("l"))
        except Exception:
            where = "?"
        key = "%s|R-TRUNC|cast#%d to %s" % (name, n, tc)
        if fits:
            rep.holds("R-TRUNC", key, where, "operand in [%s, %s] fits %s" % (lo, hi, tc))
        else:
            rep.violation("R-TRUNC", key, where, "a value in [%s, %s] is cast to %s: the column index is truncated before its letters are computed, so columns beyond the target's range render as other columns" % (lo, hi, tc))
    if n < 1:
        rep.anchor_missing("R-TRUNC", "integer casts in utils::push_column")


def r_idxwidth(ctx, rep):
    """C01 / C10: the shared-string index and the style index of an xlsx cell are unbounded decimal numbers; they are
    parsed as usize.  A narrower parse type turns a large index into a parse failure that `unwrap_or(0)` maps to
    entry 0 -- the cell silently reads as the first string / style."""
    F = ctx.facts("default")
    fn = F.fn("xlsx::cells_reader::read_v")
    if fn is None:
        rep.anchor_missing("R-IDXWIDTH", "xlsx::cells_reader::read_v")
        return
    n = 0
    for c in walk_k(fn.body, "Call"):
        if not (callee(c) or "").startswith("atoi_simd::parse"):
            continue
        t = re.match(r"core::result::Result<([^,]+),", c.get("ty") or "")
        got = t.group(1) if t else "?"
        # only index parses: their value reaches an Index / get
        n += 1
        key = "xlsx::cells_reader::read_v|R-IDXWIDTH|parse#%d" % n
        if got in ("usize", "u64", "f64", "i64"):
            rep.holds("R-IDXWIDTH", key, loc(c), "parsed as %s" % got)
        else:
            rep.violation("R-IDXWIDTH", key, loc(c), "an index of the cell is parsed as %s: values beyond its range fail to parse and fall back to entry 0 (the first shared string / style) without an error" % got)
    rep.floor("R-IDXWIDTH", 2, "style index and shared-string index parses in read_v")


_UTF16_DECODERS = ("encoding_rs::Encoding::decode", "encoding_rs::Encoding::decode_without_bom_handling", "encoding_rs::Encoding::decode_with_bom_removal",
                   "alloc::string::String::from_utf16", "alloc::string::String::from_utf16_lossy", "core::char::decode_utf16", "core::char::methods::<impl char>::decode_utf16")


def r_utf16(ctx, rep):
    """C03 / C19 (characters outside the BMP): xlsb strings are UTF-16; a surrogate pair is one character.  wide_str
    must hand the code units to a UTF-16 decoder (encoding_rs UTF_16LE, String::from_utf16*, char::decode_utf16); a
    per-unit `char::from_u32` turns every astral character into two replacement characters."""
    F = ctx.facts("default")
    fn = F.fn("xlsb::wide_str")
    key = "xlsb::wide_str|R-UTF16"
    if fn is None:
        rep.anchor_missing("R-UTF16", "xlsb::wide_str")
        return
    dec = [c for c in walk_k(fn.body, "Call", "MethodCall") if (callee(c) or "") in _UTF16_DECODERS]
    per_unit = [c for c in walk_k(fn.body, "Call", "MethodCall") if (callee(c) or "").endswith("from_u32") or (callee(c) or "").endswith("from_u32_unchecked")]
    if dec and not per_unit:
        rep.holds("R-UTF16", key, loc(dec[0]), "decoded by %s" % callee(dec[0]))
    else:
        rep.violation("R-UTF16", key, loc((per_unit or [fn.raw])[0]), "wide_str does not decode its code units with a UTF-16 decoder%s: characters outside the BMP (surrogate pairs) do not survive" % (" (it converts unit by unit with %s)" % callee(per_unit[0]) if per_unit else ""))


def r_bookorder(ctx, rep):
    """C13 (directory-entry order does not matter): a dual-format file holds both a BIFF8 `Workbook` and a BIFF5 `Book`
    stream; the BIFF8 one is the workbook.  parse_workbook asks for the literal name "Workbook" first and for "Book"
    only when that fails -- the choice never depends on the order of the directory entries."""
    F = ctx.facts("default")
    fn = F.fn("xls::Xls::parse_workbook")
    key = "xls::Xls::parse_workbook|R-BOOKORDER"
    if fn is None:
        rep.anchor_missing("R-BOOKORDER", "xls::Xls::parse_workbook")
        return
    calls = sorted((c for c in walk_k(fn.body, "MethodCall") if c.get("name") == "get_stream" and (callee(c) or "").endswith("Cfb::get_stream")), key=lambda c: (c["span"]["l"], c["span"]["c"]))
    names = [lit_value(c["args"][0]) if c.get("args") else None for c in calls]
    if names[:2] == ["Workbook", "Book"] and len(names) == 2:
        # the second call must sit in the failure path of the first
        first, second = calls
        in_fallback = False
        for n, anc in walk_anc(fn.body):
            if n is second:
                in_fallback = any(a.get("k") == "Closure" for a in anc) and any(a.get("k") == "MethodCall" and a.get("name") in ("or_else", "unwrap_or_else") for a in anc)
                in_fallback = in_fallback or any(a.get("k") == "Match" for a in anc if any(x is first for x in walk(a.get("scrut") or {})))
        if in_fallback:
            rep.holds("R-BOOKORDER", key, loc(first), "get_stream(\"Workbook\") first, get_stream(\"Book\") only as its fallback")
        else:
            rep.violation("R-BOOKORDER", key, loc(second), "the `Book` stream is not read only as a fallback of a failed `Workbook` lookup")
    else:
        rep.violation("R-BOOKORDER", key, loc(calls[0] if calls else fn.raw), "the workbook stream is not selected by asking for the literal \"Workbook\" and then \"Book\" (found %s): which of the two streams of a dual-format file is read may depend on the directory order" % names)


_ONE_TO_ONE = ("into_iter", "iter", "map", "collect", "cloned", "enumerate")


def r_names1to1(ctx, rep):
    """C14 / C16: PtgName tokens refer to defined names by their 1-based record number, and defined_names() lists every
    name.  The post-processing of the Lbl list in xls parse_workbook (which prepends the sheet of sheet-local names)
    must therefore be one-to-one: only into_iter / map / collect style adaptors, nothing that drops or reorders."""
    F = ctx.facts("default")
    fn = F.fn("xls::Xls::parse_workbook")
    if fn is None:
        rep.anchor_missing("R-NAMES1TO1", "xls::Xls::parse_workbook")
        return
    n = 0
    for l in walk_k(fn.body, "Let"):
        if l.get("init") is None or l["pat"].get("k") != "Binding":
            continue
        init = unwrap(l["init"])
        chain = []
        e = init
        while isinstance(e, dict) and e.get("k") == "MethodCall":
            chain.append(e["name"])
            e = peel(e["recv"])
        root = path_local(e) if isinstance(e, dict) else None
        if not root or (root[0] != "defined_names" and (e.get("ty") or "") != "alloc::vec::Vec<(alloc::string::String, (core::option::Option<usize>, alloc::string::String))>"):
            continue
        n += 1
        key = "xls::Xls::parse_workbook|R-NAMES1TO1|#%d" % n
        bad = [m for m in chain if m not in _ONE_TO_ONE]
        if bad:
            rep.violation("R-NAMES1TO1", key, loc(l), "the defined-name list is rebuilt with `%s`: entries can be dropped or moved, so every later name changes its record number (a PtgName then shows another name or #REF!) and defined_names() no longer lists every name" % ", ".join(bad))
        else:
            rep.holds("R-NAMES1TO1", key, loc(l), "rebuilt one-to-one (%s)" % " . ".join(reversed(chain)))
    if n == 0:
        # loop form: `for (name, (ixti, f)) in defined_names { ..; out.push((name, f)); }`
        from .kit import for_loops, body_stmts
        for it, pat, body, node in for_loops(fn.body):
            root = peel(it)
            while isinstance(root, dict) and root.get("k") == "MethodCall":
                root = peel(root["recv"])
            rl = path_local(root) if isinstance(root, dict) else None
            if not rl or (rl[0] != "defined_names" and (root.get("ty") or "") != "alloc::vec::Vec<(alloc::string::String, (core::option::Option<usize>, alloc::string::String))>"):
                continue
            n += 1
            key = "xls::Xls::parse_workbook|R-NAMES1TO1|#%d" % n
            top = [st for st in body_stmts(body)]
            top_pushes = [st for st in top if unwrap(st.get("e") or {}).get("k") == "MethodCall" and unwrap(st["e"]).get("name") == "push"]
            all_pushes = [c for c in walk_k(body, "MethodCall") if c.get("name") == "push" and (peel(c["recv"]).get("ty") or "").startswith("alloc::vec::Vec<(alloc::string::String")]
            leaves = [x for x in walk(body) if x.get("k") in ("Continue", "Break", "Ret") and not x["span"].get("desugar")]
            if len(top_pushes) == 1 and len(all_pushes) <= 1 and not leaves:
                rep.holds("R-NAMES1TO1", key, loc(node), "rebuilt one-to-one (one unconditional push per defined name)")
            else:
                rep.violation("R-NAMES1TO1", key, loc(node), "the loop that rebuilds the defined-name list does not push exactly one entry per name (unconditional pushes: %d, pushes: %d, early exits: %d): later names change their record number" % (len(top_pushes), len(all_pushes), len(leaves)))
    rep.floor("R-NAMES1TO1", 1, "the sheet-prefixing pass over defined_names")


# ----------------------------------------------------------------------------------------------
# R-CHARCAST: no `char as u8` on a character that is not known to be ASCII (shared-formula rewriter)

def _ascii_guarded(cast, anc, lid):
    """is the cast inside the then-branch of an `if <lid>.is_ascii_*()` (possibly an else-if chain arm)?"""
    for a in anc:
        if a.get("k") != "If":
            continue
        in_then = any(x is cast for x in walk(a["then"]))
        if not in_then:
            continue
        for m in walk_k(a["cond"], "MethodCall"):
            if m.get("name", "").startswith("is_ascii") and path_local(peel(m["recv"])) and path_local(peel(m["recv"]))[1] == lid:
                return True
    return False


def r_charcast(ctx, rep):
    """C14 (xlsx: the stored text): the rewriter that derives the formulas of a shared group copies every character
    that is not part of a cell reference.  A `char as u8` keeps only the low byte, so it is lossless only for a
    character known to be ASCII: each such cast in replace_cell_names / offset_cell_name must lie in the then-branch
    of an is_ascii_*() test of the same character, or take its character from a buffer that is only filled under
    such a test.  (On the pinned tree a string literal such as "été" made the rewrite fail and with it the whole
    worksheet_formula call.)"""
    F = ctx.facts("default")
    n = 0
    for name in ("xlsx::replace_cell_names", "xlsx::offset_cell_name"):
        fn = F.fn(name)
        if fn is None:
            rep.anchor_missing("R-CHARCAST", name)
            continue
        # buffers of chars that are only pushed to under an ASCII guard
        safe_bufs = set()
        pushes = defaultdict(list)
        for c, anc in walk_anc(fn.body):
            if c.get("k") == "MethodCall" and c.get("name") == "push" and (peel(c["recv"]).get("ty") or "").replace("&mut ", "") == "alloc::vec::Vec<char>" and path_local(peel(c["recv"])):
                arg = peel(c["args"][0]) if c.get("args") else None
                pl = path_local(arg) if arg else None
                pushes[path_local(peel(c["recv"]))[1]].append(bool(pl) and _ascii_guarded(c, anc, pl[1]))
        for lid, oks in pushes.items():
            if oks and all(oks):
                safe_bufs.add(lid)
        params_chars = name.endswith("offset_cell_name")   # its `name: &[char]` argument is such a buffer at every call site
        k = 0
        for c, anc in walk_anc(fn.body):
            if c.get("k") != "Cast" or c.get("ty") != "u8" or (unwrap(c["e"]).get("ty") or "").lstrip("&") != "char":
                continue
            k += 1
            n += 1
            key = "%s|R-CHARCAST|cast#%d" % (name, k)
            pl = path_local(peel(c["e"]))
            ok = False
            why = ""
            if pl and _ascii_guarded(c, anc, pl[1]):
                ok, why = True, "inside `if %s.is_ascii_*()`" % pl[0]
            else:
                # closure parameter of `<buf>.iter().map(|c| *c as u8)`
                for a in anc:
                    if a.get("k") == "MethodCall" and a.get("name") in ("map", "for_each") and any(x is c for x in walk(a.get("args"))):
                        root = peel(a["recv"])
                        while isinstance(root, dict) and root.get("k") == "MethodCall":
                            root = peel(root["recv"])
                        rl = path_local(root) if isinstance(root, dict) else None
                        if rl and (rl[1] in safe_bufs or (params_chars and any(p.get("lid") == rl[1] for p in fn.params))):
                            ok, why = True, "characters of `%s`, a buffer filled only under an ASCII test" % rl[0]
            if ok:
                rep.holds("R-CHARCAST", key, loc(c), why)
            else:
                rep.violation("R-CHARCAST", key, loc(c), "%s: `%s as u8` on a character that is not known to be ASCII: any other character (an accented letter in a string literal or sheet name) is cut to its low byte, the result is not valid UTF-8 and worksheet_formula fails for the whole sheet" % (name, pl[0] if pl else "<char>"))
    # when the rewriter no longer builds bytes there is nothing to cast: that is fine
    if n == 0:
        rep.holds("R-CHARCAST", "xlsx::replace_cell_names|R-CHARCAST|none", "-", "the rewriter performs no char -> u8 cast", nontrivial=False)


def r_ovbachunk(ctx, rep):
    """C18 / C06: a compressed chunk is exhausted after CompressedChunkSize + 1 data bytes, and that can happen exactly
    at the end of a flag group (token count a multiple of 8).  Every read of a flag byte in the chunk loop of
    cfb::decompress_stream must therefore come after a test of the consumed length against the chunk size in the
    same iteration -- otherwise the first header byte of the next chunk is taken for a flag byte."""
    F = ctx.facts("default")
    fn = F.fn("cfb::decompress_stream")
    key = "cfb::decompress_stream|R-OVBACHUNK"
    if fn is None:
        rep.anchor_missing("R-OVBACHUNK", "cfb::decompress_stream")
        return
    found = False
    # the chunk size: a local initialised from `<header> & 0x0FFF`
    size_lids = set()
    for l_ in walk_k(fn.body, "Let"):
        if l_.get("init") is not None and l_["pat"].get("k") == "Binding" and any(b.get("op") == "&" and 0x0FFF in (lit_value(b["l"]), lit_value(b["r"])) for b in walk_k(l_["init"], "Binary")):
            size_lids.add(l_["pat"]["lid"])
    for lp, lanc in walk_anc(fn.body):
        if lp.get("k") != "Loop":
            continue
        for st, anc in walk_anc(lp.get("body") or {}):
            if not (st.get("k") == "Let" and st.get("init") is not None and unwrap(st["init"]).get("k") == "Index" and st["pat"].get("ty") == "u8"
                    and path_local(peel(unwrap(st["init"])["e"])) and fn.params and path_local(peel(unwrap(st["init"])["e"]))[1] == fn.params[0].get("lid")):
                continue
            if any(a.get("k") == "Loop" for a in anc):
                continue          # belongs to an inner loop
            found = True
            guard = None
            # (a) nested form: the read sits in the continuation of `if <chunk exhausted> { break }`
            for a in anc:
                if a.get("k") == "If":
                    lids_ = {path_local(p)[1] for p in walk_k(a["cond"], "Path") if path_local(p)}
                    # the branch that holds the read is the continuation, the other one must leave the loop
                    # (`if exhausted { break } rest`, `if !exhausted { rest } else { break }`, `while !exhausted { rest }`)
                    in_then = any(x is st for x in walk(a["then"]))
                    leaving, cont = (a.get("els"), a["then"]) if in_then else (a["then"], a.get("els"))
                    if size_lids & lids_ and len(lids_) >= 2 and leaving is not None and any(x.get("k") == "Break" for x in walk(leaving)) and cont is not None and any(x is st for x in walk(cont)):
                        guard = a
            if guard is not None:
                rep.holds("R-OVBACHUNK", key, loc(guard), "the flag byte is read only after `chunk_len` was tested against `chunk_size`")
            else:
                rep.violation("R-OVBACHUNK", key, loc(st), "the flag byte of the next token group is read without first testing whether the chunk is exhausted (chunk_len > chunk_size): when a chunk ends exactly on a full flag group, the next chunk's header byte is consumed as a flag byte and the container is misparsed (signature assertion fails)")
    if not found:
        rep.anchor_missing("R-OVBACHUNK", "flag-byte read (`let bit_flags = s[i]`) in the chunk loop of decompress_stream")
