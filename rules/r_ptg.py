"""R-TAB-PTG: the two token decoders (xls / xlsb parse_formula) against the Ptg tables of the specs."""
from .kit import (walk, walk_anc, walk_k, unwrap, peel, loc, callee, path_local, path_def, lit_value, pat_bindings, norm, norm_ty, field_chain)
from .r_tables import pat_keys, spec


def _ptg_match(fn):
    best = None
    for m in walk_k(fn.body, "Match"):
        ints = [k for a in m["arms"] for k in pat_keys(a["pat"])[0] if k[0] == "int"]
        if len(ints) >= 20 and (best is None or len(ints) > best[1]):
            best = (m, len(ints))
    return best[0] if best else None


_SPEC = {}


def _arm_for(m, code):
    """the arm of the dispatch that decodes token `code`, specialised for that token: an inner `match ptg` (several
    token classes sharing one arm) is resolved"""
    from .kit import specialise
    sc = path_local(peel(m["scrut"])) if isinstance(peel(m["scrut"]), dict) and peel(m["scrut"]).get("k") == "Path" else None
    for a in m["arms"]:
        ks, ca = pat_keys(a["pat"])
        for k in ks:
            if k == ("int", code) or (k[0] == "range" and k[1] is not None and k[2] is not None and k[1] <= code <= k[2]):
                if sc is None or not any(x.get("k") == "Match" for x in walk(a["body"])):
                    return a
                key = (id(a), code)
                if key not in _SPEC:
                    _SPEC[key] = dict(a, body=specialise(a["body"], sc[1], code, pat_keys))
                return _SPEC[key]
    return None


def _stack_effect(arm):
    def is_stack(e):
        pl = path_local(peel(e))
        t = (peel(e).get("ty") or "").replace("&mut ", "").replace("&", "")
        return bool(pl) and (pl[0] == "stack" or t == "alloc::vec::Vec<usize>") and not pl[0].startswith("arg")
    push = sum(1 for c in walk_k(arm["body"], "MethodCall") if c["name"] == "push" and is_stack(c["recv"]))
    pop = sum(1 for c in walk_k(arm["body"], "MethodCall") if c["name"] in ("pop", "split_off") and is_stack(c["recv"]))
    return push, pop


def _advances(arm, cursor="rgce"):
    """constant advances `rgce = &rgce[K..]` at the top level of the arm (not inside nested matches/ifs)"""
    out = []
    body = unwrap(arm["body"])
    from .kit import body_stmts
    stmts = body_stmts(arm["body"])
    for s in stmts:
        e = unwrap(s.get("e") or {})
        if e.get("k") == "Assign" and path_local(e["l"]) and path_local(e["l"])[0] == cursor:
            for ix in walk_k(e["r"], "Index"):
                idx = unwrap(ix["idx"])
                if idx.get("k") == "Struct":
                    f = {x["name"]: x["e"] for x in idx["fields"]}
                    st_ = f.get("start")
                    v = lit_value(st_) if st_ is not None else None
                    if v is None and st_ is not None and path_local(st_):
                        # `let operands_len = 6; rgce = &rgce[operands_len..]`
                        for l_ in walk_k(arm["body"], "Let"):
                            if l_.get("init") is not None and l_["pat"].get("k") == "Binding" and l_["pat"].get("lid") == path_local(st_)[1]:
                                v = lit_value(l_["init"])
                    out.append(v)
    return out


INITS = {}
HELPERS = {}


def _dollar_flags(arm):
    """sequence of ('flag', mask or None if unconditional) / ('col', masked?) / ('row',) events in source order"""
    ev = []

    def visit(e, cond_mask):
        e = unwrap(e)
        if not isinstance(e, dict):
            return
        k = e.get("k")
        if k == "If":
            m = None
            for b in walk_k(e["cond"], "Binary"):
                if b["op"] == "&" and isinstance(lit_value(b["r"]), int):
                    m = lit_value(b["r"])
            neg = any(b["op"] == "!=" for b in walk_k(e["cond"], "Binary"))
            zero = any(b["op"] in ("!=", "==") and lit_value(b["r"]) == 0 for b in walk_k(e["cond"], "Binary"))
            # `x & M != M`  (push when the bit is clear)  |  `x & M != 0` (push when set)  |  `x & M == 0`
            sense = "clear" if (neg and not zero) or (not neg and zero) else "set"
            visit(e["then"], (m, sense))
            if e.get("els") is not None:
                visit(e["els"], cond_mask)
            return
        if k == "BlockExpr":
            for s in e["block"].get("stmts", []):
                if s.get("k") in ("Expr", "Semi"):
                    visit(s["e"], cond_mask)
                elif s.get("k") == "Let" and s.get("init") is not None:
                    visit(s["init"], cond_mask)
            if e["block"].get("expr") is not None:
                visit(e["block"]["expr"], cond_mask)
            return
        if k == "MethodCall":
            if e["name"] == "push" and e["args"] and lit_value(e["args"][0]) == "$":
                ev.append(("flag", cond_mask))
                return
            if e["name"] in ("unwrap",):
                visit(e["recv"], cond_mask)
                return
        if k == "Call":
            c = callee(e) or ""
            if c.endswith("utils::push_column"):
                arg = e["args"][0]
                masks = [lit_value(b["r"]) for b in walk_k(arg, "Binary") if b["op"] == "&"]
                # follow let-bound locals of the argument (`let col = read_u16(&[b0, b1 & 0x3F])`)
                for p_ in walk_k(arg, "Path"):
                    lid = p_.get("res", {}).get("lid")
                    if lid in INITS:
                        masks += [lit_value(b["r"]) for b in walk_k(INITS[lid], "Binary") if b["op"] == "&"]
                ev.append(("col", masks, arg))
                return
            if c in HELPERS:
                ev.append(("helper", c, e["args"]))
                return
        # write!(formula, "${}:$", ..) style: literal pieces containing '$'
        if k in ("Call", "MethodCall", "Match"):
            sp = e.get("span", {})
            if sp.get("omac") in ("write", "format") or sp.get("mac") in ("write", "format", "format_args"):
                for n in walk_k(e, "Lit"):
                    v = n["v"]
                    if isinstance(v, dict) and v.get("lit") == "str" and "$" in (v.get("v") or ""):
                        for _ in range(v["v"].count("$")):
                            ev.append(("flag", None))
                return
    visit(arm["body"], "top")
    return ev


def r_tab_ptg(ctx, rep):
    S = spec("ptg.json")
    F = ctx.facts("default")
    fx, fb = F.fn("xls::parse_formula"), F.fn("xlsb::parse_formula")
    if not fx or not fb:
        rep.anchor_missing("R-TAB-PTG", "xls::parse_formula / xlsb::parse_formula")
        return
    mx, mb = _ptg_match(fx), _ptg_match(fb)
    if not mx or not mb:
        rep.anchor_missing("R-TAB-PTG", "the `match ptg` dispatch of both decoders")
        return
    for code_s, tk in sorted(S["tokens"].items()):
        code = int(code_s, 16)
        for which, fn, m in (("xls", fx, mx), ("xlsb", fb, mb)):
            arm = _arm_for(m, code)
            key = "%s|R-TAB-PTG|%s" % (fn.name, tk["name"])
            if arm is None:
                rep.violation("R-TAB-PTG", key, loc(m), "%s has no arm for %s (0x%02X)" % (fn.name, tk["name"], code))
                continue
            push, pop = _stack_effect(arm)
            adv = _advances(arm)
            want_w = tk[which]
            ok_stack = (push - pop) == tk["push"]
            ok_w = (sum(a for a in adv if isinstance(a, int)) == want_w) if want_w else (sum(a for a in adv if isinstance(a, int)) == 0)
            if ok_stack and ok_w:
                rep.holds("R-TAB-PTG", key, loc(arm), "%s: pushes %d operand, consumes %d payload byte(s)" % (tk["name"], tk["push"], want_w))
            elif not ok_stack:
                rep.violation("R-TAB-PTG", key + "|stack", loc(arm), "%s: the %s arm has stack effect %+d (pushes %d, pops %d); an operand token must push exactly one entry, otherwise every operator after it combines the wrong operands" % (fn.name, tk["name"], push - pop, push, pop))
            else:
                rep.violation("R-TAB-PTG", key + "|width", loc(arm), "%s: the %s arm advances the token cursor by %s byte(s); the %s payload is %d bytes (%s): every following token would be decoded from the wrong offset" % (fn.name, tk["name"], adv, tk["name"], want_w, "MS-XLS" if which == "xls" else "MS-XLSB"))
    # sibling agreement on stack effect for every token id both decoders know (minus documented exclusions)
    excl = {int(k, 16) for k in S["sibling_excluded"]}
    ids_x = {k[1] for a in mx["arms"] for k in pat_keys(a["pat"])[0] if k[0] == "int"}
    ids_b = {k[1] for a in mb["arms"] for k in pat_keys(a["pat"])[0] if k[0] == "int"}
    for code in sorted((ids_x & ids_b) - excl):
        ax, ab = _arm_for(mx, code), _arm_for(mb, code)
        key = "parse_formula|R-TAB-PTG|sibling 0x%02X" % code
        ex, eb = _stack_effect(ax), _stack_effect(ab)
        if (ex[0] - ex[1]) == (eb[0] - eb[1]):
            rep.holds("R-TAB-PTG", key, loc(ax), "token 0x%02X has the same stack effect (%+d) in both decoders" % (code, ex[0] - ex[1]), nontrivial=False)
        else:
            rep.violation("R-TAB-PTG", key, loc(ab), "token 0x%02X has stack effect %+d in xls::parse_formula but %+d in xlsb::parse_formula" % (code, ex[0] - ex[1], eb[0] - eb[1]))
    # reference flags and column masks
    colm, rowm = S["col_relative_mask_high_byte"], S["row_relative_mask_high_byte"]
    COLF, ROWF, COLM = (colm, colm << 8), (rowm, rowm << 8), (S["col_mask_high_byte"], S["col_mask_word"])

    def judge(ev):
        problems = []
        for i, e in enumerate(ev):
            if e[0] != "col":
                continue
            masks = [x for x in e[1] if isinstance(x, int)]
            if not any(x in COLM for x in masks):
                problems.append("a column is rendered from the unmasked 16-bit word (its two flag bits are not cleared: relative columns come out as huge column numbers)")
            before = ev[i - 1] if i > 0 else None
            after = ev[i + 1] if i + 1 < len(ev) else None
            if not before or before[0] != "flag" or not isinstance(before[1], tuple):
                problems.append("the column's `$` is unconditional (relative columns are rendered absolute)")
            elif before[1][0] not in COLF or before[1][1] != "clear":
                problems.append("the column's `$` tests mask 0x%02X (%s); the column-relative flag is bit 14 (0x40 of the high byte / 0x4000 of the word), `$` iff clear" % (before[1][0] or 0, before[1][1]))
            if not after or after[0] != "flag" or not isinstance(after[1], tuple):
                problems.append("the row's `$` is unconditional (relative rows are rendered absolute)")
            elif after[1][0] not in ROWF or after[1][1] != "clear":
                problems.append("the row's `$` tests mask 0x%02X (%s); the row-relative flag is bit 15 (0x80 of the high byte / 0x8000 of the word), `$` iff clear" % (after[1][0] or 0, after[1][1]))
        uniq = []
        for p_ in problems:
            if p_ not in uniq:
                uniq.append(p_)
        return uniq

    # helpers that render a reference (local functions calling push_column): judged once
    HELPERS.clear()
    for g in F.user_fns():
        if g.name in ("xls::parse_formula", "xlsb::parse_formula", "xls::parse_defined_names", "utils::push_column"):
            continue
        if any((callee(c) or "").endswith("utils::push_column") for c in walk_k(g.body, "Call")):
            INITS.clear()
            for x in walk(g.body):
                if x.get("k") == "Let" and x.get("init") is not None:
                    for nm, lid in pat_bindings(x["pat"]):
                        INITS[lid] = x["init"]
            ev = _dollar_flags({"body": g.body})
            pr = judge(ev)
            key = "%s|R-TAB-PTG|helper" % g.name
            HELPERS[g.name] = not pr
            if pr:
                rep.violation("R-TAB-PTG", key, loc(g.raw), "%s (reference rendering helper): %s" % (g.name, "; ".join(pr)))
            else:
                rep.holds("R-TAB-PTG", key, loc(g.raw), "helper renders column & 0x3FFF with `$` iff bit 14 clear and the row with `$` iff bit 15 clear")
    for which, fn, m in (("xls", fx, mx), ("xlsb", fb, mb)):
        for code_s in ("0x24", "0x25", "0x3A", "0x3B"):
            code = int(code_s, 16)
            tk = S["tokens"][code_s]
            arm = _arm_for(m, code)
            if arm is None:
                continue
            INITS.clear()
            for x in walk(fn.body):
                if x.get("k") == "Let" and x.get("init") is not None:
                    for nm, lid in pat_bindings(x["pat"]):
                        INITS[lid] = x["init"]
            ev = _dollar_flags(arm)
            cols = [e for e in ev if e[0] in ("col", "helper")]
            key = "%s|R-TAB-PTG|%s|flags" % (fn.name, tk["name"])
            problems = judge(ev)
            for e in ev:
                if e[0] == "helper" and not HELPERS.get(e[1], False):
                    problems.append("the arm renders its reference through %s, which is itself wrong" % e[1])
            if any(e[0] == "helper" for e in ev) and any(e[0] == "flag" for e in ev):
                problems.append("the arm writes a `$` of its own next to the rendering helper")
            want_refs = 2 if "Area" in tk["name"] else 1
            if len(cols) != want_refs:
                problems.append("the arm renders %d cell reference(s), the token holds %d" % (len(cols), want_refs))
            # payload layout: which bytes feed the row and the column of each rendered reference
            lay = S["ref_layout"][which].get(tk["name"])
            helpers = [e for e in ev if e[0] == "helper"]
            if lay and len(helpers) == len(lay):
                from .r_tables import _buf_ranges
                def src_expr(a):
                    seen = set()
                    # `first.0` where `first` is a tuple-valued local / parameter of an inlined helper bound to `(row, col)`
                    f_ = peel(a)
                    if isinstance(f_, dict) and f_.get("k") == "Field" and str(f_.get("name", "")).isdigit() and path_local(f_["e"]) and path_local(f_["e"])[1] in INITS:
                        t_ = unwrap(INITS[path_local(f_["e"])[1]])
                        if t_.get("k") == "Tup" and int(f_["name"]) < len(t_["es"]):
                            a = t_["es"][int(f_["name"])]
                    pl = path_local(a)
                    while pl and pl[1] in INITS and pl[1] not in seen:
                        seen.add(pl[1])
                        a = INITS[pl[1]]
                        pl = path_local(a)
                    # `rowu as u32` etc.
                    for p_ in walk_k(a, "Path"):
                        lid = p_.get("res", {}).get("lid")
                        if lid in INITS and not _buf_ranges(a):
                            return INITS[lid]
                    return a
                for (want_row, want_col), h in zip(lay, helpers):
                    rr = [r_[0] for r_ in _buf_ranges(src_expr(h[2][0]))] or [0]
                    cc = [r_[0] for r_ in _buf_ranges(src_expr(h[2][1]))] or [0]
                    if rr[0] != want_row or cc[0] != want_col:
                        problems.append("a reference is rendered from row bytes at offset %s and column bytes at offset %s; the %s payload stores them at %d and %d" % (rr[0], cc[0], tk["name"], want_row, want_col))
            if not cols:
                rep.violation("R-TAB-PTG", key, loc(arm), "%s: the %s arm never renders a column" % (fn.name, tk["name"]))
            elif problems:
                rep.violation("R-TAB-PTG", key, loc(arm), "%s, %s arm: %s" % (fn.name, tk["name"], "; ".join(problems)))
            else:
                rep.holds("R-TAB-PTG", key, loc(arm), "%s: column masked to 14 bits, `$` on column iff bit 14 clear, `$` on row iff bit 15 clear" % tk["name"])
