"""C11 (totality clause only): no panicking chrono constructor / operator is reachable from the
date conversions with an operand that is not a constant (feature `dates`)."""
from .kit import walk, walk_k, unwrap, peel, loc, callee, callee_decl, path_def, lit_value, norm

# chrono 0.4 API that panics on out-of-range operands (its documentation says so); the fallible twins are try_* / checked_* / *_opt
PANICKY = {
    "milliseconds", "seconds", "minutes", "hours", "days", "weeks",            # TimeDelta::x  (try_x exists)
    "from_ymd", "from_yo", "from_isoywd", "from_num_days_from_ce", "from_hms", "from_hms_milli", "from_hms_micro", "from_hms_nano",
    "from_num_seconds_from_midnight", "and_hms", "and_hms_milli", "and_hms_micro", "and_hms_nano", "from_timestamp", "succ", "pred",
}
PANICKY_OPS = ("core::ops::arith::Add", "core::ops::arith::Sub", "core::ops::arith::AddAssign", "core::ops::arith::SubAssign", "core::ops::arith::Mul", "core::ops::arith::Neg")


def r_c11(ctx, rep):
    F = ctx.facts("dates")
    if "dates" not in F.features:
        rep.anchor_missing("R-PANIC-DATES", "feature `dates` in the analysed configuration")
        return
    n = 0
    for fn in F.user_fns():
        if fn.file not in ("src/datatype.rs", "src/lib.rs", "src/de.rs"):
            continue
        if "::tests::" in fn.name or fn.name.startswith("tests::"):
            continue
        k = 0
        for c in walk_k(fn.body, "Call", "MethodCall", "Binary", "Unary", "AssignOp"):
            cal = callee(c) or ""
            decl = callee_decl(c) or ""
            if "chrono::" not in cal and "chrono::" not in decl:
                continue
            n += 1
            last = cal.rsplit("::", 1)[-1]
            k += 1
            key = "%s|R-PANIC-DATES|%s#%d" % (fn.name, last, k)
            bad = None
            if c["k"] in ("Binary", "Unary", "AssignOp") and any(cal.startswith("<chrono::") and op.rsplit("::", 1)[-1] in cal for op in PANICKY_OPS):
                bad = "the operator `%s` on chrono values panics on overflow (use checked_add_signed / checked_sub_signed)" % c.get("op")
            elif last in PANICKY:
                args = c.get("args", [])
                if not args or not all(lit_value(a) is not None for a in args):
                    bad = "`%s` panics when its operand is out of range (use the try_/checked_/_opt twin)" % cal
            elif last in ("unwrap", "expect"):
                pass
            if bad:
                rep.violation("R-PANIC-DATES", key, loc(c), "%s: %s; the operand derives from the cell's serial value, so a value beyond the representable calendar panics instead of yielding None" % (fn.name, bad))
            else:
                rep.holds("R-PANIC-DATES", key, loc(c), "`%s` is total (fallible/checked API or constant operands)" % (cal or decl))
        # unwrap() of a chrono *_opt constructor: only with constant operands
        for c in walk_k(fn.body, "MethodCall"):
            if c["name"] in ("unwrap", "expect"):
                r = peel(c["recv"])
                rc = callee(r) if isinstance(r, dict) and r.get("k") in ("Call", "MethodCall") else None
                if rc and "chrono::" in rc:
                    n += 1
                    k += 1
                    key = "%s|R-PANIC-DATES|unwrap %s#%d" % (fn.name, rc.rsplit("::", 1)[-1], k)
                    args = r.get("args", [])
                    if all(lit_value(a) is not None for a in args):
                        rep.holds("R-PANIC-DATES", key, loc(c), "unwrap of `%s` with constant operands" % rc)
                    else:
                        rep.violation("R-PANIC-DATES", key, loc(c), "%s unwraps `%s` whose operands are not constants: an out-of-range value panics instead of yielding None" % (fn.name, rc))
    if n < 6:
        rep.anchor_missing("R-PANIC-DATES", "chrono calls in the date conversions (found %d)" % n)
