"""C11 (totality clause only): no panicking chrono constructor / operator is reachable from the
date conversions with an operand that is not a constant (feature `dates`)."""
from .kit import walk, walk_k, unwrap, peel, loc, callee, callee_decl, path_def, lit_value, norm

# chrono 0.4 API that panics on out-of-range operands (its documentation says so); the fallible twins are try_* / checked_* / *_opt
PANICKY = {
    "milliseconds", "seconds", "minutes", "hours", "days", "weeks",            # TimeDelta::x  (try_x exists)
    "from_ymd", "from_yo", "from_isoywd", "from_num_days_from_ce", "from_hms", "from_hms_milli", "from_hms_micro", "from_hms_nano",
    "from_num_seconds_from_midnight", "and_hms", "and_hms_milli", "and_hms_micro", "and_hms_nano", "from_timestamp", "succ", "pred",
}
PANICKY_OPS = ("core::ops::arith::Add", "core::ops::arith::Sub", "core::ops::arith::AddAssign", "core::ops::arith::SubAssign", "core::ops::arith::Mul", "core::ops::arith::Neg")


def r_c11(ctx, rep):
    F = ctx.facts("dates")
    if "dates" not in F.features:
        rep.anchor_missing("R-PANIC-DATES", "feature `dates` in the analysed configuration")
        return
    n = 0
    for fn in F.user_fns():
        if fn.file not in ("src/datatype.rs", "src/lib.rs", "src/de.rs"):
            continue
        if "::tests::" in fn.name or fn.name.startswith("tests::"):
            continue
        k = 0
        for c in walk_k(fn.body, "Call", "MethodCall", "Binary", "Unary", "AssignOp"):
            cal = callee(c) or ""
            decl = callee_decl(c) or ""
            if "chrono::" not in cal and "chrono::" not in decl:
                continue
            n += 1
            last = cal.rsplit("::", 1)[-1]
            k += 1
            key = "%s|R-PANIC-DATES|%s#%d" % (fn.name, last, k)
            bad = None
            if c["k"] in ("Binary", "Unary", "AssignOp") and any(cal.startswith("<chrono::") and op.rsplit("::", 1)[-1] in cal for op in PANICKY_OPS):
                bad = "the operator `%s` on chrono values panics on overflow (use checked_add_signed / checked_sub_signed)" % c.get("op")
            elif last in PANICKY:
                args = c.get("args", [])
                if not args or not all(lit_value(a) is not None for a in args):
                    bad = "`%s` panics when its operand is out of range (use the try_/checked_/_opt twin)" % cal
            elif last in ("unwrap", "expect"):
                pass
            if bad:
                rep.violation("R-PANIC-DATES", key, loc(c), "%s: %s; the operand derives from the cell's serial value, so a value beyond the representable calendar panics instead of yielding None" % (fn.name, bad))
            else:
                rep.holds("R-PANIC-DATES", key, loc(c), "`%s` is total (fallible/checked API or constant operands)" % (cal or decl))
        # unwrap() of a chrono *_opt constructor: only with constant operands
        for c in walk_k(fn.body, "MethodCall"):
            if c["name"] in ("unwrap", "expect"):
                r = peel(c["recv"])
                rc = callee(r) if isinstance(r, dict) and r.get("k") in ("Call", "MethodCall") else None
                if rc and "chrono::" in rc:
                    n += 1
                    k += 1
                    key = "%s|R-PANIC-DATES|unwrap %s#%d" % (fn.name, rc.rsplit("::", 1)[-1], k)
                    args = r.get("args", [])
                    if all(lit_value(a) is not None for a in args):
                        rep.holds("R-PANIC-DATES", key, loc(c), "unwrap of `%s` with constant operands" % rc)
                    else:
                        rep.violation("R-PANIC-DATES", key, loc(c), "%s unwraps `%s` whose operands are not constants: an out-of-range value panics instead of yielding None" % (fn.name, rc))
    if n < 6:
        rep.anchor_missing("R-PANIC-DATES", "chrono calls in the date conversions (found %d)" % n)


# ----------------------------------------------------------------------------------------------
# structural clauses of the conversion itself (added after seeding round 4)

def _const_f(F, name):
    """numeric value of a crate const item given by path suffix, evaluating literal products"""
    for c in F.consts:
        if (norm(c.get("def")) or "").endswith(name) and c.get("body") is not None:
            return _num(c["body"])
    return None


_CUR_F = [None]


def _num(e):
    e = unwrap(e)
    if not isinstance(e, dict):
        return None
    v = lit_value(e)
    if v is None and e.get("k") == "Path" and e.get("res", {}).get("dk") in ("Const", "Static") and _CUR_F[0] is not None:
        # a named constant (`const FIRST_SERIAL_AFTER_FAKE_LEAP_DAY: f64 = 60.0`)
        from .kit import path_def, norm
        for c in _CUR_F[0].consts:
            if norm(c["def"]) == path_def(e) and c.get("body") is not None:
                return _num(c["body"])
    if isinstance(v, (int, float)) and not isinstance(v, bool):
        return float(v)
    if e.get("k") == "Lit":
        raw = e["v"].get("v") if isinstance(e.get("v"), dict) else None
        try:
            return float(str(raw).replace("f64", "").replace("_", ""))
        except (TypeError, ValueError):
            return None
    if e.get("k") == "Binary" and e.get("op") in ("*", "+"):
        a, b = _num(e["l"]), _num(e["r"])
        if a is None or b is None:
            return None
        return a * b if e["op"] == "*" else a + b
    return None


def r_c11_conv(ctx, rep):
    """C11, structural clauses (feature `dates`): the constants of the conversion follow the date-system table
    (R-DATE-TABLE); the 1900 leap-day shim tests the serial *after* the 1904 offset was applied (R-DATE-ORDER); the
    serial is never cast to an unsigned integer, which would clamp negative durations to zero (R-DATE-SIGN); as_date /
    as_time take their value from as_datetime or from ISO text, never from a numeric constructor of their own
    (R-DATE-COMP)."""
    from .runner import load_table
    from .kit import path_local, field_chain, walk_anc
    T = load_table("tables/dates.json")
    F = ctx.facts("dates")
    _CUR_F[0] = F
    dt = F.fn("datatype::ExcelDateTime::as_datetime")
    du = F.fn("datatype::ExcelDateTime::as_duration")
    if dt is None or du is None:
        rep.anchor_missing("R-DATE-TABLE", "ExcelDateTime::as_datetime / as_duration (feature dates)")
        return
    # ---- R-DATE-TABLE
    key = "datatype::ExcelDateTime|R-DATE-TABLE|"
    ymd = None
    from .kit import with_new_callees
    for body_ in with_new_callees(F, dt):
        for c in walk_k(body_, "Call", "MethodCall"):
            if (callee(c) or "").endswith("NaiveDate::from_ymd_opt"):
                ymd = [lit_value(a) for a in c.get("args", [])]
    if ymd == T["epoch_ymd"]:
        rep.holds("R-DATE-TABLE", key + "epoch", loc(dt.raw), "epoch %s" % ymd)
    else:
        rep.violation("R-DATE-TABLE", key + "epoch", loc(dt.raw), "the epoch of the 1900 date system is %s, found %s: every date would be shifted" % (T["epoch_ymd"], ymd))
    diff = _const_f(F, "EXCEL_1900_1904_DIFF")
    msd = _const_f(F, "MS_MULTIPLIER")
    for nm, got, want, what in (("diff-1904", diff, float(T["diff_1904_days"]), "days between the 1900 and 1904 date systems"), ("ms-per-day", msd, float(T["ms_per_day"]), "milliseconds per day")):
        if got == want:
            rep.holds("R-DATE-TABLE", key + nm, loc(dt.raw), "%s = %s" % (what, want))
        else:
            rep.violation("R-DATE-TABLE", key + nm, loc(dt.raw), "%s must be %s, found %s" % (what, want, got))
    # both conversions scale by MS_MULTIPLIER
    for fn in (dt, du):
        uses = [p for p in walk_k(fn.body, "Path") if (path_def(p) or "").endswith("MS_MULTIPLIER")]
        k2 = "%s|R-DATE-TABLE|scale" % fn.name
        if uses:
            rep.holds("R-DATE-TABLE", k2, loc(uses[0]), "serial * MS_MULTIPLIER")
        else:
            rep.violation("R-DATE-TABLE", k2, loc(fn.raw), "%s does not scale the serial by MS_MULTIPLIER (days -> milliseconds)" % fn.name)
    # ---- R-DATE-ORDER: `if f >= 60.0 { f } else { f + 1.0 }` where f is the result of the is_1904 conditional
    key = "datatype::ExcelDateTime::as_datetime|R-DATE-ORDER"
    lets = {}
    for l in walk_k(dt.body, "Let"):
        if l.get("init") is not None and l["pat"].get("k") == "Binding":
            lets[l["pat"]["lid"]] = l
    shim = None
    for i in walk_k(dt.body, "If"):
        c = unwrap(i["cond"])
        if c.get("k") == "Binary" and c.get("op") in (">=", "<", ">", "<=") and any(_num(x) == float(T["leap_bug_threshold"]) for x in (c["l"], c["r"])):
            shim = (i, c)
    if shim is None:
        rep.violation("R-DATE-ORDER", key, loc(dt.raw), "no comparison of the serial with 60 (the fictitious 1900-02-29): serials below 60 would be one day early")
    else:
        i, c = shim
        var = path_local(c["l"]) or path_local(c["r"])
        src_let = lets.get(var[1]) if var else None
        init = unwrap(src_let["init"]) if src_let else None
        after_shift = bool(init) and init.get("k") == "If" and any(fc == ("self", ["is_1904"]) for fc in [field_chain(unwrap(init["cond"]))])
        op_ok = (c["op"] == ">=" and path_local(c["l"])) or (c["op"] == "<" and path_local(c["l"])) or (c["op"] == "<=" and path_local(c["r"])) or (c["op"] == ">" and path_local(c["r"]))
        # which branch adds the day: the one taken when the serial is below 60
        then_adds = any(b.get("k") == "Binary" and b.get("op") == "+" and _num(b["r"]) == float(T["leap_bug_shift_days"]) for b in walk(i["then"]))
        else_adds = i.get("els") is not None and any(b.get("k") == "Binary" and b.get("op") == "+" and _num(b["r"]) == float(T["leap_bug_shift_days"]) for b in walk(i["els"]))
        below_is_then = (c["op"] in ("<",) and bool(path_local(c["l"]))) or (c["op"] in (">",) and bool(path_local(c["r"])))
        adds_ok = (then_adds and not else_adds) if below_is_then else (else_adds and not then_adds)
        if after_shift and op_ok and adds_ok:
            rep.holds("R-DATE-ORDER", key, loc(i), "the +1 day below serial 60 is decided on the value after the 1904 offset")
        else:
            rep.violation("R-DATE-ORDER", key, loc(i), "the 1900 leap-day shim is wrong: %s" % "; ".join(x for x, ok in (
                ("it tests a value that is not the result of the `is_1904` offset (1904-system serials below 60 come out one day late and the conversion is not monotone at 60)", after_shift),
                ("the comparison with 60 is not `serial >= 60` / `serial < 60`", op_ok),
                ("the extra day is not added exactly on the below-60 branch", adds_ok)) if not ok))
    # ---- R-DATE-SIGN
    for fn in (dt, du):
        key = "%s|R-DATE-SIGN" % fn.name
        bad = [c for c in walk_k(fn.body, "Cast") if c.get("ty") in ("u8", "u16", "u32", "u64", "usize", "u128") and (unwrap(c["e"]).get("ty") or "") in ("f64", "f32")]
        if bad:
            rep.violation("R-DATE-SIGN", key, loc(bad[0]), "%s casts the (possibly negative) millisecond count to %s: every negative serial becomes 0, so a duration is no longer the serial times 24 h and the conversion is not monotone" % (fn.name, bad[0]["ty"]))
        else:
            rep.holds("R-DATE-SIGN", key, loc(fn.raw), "the millisecond count stays signed")
    # ---- R-DATE-COMP
    NUMERIC_CTORS = ("from_num_seconds_from_midnight_opt", "from_hms_opt", "from_hms_milli_opt", "from_hms_micro_opt", "from_hms_nano_opt", "from_ymd_opt", "from_yo_opt",
                     "from_num_days_from_ce_opt", "from_num_seconds_from_midnight", "from_hms", "from_ymd")
    n = 0
    for fn in F.fns:
        last = fn.name.rsplit("::", 1)[-1]
        if last not in ("as_time", "as_date") or "ExcelDateTime" in fn.name:
            continue
        n += 1
        key = "%s|R-DATE-COMP" % fn.name
        ctors = [c for c in walk_k(fn.body, "Call", "MethodCall") if (callee(c) or "").rsplit("::", 1)[-1] in NUMERIC_CTORS and "chrono" in (callee(c) or "")]
        # ... nor from a serial of their own making (`ExcelDateTime::new(dt.value.floor(), ..).as_datetime()`): the date of a
        # cell is the date of *its* as_datetime(), which rounds to the millisecond and can carry into the next day
        ctors += [c for c in walk_k(fn.body, "Call") if (callee(c) or "").endswith("ExcelDateTime::new")]
        ctors += [c for c in walk_k(fn.body, "MethodCall") if c.get("name") in ("floor", "ceil", "round", "trunc", "fract") and "f64" in ((peel(c["recv"]) or {}).get("ty") or "")]
        dtc = [c for c in walk_k(fn.body, "MethodCall") if c.get("name") == "as_datetime"]
        if ctors:
            rep.violation("R-DATE-COMP", key, loc(ctors[0]), "%s builds its result with `%s` instead of taking the component of as_datetime(): rounding carries into the next day and out-of-range serials are handled differently from as_datetime" % (fn.name, callee(ctors[0])))
        elif not dtc:
            rep.violation("R-DATE-COMP", key, loc(fn.raw), "%s does not go through as_datetime()" % fn.name)
        else:
            rep.holds("R-DATE-COMP", key, loc(dtc[0]), "component of as_datetime() (ISO text is parsed as text)")
    if n < 2:
        rep.anchor_missing("R-DATE-COMP", "DataType::as_date / as_time (found %d)" % n)
