"""C18 (narrow): structural clauses of the VBA project reader.

R-TAB-VBADIR  the MODULE record walk of vba::read_modules checks the record ids of [MS-OVBA] 2.3.4.2.3.2 in order
R-VBAMOD      a module's name / stream / offset come from the MODULENAME / MODULESTREAMNAME / MODULEOFFSET records, its
              content is decompress_stream(stream[offset..]) keyed by its name, its text is decoded with the project code page
R-TAB-OVBA    the framing constants of cfb::decompress_stream follow [MS-OVBA] 2.4.1
"""
from .kit import (walk, walk_anc, walk_k, unwrap, peel, loc, callee, path_local, path_def, lit_value, field_chain, norm, pat_bindings)
from .runner import load_table


def _calls_in_order(fn, names):
    out = []
    for i, (c, anc) in enumerate(walk_anc(fn.body)):
        if c.get("k") not in ("Call", "MethodCall"):
            continue
        cal = callee(c) or ""
        if any(cal.endswith(n) for n in names):
            # a call inside the body of an inlined helper takes the place of the helper's call site
            site = next((a for a in anc if a.get("k") == "BlockExpr" and a.get("inlined") and a.get("span")), None)
            sp = (site or c)["span"]
            out.append(((sp["l"], sp["c"], i), c))
    out.sort(key=lambda t: t[0])
    return [c for _, c in out]


def r_tab_vbadir(ctx, rep):
    T = load_table("tables/ovba.json")
    F = ctx.facts("default")
    fn = F.fn("vba::read_modules")
    if fn is None:
        rep.anchor_missing("R-TAB-VBADIR", "vba::read_modules")
        return
    calls = _calls_in_order(fn, ("vba::check_variable_record", "vba::check_record"))
    got = []
    from .kit import inl_params, const_value
    imap = inl_params(fn.body)
    for c in calls:
        a0 = c["args"][0] if c.get("args") else None
        # the id may arrive through the parameter of a wrapper that was inlined (`read_string_record(0x0019, ..)`)
        hops = 0
        while a0 is not None and lit_value(a0) is None and path_local(peel(a0)) and path_local(peel(a0))[1] in imap and hops < 4:
            a0 = imap[path_local(peel(a0))[1]]
            hops += 1
        v = const_value(F, a0) if a0 is not None else None
        kind = "variable" if (callee(c) or "").endswith("check_variable_record") else "fixed"
        got.append((v, kind, c))
    want = [(int(r["id"], 16), r["kind"], r) for r in T["module_records"]]
    for i, (wid, wkind, wrec) in enumerate(want):
        key = "vba::read_modules|R-TAB-VBADIR|%s" % wrec["id"]
        if i < len(got) and got[i][0] == wid and got[i][1] == wkind:
            rep.holds("R-TAB-VBADIR", key, loc(got[i][2]), "%s checked at position %d as a %s-length record" % (wrec["name"], i + 1, wkind))
        else:
            g = ("0x%04X/%s" % (got[i][0], got[i][1])) if i < len(got) and isinstance(got[i][0], int) else "nothing"
            rep.violation("R-TAB-VBADIR", key, loc(got[i][2]) if i < len(got) else loc(fn.raw), "MODULE record walk: position %d must check %s (%s, %s-length record), found %s: every project's module list would fail to parse or bind the wrong fields" % (i + 1, wrec["name"], wrec["id"], wkind, g))
    if len(got) > len(want):
        rep.violation("R-TAB-VBADIR", "vba::read_modules|R-TAB-VBADIR|extra", loc(got[len(want)][2]), "an additional mandatory record check (id %s) follows MODULECOOKIE; [MS-OVBA] has only the type, optional ReadOnly/Private and the terminator there" % got[len(want)][0])
    # type / optional / terminator ids: literal patterns of the two matches on read_u16
    ints = set()
    for m in walk_k(fn.body, "Match"):
        for a in m["arms"]:
            from .kit import pat_literals
            ints |= {v for v in pat_literals(a["pat"])[0] if isinstance(v, int)}     # literals and named constants
    need = {int(x, 16) for x in T["module_type_ids"] + T["module_optional_ids"] + [T["module_terminator"]]}
    key = "vba::read_modules|R-TAB-VBADIR|type+flags+terminator"
    if need <= ints and not (ints - need):
        rep.holds("R-TAB-VBADIR", key, loc(fn.raw), "module type 0x21/0x22, optional 0x25/0x28, terminator 0x2B")
    else:
        rep.violation("R-TAB-VBADIR", key, loc(fn.raw), "the ids matched after MODULECOOKIE are %s, expected exactly %s" % (sorted("0x%X" % i for i in ints), sorted("0x%X" % i for i in need)))


def _let_of(fn, lid):
    for l in walk_k(fn.body, "Let"):
        if l.get("init") is not None and any(b[1] == lid for b in pat_bindings(l["pat"])):
            return l
    return None


def _derives_from_record(fn, e, rec_id, depth=0):
    """does expression e derive (through lets / decode calls) from check_variable_record(rec_id, ..)?"""
    if depth > 5:
        return False
    for c in walk_k(e, "Call"):
        if (callee(c) or "").endswith("vba::check_variable_record") and c.get("args"):
            from .kit import inl_params
            a0, imap, hops = c["args"][0], inl_params(fn.body), 0
            while lit_value(a0) is None and path_local(peel(a0)) and path_local(peel(a0))[1] in imap and hops < 4:
                a0 = imap[path_local(peel(a0))[1]]
                hops += 1
            if lit_value(a0) == rec_id:
                return True
    for p in walk_k(e, "Path"):
        pl = path_local(p)
        if pl:
            l = _let_of(fn, pl[1])
            if l is not None and l["init"] is not e and _derives_from_record(fn, l["init"], rec_id, depth + 1):
                return True
    return False


def r_vbamod(ctx, rep):
    T = load_table("tables/ovba.json")
    F = ctx.facts("default")
    fn = F.fn("vba::read_modules")
    if fn is None:
        rep.anchor_missing("R-VBAMOD", "vba::read_modules")
        return
    roles = {r["role"]: int(r["id"], 16) for r in T["module_records"] if r.get("role")}
    lit = None
    for s_ in walk_k(fn.body, "Struct"):
        if (norm(s_.get("res", {}).get("ctor_of") or s_.get("res", {}).get("def")) or "").endswith("vba::Module"):
            lit = s_
    if lit is None:
        rep.anchor_missing("R-VBAMOD", "struct literal vba::Module in read_modules")
        return
    fields = {f["name"]: f["e"] for f in lit["fields"]}
    for role in ("name", "stream_name"):
        key = "vba::read_modules|R-VBAMOD|%s" % role
        if role in fields and _derives_from_record(fn, fields[role], roles[role]):
            rep.holds("R-VBAMOD", key, loc(lit), "Module.%s comes from record 0x%04X" % (role, roles[role]))
        else:
            rep.violation("R-VBAMOD", key, loc(lit), "Module.%s does not come from the payload of record 0x%04X: modules would be listed under / read from the wrong name" % (role, roles[role]))
    # text_offset: a u32 read that follows check_record(0x0031) and precedes the next check
    key = "vba::read_modules|R-VBAMOD|text_offset"
    offs = fields.get("text_offset")
    ok = False
    if offs is not None and path_local(offs):
        l = _let_of(fn, path_local(offs)[1])
        if l is not None and any(c.get("name") == "read_u32" for c in walk_k(l["init"], "MethodCall")):
            checks = _calls_in_order(fn, ("vba::check_record", "vba::check_variable_record"))
            before = [c for c in checks if (c["span"]["l"], c["span"]["c"]) < (l["span"]["l"], l["span"]["c"])]
            ok = bool(before) and lit_value(before[-1]["args"][0]) == roles["text_offset"] and (callee(before[-1]) or "").endswith("check_record")
    if ok:
        rep.holds("R-VBAMOD", key, loc(lit), "Module.text_offset is the u32 read right after MODULEOFFSET (0x0031)")
    else:
        rep.violation("R-VBAMOD", key, loc(lit), "Module.text_offset is not the 32-bit value of the MODULEOFFSET (0x0031) record: every module would be decompressed from the wrong position")
    # from_cfb: (m.name, decompress_stream(&get_stream(&m.stream_name)[m.text_offset..]))
    fc = F.fn("vba::VbaProject::from_cfb")
    key = "vba::VbaProject::from_cfb|R-VBAMOD|content"
    if fc is None:
        rep.anchor_missing("R-VBAMOD", "vba::VbaProject::from_cfb")
        return
    good = False
    for c in walk_k(fc.body, "Call"):
        if not (callee(c) or "").endswith("cfb::decompress_stream") or not c.get("args"):
            continue
        arg = peel(c["args"][0])
        if arg.get("k") == "Index":
            idx = unwrap(arg["idx"])
            starts = [x["e"] for x in idx.get("fields", []) if x["name"] == "start"] if idx.get("k") == "Struct" else []
            ends = [x for x in idx.get("fields", []) if x["name"] == "end"] if idx.get("k") == "Struct" else [1]
            if starts and not ends and any(f.get("k") == "Field" and f.get("name") == "text_offset" for f in walk(starts[0])):
                good = True
    gs = [c for c in walk_k(fc.body, "MethodCall") if c.get("name") == "get_stream" and any(f.get("k") == "Field" and f.get("name") == "stream_name" for f in walk(c["args"][0]))]
    # the (key, content) pair handed to the map: a 2-tuple written in the source (not a macro expansion) whose first
    # component is the module's name
    pairs = [t for t in walk_k(fc.body, "Tup") if len(t.get("es") or []) == 2 and not t["span"].get("mac") and not t["span"].get("omac")]
    named = bool(pairs) and all(any(f.get("k") == "Field" and f.get("name") == "name" for f in walk(t["es"][0])) for t in pairs)
    # ... or `modules.insert(m.name, code)` on the map that is built
    inserts = [c for c in walk_k(fc.body, "MethodCall") if c.get("name") == "insert" and len(c.get("args", [])) == 2 and "BTreeMap" in (peel(c["recv"]).get("ty") or "")]
    if not pairs and inserts:
        named = all(any(f.get("k") == "Field" and f.get("name") == "name" for f in walk(c["args"][0])) for c in inserts)
    if good and gs and named:
        rep.holds("R-VBAMOD", key, loc(fc.raw), "content = decompress_stream(&get_stream(m.stream_name)[m.text_offset..]) stored under m.name")
    else:
        rep.violation("R-VBAMOD", key, loc(fc.raw), "a module's content is not decompress_stream(stream[m.text_offset..]) of the stream named m.stream_name stored under m.name (slice from text_offset to the end: %s, stream by stream_name: %s, keyed by name: %s)" % (good, bool(gs), named))
    # text = decode_all with the project's encoding, which comes from read_dir_information
    gm = F.fn("vba::VbaProject::get_module")
    key = "vba::VbaProject::get_module|R-VBAMOD|codepage"
    enc_ok = gm is not None and any(c.get("name") == "decode_all" and field_chain(c["recv"]) == ("self", ["encoding"]) for c in walk_k(gm.body, "MethodCall"))
    src_ok = False
    for l in walk_k(fc.body, "Let"):
        if [b[0] for b in pat_bindings(l["pat"])] == ["encoding"] and any((callee(c) or "").endswith("vba::read_dir_information") for c in walk_k(l["init"], "Call")):
            src_ok = True
    di = F.fn("vba::read_dir_information")
    cp_ok = di is not None and any((callee(c) or "").endswith("XlsEncoding::from_codepage") for c in walk_k(di.body, "Call"))
    # ... and nothing else is ever returned as the module's text (a "plain ascii" fast path that returns bytes which
    # happen to be valid UTF-8 bypasses the project's code page)
    others = []
    if gm is not None:
        from .kit import let_init
        for c in walk_k(gm.body, "Call"):
            if (callee(c) or "").endswith("Result::Ok") and not c["span"].get("desugar") and c.get("args"):
                a0 = c["args"][0]
                li = let_init(gm.body, a0)
                src = li["init"] if li is not None else a0
                if not any(m.get("name") == "decode_all" for m in walk_k(src, "MethodCall")):
                    others.append(c)
    if enc_ok and src_ok and cp_ok and others:
        rep.violation("R-VBAMOD", key, loc(others[0]), "get_module has a success value that does not come from self.encoding.decode_all: text in the project's code page whose bytes happen to be well-formed UTF-8 would be returned undecoded")
    elif enc_ok and src_ok and cp_ok:
        rep.holds("R-VBAMOD", key, loc(gm.raw), "module text = self.encoding.decode_all(raw); the encoding is built from the PROJECTCODEPAGE value")
    else:
        rep.violation("R-VBAMOD", key, loc((gm or fc).raw), "module text is not decoded with the code page read from the project's dir stream (decode_all on self.encoding: %s, encoding from read_dir_information: %s, from_codepage there: %s)" % (enc_ok, src_ok, cp_ok))


def r_tab_ovba(ctx, rep):
    T = load_table("tables/ovba.json")
    F = ctx.facts("default")
    fn = F.fn("cfb::decompress_stream")
    if fn is None:
        rep.anchor_missing("R-TAB-OVBA", "cfb::decompress_stream")
        return
    base = "cfb::decompress_stream|R-TAB-OVBA|"
    bins = list(walk_k(fn.body, "Binary"))

    def side(b, v):
        """the operand of commutative `b` other than the literal v, or None"""
        if lit_value(b["r"]) == v:
            return b["l"]
        if lit_value(b["l"]) == v:
            return b["r"]
        return None

    def has_mask(mask, shift=None):
        for b in bins:
            if b["op"] == "&" and side(b, mask) is not None and shift is None:
                return b
            if b["op"] == ">>" and shift is not None and lit_value(b["r"]) == shift:
                inner = [x for x in walk_k(b["l"], "Binary") if x["op"] == "&" and side(x, mask) is not None]
                if inner:
                    return b
        return None
    checks = [
        ("chunk-size", has_mask(T["chunk_size_mask"]), "CompressedChunkSize = header & 0x0FFF"),
        ("chunk-signature", has_mask(T["chunk_signature_mask"], T["chunk_signature_shift"]), "(header & 0x7000) >> 12"),
        ("chunk-flag", has_mask(T["chunk_flag_mask"], T["chunk_flag_shift"]), "(header & 0x8000) >> 15"),
    ]
    for nm, node, what in checks:
        if node is not None:
            rep.holds("R-TAB-OVBA", base + nm, loc(node), what)
        else:
            rep.violation("R-TAB-OVBA", base + nm, loc(fn.raw), "the chunk header is not split as %s ([MS-OVBA] 2.4.1.1.5)" % what)
    # container signature s[0] != 0x01 ; chunk signature compared with 0b011
    from .kit import let_init

    def is_first_byte(e):
        # `s[0]` itself, or a local bound to it (`let signature = s[0];`)
        if any(x.get("k") == "Index" for x in walk(e)):
            return True
        li = let_init(fn.body, e)
        return li is not None and any(x.get("k") == "Index" and lit_value(x.get("idx")) == 0 for x in walk(li["init"]))
    sig = [b for b in bins if b["op"] in ("!=", "==") and side(b, T["container_signature"]) is not None and is_first_byte(side(b, T["container_signature"]))]
    (rep.holds if sig else rep.violation)("R-TAB-OVBA", base + "container-signature", loc(sig[0]) if sig else loc(fn.raw), "first byte compared with 0x01" if sig else "the container signature byte 0x01 is not checked")
    lits = [lit_value(x) for x in walk_k(fn.body, "Lit")]
    csig = T["chunk_signature"] in lits
    (rep.holds if csig else rep.violation)("R-TAB-OVBA", base + "chunk-signature-value", loc(fn.raw), "chunk signature 0b011" if csig else "the chunk signature is not compared with 0b011")
    # raw chunk: 4096 bytes copied and skipped
    raw = [b for b in walk_k(fn.body, "AssignOp") if b.get("op") == "+=" and lit_value(b["r"]) == T["raw_chunk_bytes"]]
    (rep.holds if raw else rep.violation)("R-TAB-OVBA", base + "raw-chunk", loc(raw[0]) if raw else loc(fn.raw), "an uncompressed chunk advances by 4096 bytes" if raw else "an uncompressed chunk does not advance the cursor by 4096 bytes")
    # copy token: bit count range 4..16, length + 3, offset + 1, 0xFFFF >> bit_count, >> (16 - bit_count)
    rng = [s_ for s_ in walk_k(fn.body, "Struct") if {f["name"]: lit_value(f["e"]) for f in s_.get("fields", []) if "e" in f} == {"start": T["copy_min_bit_count"], "end": T["copy_max_bit_count_exclusive"]}]
    (rep.holds if rng else rep.violation)("R-TAB-OVBA", base + "bit-count-range", loc(rng[0]) if rng else loc(fn.raw), "BitCount searched in 4..16" if rng else "BitCount is not searched in 4..16 (minimum 4 bits, [MS-OVBA] 2.4.1.3.19.1)")
    lm = [b for b in bins if b["op"] == ">>" and lit_value(b["l"]) == 0xFFFF]
    (rep.holds if lm else rep.violation)("R-TAB-OVBA", base + "length-mask", loc(lm[0]) if lm else loc(fn.raw), "LengthMask = 0xFFFF >> BitCount" if lm else "LengthMask is not 0xFFFF >> BitCount")
    plus3 = [b for b in bins if b["op"] == "+" and side(b, T["copy_length_bias"]) is not None and any(x["op"] == "&" for x in walk_k(side(b, T["copy_length_bias"]), "Binary"))]
    (rep.holds if plus3 else rep.violation)("R-TAB-OVBA", base + "length-bias", loc(plus3[0]) if plus3 else loc(fn.raw), "length = (token & LengthMask) + 3" if plus3 else "the copy length is not (token & LengthMask) + 3")
    off = [b for b in bins if b["op"] == "+" and side(b, T["copy_offset_bias"]) is not None and any(x["op"] == ">>" and any(y["op"] == "-" and lit_value(y["l"]) == T["token_bits"] for y in walk_k(x["r"], "Binary")) for x in walk_k(side(b, T["copy_offset_bias"]), "Binary"))]
    (rep.holds if off else rep.violation)("R-TAB-OVBA", base + "offset", loc(off[0]) if off else loc(fn.raw), "offset = ((token & !LengthMask) >> (16 - BitCount)) + 1" if off else "the copy offset is not ((token & OffsetMask) >> (16 - BitCount)) + 1")
    neg = [u for u in walk_k(fn.body, "Unary") if u.get("op") == "!"]
    (rep.holds if neg else rep.violation)("R-TAB-OVBA", base + "offset-mask", loc(neg[0]) if neg else loc(fn.raw), "OffsetMask = !LengthMask" if neg else "OffsetMask is not the complement of LengthMask")


def r_vbaref(ctx, rep):
    """C18 (references are listed with their names): in the REFERENCECONTROL arm (0x002F) of Reference::from_stream the
    optional extended-name record (0x0016 + 0x003E) is followed by the reserved id 0x0030, which the other branch of the
    same match has just consumed: both branches must leave the stream right after 0x0030, otherwise the fields behind
    it are read two bytes early and the reference list (and the module list after it) is lost."""
    from .r_tables import pat_keys
    F = ctx.facts("default")
    fn = next((f for f in F.fns if f.name.endswith("vba::Reference::from_stream")), None)
    key = "vba::Reference::from_stream|R-VBAREF|control"
    if fn is None:
        rep.anchor_missing("R-VBAREF", "vba::Reference::from_stream")
        return
    outer = None
    for m in walk_k(fn.body, "Match"):
        for a in m["arms"]:
            if any(k == ("int", 0x002F) for k in pat_keys(a["pat"])[0]):
                outer = a
    if outer is None:
        rep.anchor_missing("R-VBAREF", "REFERENCECONTROL (0x002F) arm of Reference::from_stream")
        return
    inner = None
    for m in walk_k(outer["body"], "Match"):
        ks = [k for a in m["arms"] for k in pat_keys(a["pat"])[0] if k[0] == "int"]
        if ("int", 0x0030) in ks:
            inner = m
    if inner is None:
        rep.violation("R-VBAREF", key, loc(outer), "the control-reference arm no longer distinguishes the optional extended name (0x0016) from the reserved id 0x0030")
        return
    ends = {}
    for a in inner["arms"]:
        ks = [k[1] for k in pat_keys(a["pat"])[0] if k[0] == "int"]
        if not ks:
            continue
        last = ks[0]
        for c in sorted(walk_k(a["body"], "Call"), key=lambda c: (c["span"]["l"], c["span"]["c"])):
            if (callee(c) or "").endswith("vba::check_record") or (callee(c) or "").endswith("vba::check_variable_record"):
                v = lit_value(c["args"][0]) if c.get("args") else None
                if (callee(c) or "").endswith("vba::check_record"):
                    last = v
                else:
                    last = ("var", v)
        ends[ks[0]] = last
    if ends and all(v == 0x0030 for v in ends.values()):
        rep.holds("R-VBAREF", key, loc(inner), "both branches end right after the reserved id 0x0030")
    else:
        rep.violation("R-VBAREF", key, loc(inner), "the branches of the control-reference match do not all end right after the reserved id 0x0030 (%s): with an extended name present the following fields are read from the wrong offset" % ", ".join("0x%04X -> %s" % (k, ("0x%04X" % v) if isinstance(v, int) else v) for k, v in sorted(ends.items())))


def r_ovbastart(ctx, rep):
    """C18: the number of offset bits of a copy token depends on how many bytes of the *current chunk* are already
    decompressed.  The chunk's start position in the output must therefore be taken inside the per-chunk loop."""
    F = ctx.facts("default")
    fn = F.fn("cfb::decompress_stream")
    key = "cfb::decompress_stream|R-OVBASTART"
    if fn is None:
        rep.anchor_missing("R-OVBASTART", "cfb::decompress_stream")
        return
    # the local subtracted from res.len() in `res.len() - start`
    subs = [b for b in walk_k(fn.body, "Binary") if b.get("op") == "-" and unwrap(b["l"]).get("k") == "MethodCall" and unwrap(b["l"]).get("name") == "len" and path_local(b["r"])]
    if not subs:
        rep.anchor_missing("R-OVBASTART", "`res.len() - <chunk start>` in decompress_stream")
        return
    lid = path_local(subs[0]["r"])[1]
    ok = False
    where = subs[0]
    for n, anc in walk_anc(fn.body):
        if n.get("k") == "Let" and n["pat"].get("k") == "Binding" and n["pat"].get("lid") == lid:
            where = n
            ok = any(a.get("k") == "Loop" for a in anc)
    if ok:
        rep.holds("R-OVBASTART", key, loc(where), "the chunk start is taken inside the chunk loop")
    else:
        rep.violation("R-OVBASTART", key, loc(where), "the position subtracted from res.len() to obtain the bytes decompressed in the current chunk is taken outside the chunk loop: from the second chunk on the copy tokens are split with too many offset bits")
