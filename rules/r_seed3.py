"""Rules added after the sixth seeding round (breaking changes disguised inside refactorings; DESIGN.md section 17).

R-FMLAPOS   xls: the position a STRING record's value is stored at is the position of the last FORMULA record --
            state that only the FORMULA arm (and the STRING arm itself) may change
R-POS|row|every-row     de: every row consumed from the range advances the stored row position (no fallible step or
            condition between taking the row and the increment)
R-HDR|all-positional    de: only explicitly requested headers (Headers::Custom) are looked up by name; the default
            (Headers::All) keeps columns positional
"""
from .kit import (walk, walk_anc, walk_k, unwrap, peel, loc, callee, path_local, path_def, lit_value, field_chain, norm,
                  pat_literals, pat_bindings, pat_variant, for_loops, inl_params, used_lids)


def _arm_ints(arm):
    return [v for v in pat_literals(arm["pat"])[0] if isinstance(v, int)]


def _writes_of(root_lid, scope):
    """nodes inside `scope` that may change local `root_lid`: assignments, `&mut` borrows, calls through a `&mut` receiver"""
    out = []
    for n in walk(scope):
        k = n.get("k")
        if k in ("Assign", "AssignOp"):
            pl = path_local(peel(n["l"])) if peel(n["l"]).get("k") == "Path" else None
            fc = field_chain(n["l"])
            lid = pl[1] if pl else None
            if lid is None and fc:
                # a field / tuple-field of the local
                e = peel(n["l"])
                while isinstance(e, dict) and e.get("k") == "Field":
                    e = peel(e["e"])
                pl = path_local(e) if isinstance(e, dict) else None
                lid = pl[1] if pl else None
            if lid == root_lid:
                out.append(n)
        elif k == "AddrOf" and n.get("mut"):
            e = peel(n["e"])
            while isinstance(e, dict) and e.get("k") == "Field":
                e = peel(e["e"])
            pl = path_local(e) if isinstance(e, dict) else None
            if pl and pl[1] == root_lid:
                out.append(n)
        elif k == "MethodCall":
            r = n["recv"]
            aty = r.get("aty") or r.get("ty") or ""
            if aty.startswith("&mut "):
                e = peel(r)
                while isinstance(e, dict) and e.get("k") == "Field":
                    e = peel(e["e"])
                pl = path_local(e) if isinstance(e, dict) else None
                if pl and pl[1] == root_lid:
                    out.append(n)
    return out


def r_fmlapos(ctx, rep):
    """[MS-XLS] 2.1.7.20.6: FORMULA = [Uncalced] Formula [Array / Table / ShrFmla / SUB] [String *Continue].  The STRING
    record carries no position: it belongs to the last FORMULA record, whatever records lie between them.  In the sheet
    record loop of parse_workbook the position used by the 0x0207 arm must therefore come from a local that lives
    across iterations (declared outside the loop) and that nothing but the 0x0006 arm and the 0x0207 arm changes."""
    F = ctx.facts("default")
    fn = F.fn("xls::Xls::parse_workbook")
    if fn is None:
        rep.anchor_missing("R-FMLAPOS", "xls::Xls::parse_workbook")
        return
    key = "xls::Xls::parse_workbook|R-FMLAPOS"
    found = 0
    # the record dispatch and the innermost loop around it (`for record in records`, `while let Some(r) = it.next()`,
    # `loop { match it.next() { .. } }` all desugar to a Loop node)
    loops = []
    for m, anc in walk_anc(fn.body):
        if m.get("k") != "Match":
            continue
        lits = [v for a in m.get("arms", []) for v in _arm_ints(a)]
        if 0x0207 in lits and 0x0006 in lits:
            lp = [a for a in anc if a.get("k") == "Loop"]
            if lp:
                loops.append((m, lp[-1]))
    for disp, lp in loops:
        body = lp["body"]
        pat = {"k": "Wild"}
        found += 1
        arm_s = next(a for a in disp["arms"] if 0x0207 in _arm_ints(a))
        arm_f = next(a for a in disp["arms"] if 0x0006 in _arm_ints(a))
        # the position handed to Cell::new in the STRING arm
        ctor = [c for c in walk_k(arm_s["body"], "Call") if (callee(c) or "").endswith("Cell::new") or (callee(c) or "").endswith("Cell<T>::new")]
        if not ctor:
            rep.violation("R-FMLAPOS", key + "|ctor", loc(arm_s["body"]), "the STRING (0x0207) arm of the sheet record loop builds no Cell: the text value of a formula is lost")
            continue
        # locals declared inside the loop body, with what they are bound from
        inner = {}
        for l in walk_k(body, "Let"):
            if l.get("init") is not None:
                for _, lid in pat_bindings(l["pat"]):
                    inner[lid] = l["init"]
        for m in walk_k(body, "Match"):
            if m.get("src") in ("ForLoopDesugar",):
                continue
            for a in m.get("arms", []):
                for _, lid in pat_bindings(a["pat"]):
                    inner.setdefault(lid, m["scrut"])
        item_lids = {n["lid"] for n in walk_k(body, "Binding")} - set(inner)
        imap = inl_params(body)
        roots, seen, work = set(), set(), [ctor[0]["args"][0]]
        while work:
            e = work.pop()
            for lid in used_lids(e, imap):
                if lid in seen:
                    continue
                seen.add(lid)
                if lid in item_lids:
                    roots.add(("item", lid))
                elif lid in inner:
                    work.append(inner[lid])
                else:
                    roots.add(("outer", lid))
        outer = sorted(l for k, l in roots if k == "outer")
        if any(k == "item" for k, _ in roots) and not outer:
            rep.holds("R-FMLAPOS", key, loc(ctor[0]), "the STRING arm takes its position from the record itself", nontrivial=False)
            continue
        if not outer:
            rep.violation("R-FMLAPOS", key + "|carried", loc(ctor[0]), "the position of the STRING (0x0207) cell does not come from a local that lives across loop iterations: it cannot be the position of the preceding FORMULA record")
            continue
        bad = []
        for lid in outer:
            ws = _writes_of(lid, body)
            if not any(any(x is w for x in walk(arm_f["body"])) for w in ws):
                # the state is never set by the FORMULA arm
                continue
            for w in ws:
                inside = any(x is w for x in walk(arm_f["body"])) or any(x is w for x in walk(arm_s["body"]))
                if not inside:
                    bad.append((lid, w))
        set_by_formula = [lid for lid in outer if any(any(x is w for x in walk(arm_f["body"])) for w in _writes_of(lid, body))]
        if not set_by_formula:
            rep.violation("R-FMLAPOS", key + "|set", loc(arm_f["body"]), "no loop-carried local read by the STRING (0x0207) arm is set by the FORMULA (0x0006) arm: the text value of a formula is stored at a position unrelated to its FORMULA record")
        elif bad:
            rep.violation("R-FMLAPOS", key + "|frame", loc(bad[0][1]),
                          "the pending formula position read by the STRING (0x0207) arm is also changed at %s, outside the FORMULA and STRING arms: a SHRFMLA / ARRAY / TABLE record between a FORMULA and its STRING ([MS-XLS] 2.1.7.20.6) then detaches the text from its cell" % ", ".join(sorted({loc(w) for _, w in bad})))
        else:
            rep.holds("R-FMLAPOS", key, loc(ctor[0]), "STRING arm stores at a loop-carried position written only by the FORMULA arm (%d write(s)) and the STRING arm" % sum(len(_writes_of(l, body)) for l in set_by_formula))
    if found < 1:
        rep.anchor_missing("R-FMLAPOS", "the sheet record dispatch (arms 0x0006 and 0x0207) in xls::Xls::parse_workbook")


def r_pos_everyrow(ctx, rep):
    """C09: an error cell's position is absolute, whatever happened to earlier rows.  RangeDeserializer::next must advance
    current_pos.0 once per row taken from `rows`: between taking the row and the increment there is no fallible step
    (`?`, return) and the increment is not under a condition other than "a row was produced"."""
    F = ctx.facts("default")
    nxt = F.fn("<de::RangeDeserializer as core::iter::traits::iterator::Iterator>::next")
    if nxt is None:
        rep.anchor_missing("R-POS", "Iterator::next for RangeDeserializer")
        return
    # rows are taken in `next` only: any other method that advances the underlying `Rows` iterator (an `nth` / `advance_by`
    # / `fold` fast path) steps over rows the position counter never hears of
    k2 = "de::RangeDeserializer|R-POS|row|rows-only-in-next"
    others = []
    for f in F.user_fns():
        if f is nxt or f.file != "src/de.rs" or not (f.impl_self or "").endswith("RangeDeserializer"):
            continue
        if not (f.params and f.params[0].get("k") == "Binding" and f.params[0].get("name") == "self"):
            continue    # the constructor takes the header row and sets the position to match
        for c in walk_k(f.body, "MethodCall"):
            rty = (peel(c["recv"]).get("ty") or "") if isinstance(peel(c["recv"]), dict) else ""
            if "Rows<" in rty and c.get("name") in ("next", "nth", "skip", "advance_by", "next_back", "nth_back", "last", "fold", "try_fold", "for_each", "count", "step_by", "skip_while", "find", "position", "by_ref", "take"):
                others.append((f, c))
    if others:
        rep.violation("R-POS", k2, loc(others[0][1]), "%s advances the row iterator with `%s` outside `next`: rows stepped over there do not advance current_pos, so every later CellError reports a row that is too small" % (others[0][0].name, others[0][1]["name"]))
    else:
        rep.holds("R-POS", k2, loc(nxt.raw), "only `next` takes rows from the underlying iterator")
    key = "%s|R-POS|row|every-row" % nxt.name
    order = {}
    ancs = {}
    for i, (n, anc) in enumerate(walk_anc(nxt.body)):
        order[id(n)] = i
        ancs[id(n)] = anc
    incs = []
    for n in walk_k(nxt.body, "AssignOp", "Assign"):
        e = peel(n["l"])
        names = []
        while isinstance(e, dict) and e.get("k") == "Field":
            names.append(e["name"])
            e = peel(e["e"])
        ty = (e.get("ty") or "") if isinstance(e, dict) else ""
        if "current_pos" in names or (names == ["0"] and ty.replace("&mut ", "").replace("&", "") == "(u32, u32)"):
            incs.append(n)
    if len(incs) != 1:
        rep.violation("R-POS", key, loc(nxt.raw), "RangeDeserializer::next has %d updates of the row position (expected exactly one `+= 1` per row)" % len(incs))
        return
    inc = incs[0]

    def takes_row(e):
        for c in walk_k(e, "MethodCall"):
            if c.get("name") == "next" and "Rows" in (peel(c["recv"]).get("ty") or ""):
                return True
        return False
    if not any(takes_row(n) for n in [nxt.body]):
        rep.anchor_missing("R-POS", "the rows.next() call of RangeDeserializer::next")
        return
    bad = []
    for a in ancs[id(inc)]:
        k = a.get("k")
        if k == "If" and not takes_row(a["cond"]):
            bad.append((a, "it sits under the condition at %s" % loc(a)))
        elif k == "Match" and a.get("src") not in ("ForLoopDesugar",) and not takes_row(a["scrut"]):
            # a match on something other than the row: the increment is conditional
            in_arms = any(any(x is inc for x in walk(arm["body"])) for arm in a.get("arms", []))
            if in_arms:
                bad.append((a, "it sits in an arm of the match at %s" % loc(a)))
        elif k == "Closure":
            # `rows.next().map(|row| { ..; current_pos.0 += 1; .. })` runs once per row taken
            on_row = any(m.get("k") == "MethodCall" and m.get("name") in ("map", "and_then") and (callee(m) or "").startswith("core::option::Option") and takes_row(m["recv"])
                         and any(unwrap(x) is a for x in m.get("args", [])) for m in ancs[id(inc)])
            if not on_row:
                bad.append((a, "it sits inside a closure"))
        elif k == "Loop":
            bad.append((a, "it sits inside a loop"))
    for n in walk(nxt.body):
        k = n.get("k")
        if order[id(n)] >= order[id(inc)]:
            continue
        if any(x is inc for x in walk(n)):
            continue
        if k == "Match" and n.get("src") == "TryDesugar" and not takes_row(n["scrut"]):
            bad.append((n, "the `?` at %s can leave before it" % loc(n)))
        elif k == "Ret" and not (n["span"].get("desugar")) and not any(a.get("k") == "Match" and a.get("src") == "TryDesugar" for a in ancs[id(n)]):
            cond_on_row = any((a.get("k") == "If" and takes_row(a["cond"])) or (a.get("k") == "Match" and takes_row(a["scrut"])) for a in ancs[id(n)])
            if not cond_on_row:
                bad.append((n, "the return at %s can leave before it" % loc(n)))
    if bad:
        rep.violation("R-POS", key, loc(inc), "the row position is not advanced for every row taken from the range: %s; after a record that fails, every later CellError reports a row that is too small" % "; ".join(sorted({b[1] for b in bad})))
    else:
        rep.holds("R-POS", key, loc(inc), "one unconditional `+= 1` per row taken, no fallible step before it")


def r_hdr_all(ctx, rep):
    """C09: with the default Headers::All a record is positional (cell k of the row is element k); only explicitly
    requested headers (Headers::Custom) are located by name.  A by-name lookup (`position`) fed with anything but the
    list bound by a `Headers::Custom(..)` pattern maps two equal header cells to the first one's column."""
    F = ctx.facts("default")
    fn = F.fn("de::RangeDeserializer::new")
    if fn is None:
        rep.anchor_missing("R-HDR", "RangeDeserializer::new")
        return
    key = "de::RangeDeserializer::new|R-HDR|all-positional"
    custom = set()
    custom_arms = []
    for m in walk_k(fn.body, "Match"):
        for a in m.get("arms", []):
            for p in walk(a["pat"]):
                if p.get("k") in ("TupleStruct", "Struct") and (pat_variant(p) or "").endswith("Headers::Custom"):
                    custom |= {lid for _, lid in pat_bindings(p)}
                    custom_arms.append(a)
    imap = inl_params(fn.body)
    # locals derived from the Custom binding
    changed = True
    derived = set(custom)
    lets = [(l, {lid for _, lid in pat_bindings(l["pat"])}) for l in walk_k(fn.body, "Let") if l.get("init") is not None]
    while changed:
        changed = False
        for l, lids in lets:
            if lids - derived and used_lids(l["init"], imap) & derived:
                derived |= lids
                changed = True
    n = 0
    bad = []
    for c, anc in walk_anc(fn.body):
        if c.get("k") != "MethodCall" or c.get("name") != "position":
            continue
        n += 1
        ok = any(any(x is a for x in custom_arms) for a in anc)
        if not ok:
            for a in anc:
                if a.get("k") == "MethodCall" and used_lids(a["recv"], imap) & derived:
                    ok = True
                if a.get("k") == "Let" and a.get("inl_param"):
                    pass
        if not ok:
            # the lookup itself may be driven by a derived local (`for h in wanted { all.iter().position(..) }`)
            for it, pat, body, node in for_loops(fn.body):
                if any(x is c for x in walk(body)) and used_lids(it, imap) & derived:
                    ok = True
        if not ok:
            bad.append(c)
    if n == 0:
        rep.anchor_missing("R-HDR", "a by-name header lookup (position) in RangeDeserializer::new")
        return
    if not custom:
        rep.anchor_missing("R-HDR", "a Headers::Custom(..) pattern in RangeDeserializer::new")
        return
    if bad:
        rep.violation("R-HDR", key, loc(bad[0]), "a header is looked up by name (`position`) outside the Headers::Custom case: with Headers::All two equal header cells (e.g. two empty ones) select the same column twice, so a positional record repeats the first column and never returns the later one")
    else:
        rep.holds("R-HDR", key, loc(custom_arms[0]["pat"]), "all %d by-name lookup(s) are driven by the list bound from Headers::Custom" % n)


def _follow(body, e, imap, depth=0):
    """the expression with let-bound locals (single plain `let`) and inlined-helper parameters followed to their
    initialisers: yields every expression on the way"""
    from .kit import let_init
    out = [e]
    if depth > 6:
        return out
    for p in walk_k(e, "Path"):
        pl = path_local(p)
        if not pl:
            continue
        if pl[1] in imap:
            out += _follow(body, imap[pl[1]], imap, depth + 1)
            continue
        l = let_init(body, p)
        if l is not None:
            out += _follow(body, l["init"], imap, depth + 1)
        else:
            # bound inside a destructuring `let (text, _, _) = decoder.decode(..)`
            hits = [x for x in walk_k(body, "Let") if x.get("init") is not None and x["pat"].get("k") != "Binding" and any(lid == pl[1] for _, lid in pat_bindings(x["pat"]))]
            if len(hits) == 1:
                out += _follow(body, hits[0]["init"], imap, depth + 1)
    return out


def r_tab_fmlaval(ctx, rep):
    """[MS-XLS] 2.5.133 FormulaValue (the 8-byte cached result of a FORMULA record): byte 0 selects the kind when bytes
    6..8 are 0xFFFF -- 0 string (value in the following STRING record), 1 boolean, 2 error, 3 blank string -- and the
    boolean / error code is byte 2 (byte 1 and bytes 3..6 are unused).  Decided on the slice patterns (or literal
    indexes) of parse_formula_value: the four kinds are told apart, the marker is 0xFF 0xFF at the end, and the only
    payload byte bound or indexed is byte 2."""
    F = ctx.facts("default")
    fn = F.fn("xls::parse_formula_value")
    if fn is None:
        rep.anchor_missing("R-TAB-FMLAVAL", "xls::parse_formula_value")
        return
    key = "xls::parse_formula_value|R-TAB-FMLAVAL"
    arms = [a for m in walk_k(fn.body, "Match") for a in m.get("arms", []) if any(p.get("k") == "Slice" for p in walk(a["pat"]))]
    kinds = set()
    n = 0
    if arms:
        for a in arms:
            for sl in walk_k(a["pat"], "Slice"):
                before, after = sl.get("before") or [], sl.get("after") or []
                if not before:
                    continue
                first = before[0]
                lits = [v for v in pat_literals(first)[0] if isinstance(v, int)]
                mark = [pat_literals(x)[0] for x in after]
                if sl.get("mid") is None and len(before) + len(after) != 8:
                    continue
                n += 1
                k = key + "|" + (",".join(str(v) for v in lits) if lits else "other")
                if lits and mark[-2:] != [[255], [255]]:
                    rep.violation("R-TAB-FMLAVAL", k + "|marker", loc(sl), "a FormulaValue kind byte is matched without the 0xFFFF marker in bytes 6..8: an IEEE number whose low byte happens to be %s would be taken for a boolean / error / string" % lits)
                    continue
                kinds |= set(lits)
                used = used_lids(a["body"]) | (used_lids(a["guard"]) if a.get("guard") else set())
                bad = []
                for i, p in enumerate(before):
                    if i == 0:
                        continue
                    for _, lid in pat_bindings(p):
                        if lid in used and i != 2:
                            bad.append(i)
                mid = sl.get("mid")
                if mid is not None and any(lid in used for _, lid in pat_bindings(mid)) and lits:
                    bad.append("..")
                if bad and (not lits or set(lits) & {1, 2}):
                    rep.violation("R-TAB-FMLAVAL", k + "|byte", loc(sl), "the boolean / error code of a FormulaValue is read from byte %s of the 8-byte value; [MS-XLS] 2.5.133 puts it in byte 2 (byte 1 is unused, 0 in files written by Excel): a cached TRUE reads as false and every cached error as another one" % bad)
                elif set(lits) & {1, 2} and not any(lid in used for _, lid in pat_bindings(before[2])) if len(before) > 2 else set(lits) & {1, 2}:
                    rep.violation("R-TAB-FMLAVAL", k + "|byte", loc(sl), "the arm for FormulaValue kind %s does not use byte 2, where [MS-XLS] 2.5.133 stores the boolean / error code" % lits)
                else:
                    rep.holds("R-TAB-FMLAVAL", k, loc(sl), "kind %s: marker 0xFFFF, payload byte 2 only" % (lits or "other"))
    else:
        # index form: match r[0] { 1 => .. r[2] .. }
        p0 = fn.params[0] if fn.params else None
        lid0 = pat_bindings(p0)[0][1] if p0 and pat_bindings(p0) else None
        idx = []
        for ix in walk_k(fn.body, "Index"):
            pl = path_local(peel(ix["e"])) if isinstance(peel(ix["e"]), dict) and peel(ix["e"]).get("k") == "Path" else None
            v = lit_value(ix["idx"]) if "idx" in ix else None
            if pl and pl[1] == lid0 and isinstance(v, int):
                idx.append((v, ix))
        for m in walk_k(fn.body, "Match"):
            for a in m.get("arms", []):
                kinds |= {v for v in pat_literals(a["pat"])[0] if isinstance(v, int)}
        n = len(idx)
        bad = [(v, ix) for v, ix in idx if v in (1, 3, 4, 5)]
        if bad:
            rep.violation("R-TAB-FMLAVAL", key + "|byte", loc(bad[0][1]), "parse_formula_value reads byte %d of the FormulaValue; [MS-XLS] 2.5.133: kind in byte 0, boolean / error code in byte 2, marker in bytes 6..8" % bad[0][0])
        elif idx:
            rep.holds("R-TAB-FMLAVAL", key, loc(idx[0][1]), "literal indexes %s" % sorted({v for v, _ in idx}))
    if n == 0:
        rep.anchor_missing("R-TAB-FMLAVAL", "slice patterns / literal indexes over the 8-byte value in xls::parse_formula_value")
        return
    missing = {0, 1, 2, 3} - kinds
    if missing:
        rep.violation("R-TAB-FMLAVAL", key + "|kinds", loc(fn.raw), "FormulaValue kind(s) %s have no arm of their own in parse_formula_value ([MS-XLS] 2.5.133: 0 string, 1 boolean, 2 error, 3 blank string)" % sorted(missing))
    else:
        rep.holds("R-TAB-FMLAVAL", key + "|kinds", loc(fn.raw), "kinds 0..3 told apart")


def r_dbcs_out(ctx, rep):
    """C12: whatever the storage form, the characters reach the output string only through the workbook's decoder: in
    XlsEncoding::decode_to every write to the `&mut String` parameter takes the result of an encoding_rs decode call.
    (A shortcut that pushes raw bytes as UTF-8 makes compressed text read differently from the same text on 16 bits.)"""
    F = ctx.facts("default")
    fn = F.fn("cfb::XlsEncoding::decode_to")
    key = "cfb::XlsEncoding::decode_to|R-DBCS-ENC|out"
    if fn is None:
        rep.anchor_missing("R-DBCS-ENC", "cfb::XlsEncoding::decode_to")
        return
    outs = set()
    for p in fn.params:
        if (p.get("ty") or "").replace(" ", "") in ("&mutalloc::string::String", "&mutString"):
            outs |= {lid for _, lid in pat_bindings(p)}
    if not outs:
        rep.anchor_missing("R-DBCS-ENC", "the &mut String parameter of decode_to")
        return
    imap = inl_params(fn.body)
    n, bad = 0, []
    for c in walk_k(fn.body, "MethodCall"):
        pl = path_local(peel(c["recv"])) if isinstance(peel(c["recv"]), dict) and peel(c["recv"]).get("k") == "Path" else None
        if not pl or pl[1] not in outs:
            continue
        if c["name"] in ("reserve", "len", "capacity", "is_empty", "as_str"):
            continue
        n += 1
        ok = False
        for a in c.get("args", []):
            for e in _follow(fn.body, a, imap):
                if any((callee(x) or "").startswith("encoding_rs::Encoding::decode") for x in walk_k(e, "MethodCall")):
                    ok = True
        if not ok:
            bad.append(c)
    # the out parameter handed to something else (a decoder writing in place is fine)
    for c in walk_k(fn.body, "Call", "MethodCall"):
        for a in c.get("args", []):
            pl = path_local(peel(a)) if isinstance(peel(a), dict) and peel(a).get("k") == "Path" else None
            if pl and pl[1] in outs:
                n += 1
                if not (callee(c) or "").startswith("encoding_rs::"):
                    bad.append(c)
    if n == 0:
        rep.anchor_missing("R-DBCS-ENC", "a write to the output string in decode_to")
    elif bad:
        rep.violation("R-DBCS-ENC", key, loc(bad[0]), "decode_to writes to the output string at %s without going through the workbook decoder: the same characters then read differently depending on how the writer stored them (compressed / 16-bit / split by CONTINUE)" % ", ".join(loc(b) for b in bad))
    else:
        rep.holds("R-DBCS-ENC", key, loc(fn.raw), "%d write(s) to the output string, all fed by an encoding_rs decode call" % n)


def r_lblrgce(ctx, rep):
    """[MS-XLS] 2.4.150 Lbl: the formula (rgce, cce bytes) follows the name, an XLUnicodeStringNoCch of cch *characters*
    that takes 1 + cch or 1 + 2*cch bytes.  The token stream handed to parse_defined_names must therefore be located
    either from the end of the record (len - cce) or with the byte count that read_unicode_string_no_cch returns --
    never with cch alone."""
    F = ctx.facts("default")
    n = 0
    for fn in F.fns_in("src/xls.rs"):
        calls = [c for c in walk_k(fn.body, "Call") if (callee(c) or "").endswith("xls::parse_defined_names")]
        if not calls:
            continue
        imap = inl_params(fn.body)
        rd = [c for c in walk_k(fn.body, "Call") if (callee(c) or "").endswith("xls::read_unicode_string_no_cch")]
        rd_lids = set()
        for l in walk_k(fn.body, "Let"):
            if l.get("init") is not None and any(any(x is c for x in walk(l["init"])) for c in rd):
                rd_lids |= {lid for _, lid in pat_bindings(l["pat"])}
        for c in calls:
            n += 1
            key = "%s|R-LBLRGCE" % fn.name
            # the slice expression itself: through `&`, plain lets and inlined parameters, and down the base of
            # chained slicing -- not into the locals its bounds are computed from
            from .kit import let_init
            idx, e, guard = [], c["args"][0], 0
            while isinstance(e, dict) and guard < 12:
                guard += 1
                e = peel(e)
                if e.get("k") == "Index":
                    idx.append(e)
                    e = e["e"]
                elif e.get("k") == "Path" and path_local(e):
                    if path_local(e)[1] in imap:
                        e = imap[path_local(e)[1]]
                    else:
                        l = let_init(fn.body, e)
                        e = l["init"] if l is not None else None
                else:
                    break
            starts = []
            for ix in idx:
                i = unwrap(ix.get("idx") or {})
                lo = None
                if isinstance(i, dict) and i.get("k") == "Struct":
                    for f in i.get("fields", []):
                        if f.get("name") == "start":
                            lo = f["e"]
                elif isinstance(i, dict) and i.get("k") in ("Call", "MethodCall"):
                    lo = (i.get("args") or [None])[0]
                if lo is not None:
                    starts.append((ix, lo))
            if not starts:
                rep.holds("R-LBLRGCE", key, loc(c), "token stream not located by a from-the-front slice", nontrivial=False)
                continue
            bad = []
            for ix, lo in starts:
                ok = False
                for e in _follow(fn.body, lo, imap):
                    if any(x.get("name") == "len" for x in walk_k(e, "MethodCall")):
                        ok = True
                    if used_lids(e) & rd_lids:
                        ok = True
                    if any(any(x is r for x in walk(e)) for r in rd):
                        ok = True
                if not ok:
                    bad.append(ix)
            if bad:
                rep.violation("R-LBLRGCE", key, loc(bad[0]), "the token stream of a defined name is located from the front of the Lbl record without the byte count returned by read_unicode_string_no_cch (and not from the end of the record): for a name stored as 16-bit characters the reference is decoded from the middle of the name")
            else:
                rep.holds("R-LBLRGCE", key, loc(c), "rgce located from the record end / from the byte count of the name")
    if n < 1:
        rep.anchor_missing("R-LBLRGCE", "a call of parse_defined_names in src/xls.rs")


def r_cfblen(ctx, rep):
    """[MS-CFB] 2.2: the header counts directory and mini-FAT *sectors*; the byte length handed to get_chain for those
    two chains is that count times the sector size of the file (512 or 4096), or 0 for "do not truncate"."""
    F = ctx.facts("default")
    fn = F.fn("cfb::Cfb::new")
    if fn is None:
        rep.anchor_missing("R-CFBLEN", "cfb::Cfb::new")
        return
    imap = inl_params(fn.body)
    n = 0
    for c in walk_k(fn.body, "MethodCall"):
        if c.get("name") != "get_chain" or not (callee(c) or "").endswith("Sectors::get_chain") or len(c.get("args", [])) < 4:
            continue
        start = c["args"][0]
        st = [e for e in _follow(fn.body, start, imap)]
        which = None
        for e in st:
            for f in walk_k(e, "Field"):
                if f.get("name") in ("dir_start", "mini_fat_start"):
                    which = f["name"][:-6]
        if which is None:
            continue
        n += 1
        key = "cfb::Cfb::new|R-CFBLEN|%s" % which
        ln = c["args"][3]
        es = _follow(fn.body, ln, imap)
        if lit_value(ln) == 0:
            rep.holds("R-CFBLEN", key, loc(c), "no truncation (length 0)", nontrivial=False)
            continue
        fields = {f.get("name") for e in es for f in walk_k(e, "Field")}
        mul = any((b.get("op") == "*") for e in es for b in walk_k(e, "Binary")) or any(m.get("name") in ("checked_mul", "saturating_mul", "wrapping_mul") for e in es for m in walk_k(e, "MethodCall"))
        if mul and "sector_size" in fields and (which + "_len") in fields:
            rep.holds("R-CFBLEN", key, loc(c), "%s_len * sector_size" % which)
        else:
            rep.violation("R-CFBLEN", key, loc(c), "the %s chain is truncated to a length that is not `%s_len * sector_size` (fields read: %s): with 4096-byte sectors only part of the chain is kept -- directory entries (and with them streams such as EncryptedPackage) disappear" % (which, which, sorted(x for x in fields if x)))
    if n < 2:
        rep.anchor_missing("R-CFBLEN", "the get_chain calls for the directory and the mini FAT in cfb::Cfb::new (found %d)" % n)


# ----------------------------------------------------------------------------------------------
# rules added after the seventh seeding round (indirect breaks: shared helpers, constructors, cooperating sites)


def r_dtnew(ctx, rep):
    """C10 / C11 / C16: `ExcelDateTime::new(value, datetime_type, is_1904)` is the only way the readers build a date
    value; it stores each argument unchanged -- in particular the workbook's date system reaches the value whatever
    its flavour (a `[h]:mm:ss` cell of a 1904 workbook is still a 1904 value)."""
    F = ctx.facts("default")
    fn = F.fn("datatype::ExcelDateTime::new")
    key = "datatype::ExcelDateTime::new|R-DTNEW"
    if fn is None:
        rep.anchor_missing("R-DTNEW", "datatype::ExcelDateTime::new")
        return
    params = {p["name"]: p["lid"] for p in fn.params if p.get("k") == "Binding"}
    lits = [s for s in walk_k(fn.body, "Struct") if (s.get("res", {}).get("def") or s.get("res", {}).get("ctor_of") or "").endswith("ExcelDateTime")]
    if not lits:
        rep.anchor_missing("R-DTNEW", "the struct literal in ExcelDateTime::new")
        return
    imap = inl_params(fn.body)
    bad = []
    n = 0
    for f in lits[0].get("fields", []):
        n += 1
        e = f["e"]
        pl = path_local(peel(e)) if isinstance(peel(e), dict) and peel(e).get("k") == "Path" else None
        while pl and pl[1] in imap:
            e = imap[pl[1]]
            pl = path_local(peel(e)) if isinstance(peel(e), dict) and peel(e).get("k") == "Path" else None
        if not pl or pl[1] != params.get(f["name"]):
            bad.append(f["name"])
    if lits[0].get("base") is not None or n < 3:
        bad.append("(not every field is initialised from a parameter)")
    if bad:
        rep.violation("R-DTNEW", key, loc(lits[0]), "ExcelDateTime::new does not store its argument unchanged in field(s) %s: every date value of every reader goes through this constructor, so e.g. the 1904 flag of an elapsed-time cell would be lost" % ", ".join(bad))
    else:
        rep.holds("R-DTNEW", key, loc(lits[0]), "value, datetime_type and is_1904 are stored as given")


def r_attrkey(ctx, rep):
    """C10 / C01: xlsx attributes are looked up by their full name.  An unprefixed attribute belongs to no namespace;
    `aud:s` is not `s`.  `xlsx::get_attribute` therefore compares the attribute's key itself, never its local name."""
    F = ctx.facts("default")
    fn = F.fn("xlsx::get_attribute")
    key = "xlsx::get_attribute|R-ATTRKEY"
    if fn is None:
        rep.anchor_missing("R-ATTRKEY", "xlsx::get_attribute")
        return
    loc_calls = [c for c in walk_k(fn.body, "MethodCall") if c.get("name") == "local_name"]
    eqs = [b for b in walk_k(fn.body, "Binary") if b.get("op") == "=="]
    if loc_calls:
        rep.violation("R-ATTRKEY", key, loc(loc_calls[0]), "get_attribute matches attributes by local name: an attribute of a foreign namespace with the same local name (`<c x:s=\"0\" s=\"1\">`) is taken for the cell's own (style index, type, reference)")
    elif not eqs:
        rep.anchor_missing("R-ATTRKEY", "the key comparison in xlsx::get_attribute")
    else:
        rep.holds("R-ATTRKEY", key, loc(eqs[0]), "attribute key compared as a whole")


def r_date_split(ctx, rep):
    """C11 (feature dates): when a conversion splits a millisecond / day count into whole units and a remainder,
    quotient and remainder must round the same way: `floor` goes with `rem_euclid`, truncation with `%`.  `(x / m).floor()`
    next to `x % m` is one whole unit off for every negative x with a non-zero fraction."""
    try:
        F = ctx.facts("dates")
    except SystemExit:
        raise
    from .kit import shape
    n = 0
    for fn in F.fns_in("src/datatype.rs"):
        floors = [c for c in walk_k(fn.body, "MethodCall") if c.get("name") == "floor" and unwrap(c["recv"]).get("k") == "Binary" and unwrap(c["recv"]).get("op") == "/"]
        rems = [b for b in walk_k(fn.body, "Binary") if b.get("op") == "%" and (unwrap(b["l"]).get("ty") or "") in ("f64", "f32")]
        for fl in floors:
            d = unwrap(fl["recv"])
            for r in rems:
                n += 1
                if shape(d["l"]) == shape(r["l"]) and shape(d["r"]) == shape(r["r"]):
                    rep.violation("R-DATE-SPLIT", "%s|R-DATE-SPLIT" % fn.name, loc(r), "%s splits a value with `(x / m).floor()` and `x %% m`: floor rounds towards minus infinity, `%%` keeps the sign of x, so every negative value with a non-zero fraction comes out one whole unit too small" % fn.name)
    if not n:
        rep.holds("R-DATE-SPLIT", "datatype|R-DATE-SPLIT", "src/datatype.rs", "no floor/%% split in the conversions", nontrivial=False)


def r_date_variant(ctx, rep):
    """C11: the default conversions of the DataType trait (as_datetime / as_date / as_time / as_duration) choose by the
    cell's *variant* (DataType::is_datetime, is_int, is_float, ...).  The flavour test of the payload
    (ExcelDateTime::is_datetime / is_duration: date format vs elapsed-time format) has the same names and must not
    take their place: a `[h]:mm:ss` cell is still a DateTime cell and converts."""
    F = ctx.facts("dates")
    n = 0
    for fn in F.fns_in("src/datatype.rs"):
        short = fn.name.rsplit("::", 1)[-1]
        if short not in ("as_datetime", "as_date", "as_time", "as_duration", "is_datetime", "is_duration_iso", "is_datetime_iso", "get_datetime") or "ExcelDateTime" in fn.name:
            continue
        if short in ("as_datetime", "as_date", "as_time", "as_duration"):
            n += 1
        key = "%s|R-DATE-VARIANT" % fn.name
        bad = []
        for x in walk(fn.body):
            c = None
            if x.get("k") in ("MethodCall", "Call"):
                c = callee(x)
            elif x.get("k") == "Path":
                c = path_def(x)
            if c and c.startswith("datatype::ExcelDateTime::") and c.rsplit("::", 1)[-1] in ("is_datetime", "is_duration"):
                bad.append(x)
        if bad:
            rep.violation("R-DATE-VARIANT", key, loc(bad[0]), "%s selects by the payload's format flavour (ExcelDateTime::%s) instead of the cell variant: a DateTime cell with an elapsed-time format no longer converts" % (fn.name, (callee(bad[0]) or path_def(bad[0])).rsplit("::", 1)[-1]))
        else:
            rep.holds("R-DATE-VARIANT", key, loc(fn.raw), "selects by cell variant only")
    if n < 4:
        rep.anchor_missing("R-DATE-VARIANT", "default conversions as_datetime / as_date / as_time / as_duration in src/datatype.rs (found %d)" % n)


def r_strret(ctx, rep):
    """C14 / C16: XlsEncoding::decode_to returns (characters, bytes).  read_unicode_string_no_cch reports how many
    *bytes* the string occupies (the PtgStr arm steps over the literal with it): its result is built from the second
    component."""
    F = ctx.facts("default")
    fn = F.fn("xls::read_unicode_string_no_cch")
    key = "xls::read_unicode_string_no_cch|R-STRBYTES|returns-bytes"
    if fn is None:
        rep.anchor_missing("R-STRBYTES", "xls::read_unicode_string_no_cch")
        return
    call = [c for c in walk_k(fn.body, "MethodCall") if c.get("name") == "decode_to"]
    if not call:
        rep.anchor_missing("R-STRBYTES", "decode_to call in read_unicode_string_no_cch")
        return
    # locals bound to component 1 / to the whole tuple
    second, whole, first = set(), set(), set()
    for l in walk_k(fn.body, "Let"):
        if l.get("init") is None or not any(x is call[0] for x in walk(l["init"])):
            continue
        p = l["pat"]
        if p.get("k") == "Tuple" and len(p.get("pats", [])) == 2:
            first |= {lid for _, lid in pat_bindings(p["pats"][0])}
            second |= {lid for _, lid in pat_bindings(p["pats"][1])}
        elif p.get("k") == "Binding":
            whole.add(p["lid"])
    from .kit import body_stmts
    st = body_stmts(fn.body)
    tail = st[-1].get("e") if st else None
    rets = [r.get("e") for r in walk_k(fn.body, "Ret") if r.get("e") is not None] + ([tail] if tail is not None else [])
    ok, bad = False, False
    for e in rets:
        lids = used_lids(e)
        fields = [(f.get("name"), path_local(peel(f["e"]))) for f in walk_k(e, "Field")]
        if lids & second or any(nm == "1" and pl and pl[1] in whole for nm, pl in fields) or any(nm == "1" and any(x is call[0] for x in walk(f_)) for f_ in walk_k(e, "Field") for nm in [f_.get("name")]):
            ok = True
        if lids & first or any(nm == "0" and pl and pl[1] in whole for nm, pl in fields):
            bad = True
    if ok and not bad:
        rep.holds("R-STRBYTES", key, loc(call[0]), "returns 1 + the byte count reported by decode_to")
    else:
        rep.violation("R-STRBYTES", key, loc(call[0]), "read_unicode_string_no_cch does not build its result from the byte count (second component) of decode_to: for a string stored as 16-bit characters the caller steps over half of the literal and decodes the rest as tokens")


_VBAREF_SKIPS = {
    # [MS-OVBA] 2.3.4.2.2: constant-width fields skipped with `*stream = &stream[K..]` in the arm of each reference record
    0x000D: [4, 6],          # REFERENCEREGISTERED: Size(4) .. libid .. Reserved1(4) + Reserved2(2)
    0x000E: [4, 6],          # REFERENCEPROJECT: Size(4) .. libids .. MajorVersion(4) + MinorVersion(2)
    0x002F: [4, 6, 4, 26],   # REFERENCECONTROL: SizeTwiddled(4) .. Reserved(4+2) .. SizeExtended(4) .. Reserved4(4)+Reserved5(2)+OriginalTypeLib(16)+Cookie(4)
}


def r_tab_vbaref(ctx, rep):
    """C18: the fixed-width fields of the reference records are skipped by their widths in [MS-OVBA] 2.3.4.2.2 (a
    wrong width makes the next record id be read from the middle of a field and the whole project is lost)."""
    F = ctx.facts("default")
    fn = F.fn("vba::Reference::from_stream")
    if fn is None:
        rep.anchor_missing("R-TAB-VBAREF", "vba::Reference::from_stream")
        return
    n = 0
    for m in walk_k(fn.body, "Match"):
        for a in m.get("arms", []):
            ids = [v for v in pat_literals(a["pat"])[0] if isinstance(v, int) and v in _VBAREF_SKIPS]
            if not ids:
                continue
            rid = ids[0]
            skips = []
            for asg, anc in walk_anc(a["body"]):
                if asg.get("k") != "Assign":
                    continue
                if any(x.get("k") == "Match" and x.get("src") not in ("TryDesugar",) for x in anc):
                    continue     # inside the nested token match of REFERENCECONTROL
                for ix in walk_k(asg["r"], "Index"):
                    idx = unwrap(ix.get("idx") or {})
                    if idx.get("k") == "Struct":
                        for f in idx.get("fields", []):
                            if f.get("name") == "start" and isinstance(lit_value(f["e"]), int):
                                skips.append(lit_value(f["e"]))
            n += 1
            key = "vba::Reference::from_stream|R-TAB-VBAREF|0x%04X" % rid
            if skips == _VBAREF_SKIPS[rid]:
                rep.holds("R-TAB-VBAREF", key, loc(a), "skips %s" % skips)
            else:
                rep.violation("R-TAB-VBAREF", key, loc(a), "the arm of reference record 0x%04X skips %s byte(s) at its fixed-width fields; [MS-OVBA] 2.3.4.2.2 gives %s: the next record id is read from the wrong offset and the project cannot be read" % (rid, skips, _VBAREF_SKIPS[rid]))
    if n < 3:
        rep.anchor_missing("R-TAB-VBAREF", "arms 0x000D / 0x000E / 0x002F in vba::Reference::from_stream (found %d)" % n)


def r_cacheatomic(ctx, rep):
    """C07: a loader fills its cache only when it succeeded: in the xlsx loaders the write of `self.tables` /
    `self.merged_regions` comes after every fallible step.  (A cache set before a `?` stays half filled when the
    loader fails, and the next call -- which sees `Some(..)` -- returns Ok with a truncated list.)"""
    F = ctx.facts("default")
    n = 0
    for name, field in (("xlsx::Xlsx::read_table_metadata", "tables"), ("xlsx::Xlsx::read_merged_regions", "merged_regions")):
        fn = F.fn(name)
        if fn is None:
            rep.anchor_missing("R-CACHEATOMIC", name)
            continue
        key = "%s|R-CACHEATOMIC|%s" % (name, field)
        order = {id(x): i for i, x in enumerate(walk(fn.body))}
        writes = []
        for x in walk(fn.body):
            k = x.get("k")
            if k == "Assign" and field_chain(x["l"]) == ("self", [field]):
                writes.append(x)
            elif k == "MethodCall" and field_chain(x["recv"]) == ("self", [field]) and ((x["recv"].get("aty") or "").startswith("&mut ")):
                writes.append(x)
            elif k == "AddrOf" and x.get("mut") and field_chain(x["e"]) == ("self", [field]):
                writes.append(x)
        if not writes:
            rep.anchor_missing("R-CACHEATOMIC", "the write of self.%s in %s" % (field, name))
            continue
        n += 1
        first = min(order[id(w)] for w in writes)
        late = [t for t in walk_k(fn.body, "Match") if t.get("src") == "TryDesugar" and order[id(t)] > first and not any(t is y for w in writes for y in walk(w))]
        if late:
            rep.violation("R-CACHEATOMIC", key, loc(late[0]), "%s writes self.%s before a fallible step (`?` at %s): when that step fails the cache stays partly filled, the next load_* call sees it as loaded and returns Ok -- later reads depend on the history of calls" % (name, field, loc(late[0])))
        else:
            rep.holds("R-CACHEATOMIC", key, loc(writes[0]), "self.%s is written after the last fallible step" % field)


# ----------------------------------------------------------------------------------------------
# rules added after the eighth seeding round (second batch of indirect breaks)


def r_strdrain(ctx, rep):
    """C01: xlsx::read_string is handed `<si>` / `<is>` and leaves the reader *after* that element, whatever the element
    holds behind its text (phonetic runs, phonetic properties): a success return inside the `<t>` arm is preceded by
    `read_to_end_into(closing)`."""
    F = ctx.facts("default")
    fn = F.fn("xlsx::read_string")
    key = "xlsx::read_string|R-STRDRAIN"
    if fn is None:
        rep.anchor_missing("R-STRDRAIN", "xlsx::read_string")
        return
    from .r_xml import event_matches, guard_literals
    from .kit import virtual_arms, flat_stmts
    n, bad = 0, []
    for em in event_matches(fn):
        for arm in virtual_arms(em["match"]):
            if "t" not in guard_literals(arm):
                continue
            for r, anc in walk_anc(arm["body"]):
                if r.get("k") != "Ret" or r["span"].get("desugar"):
                    continue
                if any(a.get("k") == "Match" and a.get("src") == "TryDesugar" for a in anc):
                    continue
                if not any((path_def(x) or "").endswith("Option::Some") for x in walk_k(r, "Path")):
                    continue
                n += 1
                # statements of the enclosing block before the return
                drained = False
                for a in reversed(anc):
                    blk = a.get("block") if a.get("k") == "BlockExpr" else None
                    if not blk:
                        continue
                    for st in flat_stmts(blk):
                        if any(x is r for x in walk(st)):
                            break
                        if any(c.get("name") == "read_to_end_into" for c in walk_k(st, "MethodCall")):
                            drained = True
                    if drained:
                        break
                if not drained:
                    bad.append(r)
    if n == 0:
        rep.holds("R-STRDRAIN", key, loc(fn.raw), "no early success return inside the <t> arm", nontrivial=False)
    elif bad:
        rep.violation("R-STRDRAIN", key, loc(bad[0]), "read_string returns the text of a plain <t> without reading on to the closing tag: what follows the <t> inside the element (`<rPh>`, `<phoneticPr>`) is left for the caller, which takes it for a cell child (inline strings: UnexpectedNode, the sheet fails)")
    else:
        rep.holds("R-STRDRAIN", key, loc(fn.raw), "%d early success return(s), each after read_to_end_into(closing)" % n)


def r_at_override(ctx, rep):
    """C04 / C07: `worksheet_range_at(n)` is defined once, in the Reader trait, as "the n-th *sheet name*, then by name".
    A reader that overrides it must go through the sheet-name list as well -- never index a map of sheets, whose order
    is not the workbook's."""
    F = ctx.facts("default")
    n = 0
    for fn in F.fns:
        short = fn.name.rsplit("::", 1)[-1]
        if short not in ("worksheet_range_at", "worksheet_range_at_ref", "worksheet_formula_at", "sheet_names") or fn.impl_trait not in ("Reader", "ReaderRef") or not fn.impl_self:
            continue
        n += 1
        key = "%s|R-AT|override" % fn.name
        bad = [c for c in walk_k(fn.body, "MethodCall") if c.get("name") in ("nth", "keys", "values", "iter", "into_iter", "first_key_value", "last_key_value", "into_keys") and ("BTreeMap" in (peel(c["recv"]).get("ty") or "") or "HashMap" in (peel(c["recv"]).get("ty") or ""))]
        # the n-th sheet is the n-th entry of the list as it stands: a `filter` / `skip_while` in front of `nth` (only the
        # worksheets, only the visible ones) makes the index disagree with sheet_names() and sheets_metadata()
        bad += [c for c in walk_k(fn.body, "MethodCall") if c.get("name") in ("filter", "filter_map", "skip_while", "take_while", "rev", "step_by", "skip") and "Iterator" in (callee(c) or "iter::traits::iterator::Iterator") and short != "sheet_names"]
        if short == "sheet_names":
            bad += [c for c in walk_k(fn.body, "MethodCall") if c.get("name") in ("sort", "sort_unstable", "sort_by", "sort_by_key", "dedup", "reverse", "rev")]
        names = [c for c in walk_k(fn.body, "MethodCall", "Call") if (callee(c) or "").endswith("sheet_names")] + [f for f in walk_k(fn.body, "Field") if f.get("name") == "sheets" and "Metadata" in (peel(f["e"]).get("ty") or "")]
        if bad or not names:
            rep.violation("R-AT", key, loc(bad[0] if bad else fn.raw), "%s overrides the trait's by-index access and does not go through the sheet-name list (it iterates a map of sheets): the n-th sheet of the workbook and the n-th key of the map differ whenever the names are not sorted" % fn.name)
        else:
            rep.holds("R-AT", key, loc(fn.raw), "override goes through sheet_names()")
    if n == 0:
        rep.holds("R-AT", "readers|R-AT|override", "-", "no reader overrides the by-index accessors of the trait", nontrivial=False)


def r_fmlaval_ctor(ctx, rep):
    """C02 / C08: [MS-XLS] 2.5.133: FormulaValue kind 1 is a boolean, kind 3 a *blank string* -- a value, not an empty
    cell (the reader filters nothing, so an Empty here would still shape the range)."""
    F = ctx.facts("default")
    fn = F.fn("xls::parse_formula_value")
    if fn is None:
        rep.anchor_missing("R-TAB-FMLAVAL", "xls::parse_formula_value")
        return
    from .r_tables import variants_built
    want = {1: "Bool", 3: "String"}
    seen = set()
    for m in walk_k(fn.body, "Match"):
        for a in m.get("arms", []):
            for sl in walk_k(a["pat"], "Slice"):
                before = sl.get("before") or []
                lits = [v for v in pat_literals(before[0])[0] if isinstance(v, int)] if before else []
                for k in lits:
                    if k in want and len(lits) == 1:
                        seen.add(k)
                        key = "xls::parse_formula_value|R-TAB-FMLAVAL|%d|ctor" % k
                        vs = set(variants_built(a["body"], "Data"))
                        if vs == {want[k]}:
                            rep.holds("R-TAB-FMLAVAL", key, loc(a), "kind %d builds Data::%s" % (k, want[k]))
                        else:
                            rep.violation("R-TAB-FMLAVAL", key, loc(a), "FormulaValue kind %d builds %s; [MS-XLS] 2.5.133 makes it a %s value (Data::%s)" % (k, sorted(vs) or "nothing", "boolean" if k == 1 else "blank string", want[k]))
    if not seen:
        rep.holds("R-TAB-FMLAVAL", "xls::parse_formula_value|R-TAB-FMLAVAL|ctor", loc(fn.raw), "kinds 1 / 3 share an arm (decided by R-TAB-FMLAVAL byte clause only)", nontrivial=False)


_VISIT = {"visit_bool": {"Bool"}, "visit_i64": {"Int"}, "visit_u64": {"Int"}, "visit_f64": {"Float"}, "visit_str": {"String"}, "visit_string": {"String"},
          "visit_none": {"Empty"}, "visit_unit": {"Empty"}}


def r_tab_visit(ctx, rep):
    """C09: a record field of type `Data` receives the cell as it is.  The serde visitor of `Data` maps each visit_*
    callback to exactly its own variant (visit_str -> String for every string, the empty one included)."""
    F = ctx.facts("default")
    from .r_tables import variants_built
    n = 0
    for fn in F.fns_in("src/datatype.rs"):
        short = fn.name.rsplit("::", 1)[-1]
        if short not in _VISIT or "DataVisitor" not in (fn.impl_self or fn.name) or "DataRef" in (fn.impl_self or ""):
            continue
        n += 1
        key = "%s|R-TAB-VISIT" % fn.name
        vs = set(variants_built(fn.body, "Data"))
        # `visit_str` may forward to the sibling `visit_string` unconditionally
        fwd = [c for c in walk_k(fn.body, "MethodCall") if c.get("name") in _VISIT and c.get("name") != short]
        from .kit import body_stmts
        if not vs and len(fwd) == 1 and len(body_stmts(fn.body)) == 1 and _VISIT[fwd[0]["name"]] == _VISIT[short]:
            rep.holds("R-TAB-VISIT", key, loc(fn.raw), "%s forwards to %s" % (short, fwd[0]["name"]))
            continue
        if vs == _VISIT[short]:
            rep.holds("R-TAB-VISIT", key, loc(fn.raw), "%s -> Data::%s" % (short, sorted(vs)[0]))
        else:
            rep.violation("R-TAB-VISIT", key, loc(fn.raw), "the serde visitor of Data builds %s in %s (expected only %s): a `Data` field of a record would not receive the cell unchanged" % (sorted(vs), short, sorted(_VISIT[short])))
    # every callback the crate's own deserializer uses must be there: DataDeserializer::deserialize_any hands an empty cell
    # to visit_unit, deserialize_option to visit_none; serde's default for a missing one is an "invalid type" error
    have = {fn.name.rsplit("::", 1)[-1] for fn in F.fns_in("src/datatype.rs") if "DataVisitor" in (fn.impl_self or fn.name) and "DataRef" not in (fn.impl_self or "")}
    for need in sorted(_VISIT):
        if need not in have:
            rep.violation("R-TAB-VISIT", "datatype::DataVisitor::%s|R-TAB-VISIT|present" % need, "-", "the serde visitor of Data has no `%s`: the cell kind the deserializer reports through it (an empty cell for visit_unit / visit_none) makes the whole record fail with serde's default 'invalid type' error" % need)
    if n < 6:
        rep.anchor_missing("R-TAB-VISIT", "visit_* methods of the Data visitor in src/datatype.rs (found %d)" % n)


def r_dtvalue(ctx, rep):
    """C09 / C03 / C10: `ExcelDateTime::as_f64` is the stored serial, unchanged (the deserializer hands it to f64 /
    untyped targets; a rebased value would differ from the same cell's text)."""
    F = ctx.facts("default")
    fn = F.fn("datatype::ExcelDateTime::as_f64")
    key = "datatype::ExcelDateTime::as_f64|R-DTVALUE"
    if fn is None:
        rep.anchor_missing("R-DTVALUE", "datatype::ExcelDateTime::as_f64")
        return
    from .kit import body_stmts
    st = body_stmts(fn.body)
    ok = len(st) == 1 and field_chain(st[0].get("e")) == ("self", ["value"])
    if ok:
        rep.holds("R-DTVALUE", key, loc(fn.raw), "returns self.value")
    else:
        rep.violation("R-DTVALUE", key, loc(fn.raw), "ExcelDateTime::as_f64 is not the stored serial: numeric and untyped targets of the deserializer (and every caller comparing serials) see a value the file does not contain")


def r_dbcs_flag(ctx, rep):
    """C12: whether a BIFF8 character run is stored on 8 or 16 bits is said by its flag byte (and, without a flag, by
    the workbook encoding) -- never by how many bytes happen to be left in the current record, which changes with the
    CONTINUE split.  `XlsEncoding::high_byte` therefore takes no length and calls no `len()`."""
    F = ctx.facts("default")
    fn = F.fn("cfb::XlsEncoding::high_byte")
    key = "cfb::XlsEncoding::high_byte|R-DBCS-FLAG"
    if fn is None:
        rep.anchor_missing("R-DBCS-FLAG", "cfb::XlsEncoding::high_byte")
        return
    ints = [p for p in fn.params if (p.get("ty") or "") in ("usize", "u32", "u64", "u16", "&[u8]")]
    lens = [c for c in walk_k(fn.body, "MethodCall") if c.get("name") == "len"]
    if ints or lens:
        rep.violation("R-DBCS-FLAG", key, loc(fn.raw), "XlsEncoding::high_byte looks at a length (%s): the storage form of a string would depend on where a CONTINUE record happens to split it" % ", ".join([p.get("name", "?") for p in ints] + ["len()"] * len(lens)))
    else:
        rep.holds("R-DBCS-FLAG", key, loc(fn.raw), "decided by the flag and the workbook encoding only")


def r_sstcount(ctx, rep):
    """C12 / C19: the shared-string table has cstUnique entries; the count read from the SST record is used as it is (no
    `min` / `clamp` against what is left in the first record: the table continues in CONTINUE records)."""
    F = ctx.facts("default")
    fn = F.fn("xls::parse_sst")
    key = "xls::parse_sst|R-SSTCOUNT"
    if fn is None:
        rep.anchor_missing("R-SSTCOUNT", "xls::parse_sst")
        return
    bad = [c for c in walk_k(fn.body, "MethodCall", "Call") if (callee(c) or "").rsplit("::", 1)[-1] in ("min", "clamp") and (callee(c) or "").startswith("core::cmp")]
    bad += [c for c in walk_k(fn.body, "MethodCall") if c.get("name") in ("min", "clamp", "take")]
    if bad:
        rep.violation("R-SSTCOUNT", key, loc(bad[0]), "parse_sst bounds the number of strings it reads (`%s`): a table that continues in CONTINUE records is silently cut short and later LABELSST cells vanish" % bad[0].get("name", "min"))
    else:
        rep.holds("R-SSTCOUNT", key, loc(fn.raw), "the declared count is used unclamped")


def r_tou32(ctx, rep):
    """C13: FAT / DIFAT / mini-FAT sectors are arrays of 32-bit entries indexed by sector number: `utils::to_u32` yields
    one entry per 4 bytes, all of them (trailing FREESECT entries keep later sectors at their index)."""
    F = ctx.facts("default")
    fn = F.fn("utils::to_u32")
    key = "utils::to_u32|R-TOU32"
    if fn is None:
        rep.anchor_missing("R-TOU32", "utils::to_u32")
        return
    from .kit import body_stmts
    st = body_stmts(fn.body)
    tail = unwrap(st[-1].get("e")) if st else None
    chain = []
    e = tail
    while isinstance(e, dict) and e.get("k") == "MethodCall":
        chain.append(e["name"])
        e = peel(e["recv"])
    chain.reverse()
    allowed = {"chunks", "chunks_exact", "map", "iter", "into_iter", "copied", "cloned"}
    extra = [m for m in chain if m not in allowed]
    root_ok = isinstance(e, dict) and e.get("k") == "Path" and path_local(e) and fn.params and path_local(e)[1] == fn.params[0].get("lid")
    if not root_ok:
        extra.append("(not over the whole input slice)")
    if not chain or extra or not any(m in ("chunks", "chunks_exact") for m in chain):
        rep.violation("R-TOU32", key, loc(fn.raw), "utils::to_u32 is not a plain one-entry-per-4-bytes map (adaptors: %s): dropping, skipping or filtering entries shifts every later sector's FAT index" % (chain or "none"))
    else:
        rep.holds("R-TOU32", key, loc(fn.raw), " . ".join(chain))


def r_cfbtail(ctx, rep):
    """C13 / C20: the last sector of a compound file may be short (files are not always padded to a sector boundary):
    `Sectors::get` fills what it can and stops at end of input -- it does not `read_exact`."""
    F = ctx.facts("default")
    fn = F.fn("cfb::Sectors::get")
    key = "cfb::Sectors::get|R-CFBTAIL"
    if fn is None:
        rep.anchor_missing("R-CFBTAIL", "cfb::Sectors::get")
        return
    from .kit import with_new_callees
    ex = [c for b in with_new_callees(F, fn) for c in walk_k(b, "MethodCall") if c.get("name") == "read_exact"]
    rd = [c for b in with_new_callees(F, fn) for c in walk_k(b, "MethodCall") if c.get("name") == "read" and (callee_decl_(c) or "").endswith("Read::read")]
    if ex or not rd:
        rep.violation("R-CFBTAIL", key, loc(ex[0] if ex else fn.raw), "Sectors::get reads a sector with read_exact (or not with Read::read at all): a file whose last sector is not padded to the sector size fails to open although every stream in it is complete")
    else:
        rep.holds("R-CFBTAIL", key, loc(rd[0]), "sector filled by Read::read until end of input")


def callee_decl_(c):
    from .kit import callee_decl
    return callee_decl(c)


def r_recsize(ctx, rep):
    """C19 / C03: an xlsb record may be up to 2^28 - 1 bytes; `RecordIter::fill_buffer` raises no error of its own on
    the decoded size (it only propagates read errors): a 32 767-character string plus its header does not fit 64 KiB."""
    F = ctx.facts("default")
    fn = F.fn("xlsb::RecordIter::fill_buffer")
    key = "xlsb::RecordIter::fill_buffer|R-RECSIZE"
    if fn is None:
        rep.anchor_missing("R-RECSIZE", "xlsb::RecordIter::fill_buffer")
        return
    from .kit import with_new_callees
    errs = []
    for b in with_new_callees(F, fn):
        for x, anc in walk_anc(b):
            if x.get("k") == "Call" and (callee(x) or "").endswith("Result::Err") and not any(a.get("k") == "Match" and a.get("src") == "TryDesugar" for a in anc):
                errs.append(x)
    if errs:
        rep.violation("R-RECSIZE", key, loc(errs[0]), "fill_buffer rejects a record by itself (an Err built at %s): record sizes up to 2^28 - 1 are legal, long strings need more than 64 KiB" % loc(errs[0]))
    else:
        rep.holds("R-RECSIZE", key, loc(fn.raw), "only read errors are propagated")


# ----------------------------------------------------------------------------------------------
# rules added after the ninth seeding round (third batch of indirect breaks)


def r_fmtvalue(ctx, rep):
    """C02 / C01 / C03: the number a cell holds is handed on unchanged: in formats::format_excel_{f64,i64}_ref the
    DataRef::Float / DataRef::Int of the non-date arm, and the value given to ExcelDateTime::new in the date arms, are
    the `value` parameter itself (no rounding, no re-parsing), and no arm is guarded by the value."""
    F = ctx.facts("default")
    n = 0
    for name in ("formats::format_excel_f64_ref", "formats::format_excel_i64_ref"):
        fn = F.fn(name)
        if fn is None:
            rep.anchor_missing("R-FMTVALUE", name)
            continue
        n += 1
        key = "%s|R-FMTVALUE" % name
        vlid = fn.params[0].get("lid") if fn.params and fn.params[0].get("k") == "Binding" else None
        imap = inl_params(fn.body)
        bad = []
        for c in walk_k(fn.body, "Call"):
            cal = callee(c) or ""
            if cal.endswith("DataRef::Float") or cal.endswith("DataRef::Int") or cal.endswith("ExcelDateTime::new"):
                a0 = c["args"][0] if c.get("args") else None
                e = peel(a0) if a0 is not None else None
                while isinstance(e, dict) and e.get("k") == "Cast":
                    e = peel(e["e"])
                pl = path_local(e) if isinstance(e, dict) and e.get("k") == "Path" else None
                while pl and pl[1] in imap:
                    e = peel(imap[pl[1]])
                    while isinstance(e, dict) and e.get("k") == "Cast":
                        e = peel(e["e"])
                    pl = path_local(e) if isinstance(e, dict) and e.get("k") == "Path" else None
                if not pl or pl[1] != vlid:
                    bad.append((c, "the value handed to %s is not the `value` parameter itself" % cal.rsplit("::", 2)[-2:]))
        for m in walk_k(fn.body, "Match"):
            for a in m.get("arms", []):
                if a.get("guard") is not None and vlid in used_lids(a["guard"], imap):
                    bad.append((a, "an arm is guarded by the value (the kind of a cell is decided by its style alone)"))
        if bad:
            rep.violation("R-FMTVALUE", key, loc(bad[0][0]), "%s: %s: numbers would not read back bit-exactly, or date-styled cells would change kind with their value" % (name, bad[0][1]))
        else:
            rep.holds("R-FMTVALUE", key, loc(fn.raw), "the value parameter reaches Float / Int / ExcelDateTime::new unchanged and guards no arm")


def r_cfbroot(ctx, rep):
    """C06 / C13: `dirs[0]` (the root entry) is only touched after the empty-directory test returned EmptyRootDir."""
    F = ctx.facts("default")
    fn = F.fn("cfb::Cfb::new")
    key = "cfb::Cfb::new|R-CFBROOT"
    if fn is None:
        rep.anchor_missing("R-CFBROOT", "cfb::Cfb::new")
        return
    order = {id(x): i for i, x in enumerate(walk(fn.body))}
    guards = []
    for i_, anc in walk_anc(fn.body):
        if i_.get("k") == "If" and any(c.get("name") == "is_empty" for c in walk_k(i_["cond"], "MethodCall")) and any((path_def(x) or "").endswith("EmptyRootDir") for x in walk_k(i_["then"], "Path")):
            guards.append(i_)
    for m in walk_k(fn.body, "Match"):
        # `let Some(root) = directories.first() else { return Err(EmptyRootDir) }`
        if any(c.get("name") == "first" for c in walk_k(m["scrut"], "MethodCall")) and any((path_def(x) or "").endswith("EmptyRootDir") for a in m.get("arms", []) for x in walk_k(a["body"], "Path")):
            guards.append(m)
    idx0 = [ix for ix in walk_k(fn.body, "Index") if lit_value(ix.get("idx")) == 0 and "Directory" in (peel(ix["e"]).get("ty") or "")]
    if not guards:
        rep.violation("R-CFBROOT", key, loc(fn.raw), "Cfb::new does not reject an empty directory (EmptyRootDir) before using the root entry")
    elif any(order[id(ix)] < min(order[id(g)] for g in guards) for ix in idx0):
        first = min(idx0, key=lambda ix: order[id(ix)])
        rep.violation("R-CFBROOT", key, loc(first), "the root directory entry (`dirs[0]`) is used before the empty-directory test: a header whose directory chain is empty but which declares a mini FAT panics (index out of bounds) instead of returning EmptyRootDir")
    else:
        rep.holds("R-CFBROOT", key, loc(guards[0]), "%d use(s) of the root entry, all after the EmptyRootDir test" % len(idx0))


def r_from_payload(ctx, rep):
    """C07 / C08 / C10: `Data::from(DataRef)` (the owned API is the borrowed one plus this conversion) keeps every
    payload as it is: each arm hands its binding on unchanged or through an owning conversion (into / to_owned / ..), and
    no arm is guarded."""
    F = ctx.facts("default")
    fn = next((f for f in F.fns if f.name.endswith("::from") and (f.impl_self or "").endswith("datatype::Data") and "DataRef" in (f.raw.get("sig") or "")), None)
    if fn is None:
        fn = next((f for f in F.fns if f.name.startswith("<datatype::Data as core::convert::From") and "DataRef" in json_sig(f)), None)
    key = "datatype::Data::from(DataRef)|R-FROM-PAYLOAD"
    if fn is None:
        rep.anchor_missing("R-FROM-PAYLOAD", "impl From<DataRef> for Data")
        return
    OWN = ("into", "to_owned", "to_string", "clone", "into_owned", "from")
    bad, n = [], 0
    for m in walk_k(fn.body, "Match"):
        for a in m.get("arms", []):
            binds = {lid for _, lid in pat_bindings(a["pat"])}
            if not binds and not (pat_variant(a["pat"]) or "").startswith("datatype::DataRef"):
                continue
            n += 1
            if a.get("guard") is not None and not a.get("guard_from_body"):
                bad.append((a, "the arm for %s is guarded by its payload" % (pat_variant(a["pat"]) or "?").rsplit("::", 1)[-1]))
                continue
            for c in walk_k(a["body"], "MethodCall"):
                r = peel(c["recv"])
                if isinstance(r, dict) and r.get("k") == "Path" and path_local(r) and path_local(r)[1] in binds and c["name"] not in OWN:
                    bad.append((c, "the payload of %s goes through `%s` on its way" % ((pat_variant(a["pat"]) or "?").rsplit("::", 1)[-1], c["name"])))
    if n < 8:
        rep.anchor_missing("R-FROM-PAYLOAD", "the arms of Data::from(DataRef) (found %d)" % n)
    elif bad:
        rep.violation("R-FROM-PAYLOAD", key, loc(bad[0][0]), "Data::from(DataRef): %s: worksheet_range and worksheet_range_ref would disagree on that cell" % bad[0][1])
    else:
        rep.holds("R-FROM-PAYLOAD", key, loc(fn.raw), "%d arms, payloads unchanged, no guards" % n)


def json_sig(f):
    return (f.raw.get("sig") or "") + " " + " ".join((p.get("ty") or "") for p in f.params)


def r_globals_exit(ctx, rep):
    """C10 / C02 / C16: the workbook-globals loop of xls::parse_workbook collects records by type in whatever order the
    writer chose (FORMAT / XF / DATE1904 may follow the SST): it ends at the EOF record (0x000A) only."""
    F = ctx.facts("default")
    fn = F.fn("xls::Xls::parse_workbook")
    key = "xls::Xls::parse_workbook|R-GLOBALS-EXIT"
    if fn is None:
        rep.anchor_missing("R-GLOBALS-EXIT", "xls::Xls::parse_workbook")
        return
    disp = None
    for m in walk_k(fn.body, "Match"):
        lits = {v for a in m.get("arms", []) for v in _arm_ints(a)}
        if {0x0085, 0x00FC, 0x000A} <= lits:
            disp = m
    if disp is None:
        rep.anchor_missing("R-GLOBALS-EXIT", "the workbook-globals dispatch (arms 0x0085, 0x00FC, 0x000A)")
        return
    bad = []
    for a in disp["arms"]:
        if 0x000A in _arm_ints(a):
            continue
        for b, anc in walk_anc(a["body"]):
            if b.get("k") == "Break" and not b.get("inl_ret") and not any(x.get("k") == "Loop" for x in anc):
                bad.append((a, b))
    if bad:
        rep.violation("R-GLOBALS-EXIT", key, loc(bad[0][1]), "the arm for record 0x%04X leaves the workbook-globals loop: FORMAT / XF / DATE1904 / Lbl records that follow it are never seen (every date comes back as a number)" % (_arm_ints(bad[0][0]) or [0])[0])
    else:
        rep.holds("R-GLOBALS-EXIT", key, loc(disp), "only the EOF arm leaves the loop")


def r_untyped_parse(ctx, rep):
    """C11 / C01: an xlsx cell without a `t` attribute is a number when its text parses as one (Excel writes exponent
    notation for small serials): in read_v's untyped arm the text reaches `parse::<f64>()` unconditionally."""
    F = ctx.facts("default")
    fn = F.fn("xlsx::cells_reader::read_v")
    key = "xlsx::cells_reader::read_v|R-UNTYPED-PARSE"
    if fn is None:
        rep.anchor_missing("R-UNTYPED-PARSE", "xlsx::cells_reader::read_v")
        return
    from .r_tables import pat_keys
    hit = None
    for m in walk_k(fn.body, "Match"):
        keys = {k for a in m.get("arms", []) for k in pat_keys(a["pat"])[0]}
        if ("str", "s") in keys or ("str", "b") in keys:
            for a in m["arms"]:
                ks, ca = pat_keys(a["pat"])
                if ("path", "None") in ks:
                    hit = a
    if hit is None:
        rep.anchor_missing("R-UNTYPED-PARSE", "the `None` (no t attribute) arm of read_v")
        return
    parses = [(c, anc) for c, anc in walk_anc(hit["body"]) if c.get("k") == "MethodCall" and c.get("name") == "parse"]
    if not parses:
        rep.violation("R-UNTYPED-PARSE", key, loc(hit), "the untyped arm of read_v does not try to parse the text as a number")
        return
    c, anc = parses[0]
    cond = [a for a in anc if a.get("k") == "If" or (a.get("k") == "Match" and a.get("src") not in ("TryDesugar",) and not any(x is c for x in walk(a["scrut"])))]
    if cond or (hit.get("guard") is not None):
        rep.violation("R-UNTYPED-PARSE", key, loc(cond[0] if cond else hit), "the untyped arm of read_v parses the text as a number only under a condition: texts the filter does not expect (exponent notation for serials below 1e-4) come back as strings")
    else:
        rep.holds("R-UNTYPED-PARSE", key, loc(c), "the text goes to parse() unconditionally")


def r_codepage_default(ctx, rep):
    """C14 / C16 / C02: until a CodePage record says otherwise a BIFF8 stream is UTF-16 (code page 1200): strings with
    an explicit flag byte are widened to UTF-16 and sent through the workbook decoder, which must then be UTF-16."""
    F = ctx.facts("default")
    fn = F.fn("xls::Xls::parse_workbook")
    key = "xls::Xls::parse_workbook|R-CODEPAGE-DEFAULT"
    if fn is None:
        rep.anchor_missing("R-CODEPAGE-DEFAULT", "xls::Xls::parse_workbook")
        return
    from .kit import const_value
    from .kit import let_init

    def _is_opt(e):
        # `self.options.force_codepage`, or a local that holds it (`let forced = self.options.force_codepage;`)
        if any(f.get("k") == "Field" and f.get("name") == "force_codepage" for f in walk(e)):
            return True
        li = let_init(fn.body, peel(e)) if isinstance(peel(e), dict) and peel(e).get("k") == "Path" else None
        return li is not None and any(f.get("k") == "Field" and f.get("name") == "force_codepage" for f in walk(li["init"]))
    cands = [c for c in walk_k(fn.body, "MethodCall") if c.get("name") in ("unwrap_or", "unwrap_or_else", "map_or") and _is_opt(c["recv"])]
    if not cands:
        rep.anchor_missing("R-CODEPAGE-DEFAULT", "the default of options.force_codepage in parse_workbook")
        return
    v = const_value(F, cands[0]["args"][0]) if cands[0].get("args") else None
    if v == 1200:
        rep.holds("R-CODEPAGE-DEFAULT", key, loc(cands[0]), "default code page 1200 (UTF-16LE)")
    else:
        rep.violation("R-CODEPAGE-DEFAULT", key, loc(cands[0]), "the code page assumed before a CodePage record is %r, not 1200: BIFF8 strings (widened to UTF-16 and decoded with the workbook encoding) come out with a NUL after every character in files without that record" % v)


def r_sheetname_asis(ctx, rep):
    """C17 / C16: a sheet name is a key (merged regions, ranges and formulas are stored under it): the BoundSheet8 name
    is taken as written -- NULs removed, nothing trimmed, no case folding."""
    F = ctx.facts("default")
    fn = F.fn("xls::parse_sheet_metadata")
    key = "xls::parse_sheet_metadata|R-SHEETNAME"
    if fn is None:
        rep.anchor_missing("R-SHEETNAME", "xls::parse_sheet_metadata")
        return
    bad = [c for c in walk_k(fn.body, "MethodCall") if c.get("name") in ("trim", "trim_start", "trim_end", "trim_matches", "trim_end_matches", "trim_start_matches", "to_lowercase", "to_uppercase", "to_ascii_lowercase", "to_ascii_uppercase", "truncate")]
    if bad:
        rep.violation("R-SHEETNAME", key, loc(bad[0]), "parse_sheet_metadata changes the sheet name (`%s`): two sheets whose names differ only in what is removed collide in the map the sheet data is stored in" % bad[0]["name"])
    else:
        rep.holds("R-SHEETNAME", key, loc(fn.raw), "the name is kept as written")


def r_hasdir(ctx, rep):
    """C18 / C20 / C13: `Cfb::has_directory(name)` answers "is there an entry with this name" -- storages (size 0) and
    streams alike: the predicate compares names only."""
    F = ctx.facts("default")
    fn = F.fn("cfb::Cfb::has_directory")
    key = "cfb::Cfb::has_directory|R-HASDIR"
    if fn is None:
        rep.anchor_missing("R-HASDIR", "cfb::Cfb::has_directory")
        return
    fields = {f.get("name") for f in walk_k(fn.body, "Field")} - {"directories", "name"}
    ops = [b for b in walk_k(fn.body, "Binary") if b.get("op") in ("&&", "||", "<", ">", "<=", ">=", "!=")]
    if fields or ops:
        rep.violation("R-HASDIR", key, loc(fn.raw), "has_directory looks at more than the entry name (%s): storages such as `_VBA_PROJECT_CUR` have size 0, so the xls reader would stop finding its VBA project" % ", ".join(sorted(x for x in fields if x) or ["extra conditions"]))
    else:
        rep.holds("R-HASDIR", key, loc(fn.raw), "name comparison only")


# ----------------------------------------------------------------------------------------------
# round 10 (tolerance / error handling / state)

_READER_FILES = ("src/xlsx/mod.rs", "src/xlsx/cells_reader.rs", "src/xlsb/mod.rs", "src/xlsb/cells_reader.rs", "src/xls.rs", "src/ods.rs")


def _stringlike(ty):
    ty = (ty or "").replace("&mut ", "").replace("&", "").replace("'static ", "")
    return ty in ("str", "alloc::string::String") or ty.startswith("alloc::borrow::Cow<") and "str" in ty


def _trimmed(e, tainted):
    """is the *value* of e a trimmed string (value positions only: the condition of an `if` does not count)?"""
    e = unwrap(e)
    if not isinstance(e, dict):
        return False
    k = e.get("k")
    if k == "MethodCall":
        if e["name"].startswith("trim") and _stringlike((peel(e["recv"]) or {}).get("ty")) or e["name"].startswith("trim_ascii"):
            return True
        if _stringlike(e.get("ty")) or e["name"] in ("map", "unwrap_or", "unwrap_or_default", "unwrap", "expect", "ok", "and_then"):
            return _trimmed(e["recv"], tainted) or any(_trimmed(a, tainted) for a in e.get("args", []) if isinstance(a, dict) and a.get("k") == "Closure")
        return False
    if k == "Closure":
        return _trimmed(e.get("body"), tainted)
    if k == "Path":
        pl = path_local(e)
        return bool(pl and pl[1] in tainted)
    if k == "If":
        return _trimmed(e["then"], tainted) or (e.get("els") is not None and _trimmed(e["els"], tainted))
    if k == "Match":
        return any(_trimmed(a["body"], tainted) for a in e["arms"]) if e.get("src") != "TryDesugar" else _trimmed(e["scrut"], tainted)
    if k == "BlockExpr":
        return e["block"].get("expr") is not None and _trimmed(e["block"]["expr"], tainted)
    if k == "Call":
        cal = callee(e) or ""
        if cal.startswith("core::") or cal.startswith("alloc::") or cal.startswith("std::"):
            return any(_trimmed(a, tainted) for a in e.get("args", []))
        return False
    if k in ("AddrOf", "Deref", "Cast", "Unary"):
        return _trimmed(e.get("e"), tainted)
    return False


def r_notrim(ctx, rep):
    """C01 / C19 / C04: text is content.  In the reader modules no string that went through `trim*` is stored: it never
    becomes the payload of a crate type (DataRef::String(v), Cell { val, .. }), is never appended to or assigned over a
    value under construction, and is never what a string-returning function returns.  (`v.trim().parse::<f64>()` is
    fine: the parsed number is not a trimmed string.)  The matcher is kept honest by src/de.rs, whose header look-up
    trims on purpose: it must be seen there on every run."""
    F = ctx.facts("default")
    seen_de = 0
    for fn in F.user_fns():
        if fn.file == "src/de.rs":
            seen_de += sum(1 for c in walk_k(fn.body, "MethodCall") if c["name"].startswith("trim") and _stringlike((peel(c["recv"]) or {}).get("ty")))
    if seen_de == 0:
        rep.anchor_missing("R-NOTRIM", "the deliberate `trim()` of the header look-up in src/de.rs (the matcher's positive example)")
    n = 0
    for fn in F.user_fns():
        if fn.file not in _READER_FILES:
            continue
        n += 1
        key = "%s|R-NOTRIM" % fn.name
        tainted = set()
        changed = True
        while changed:
            changed = False
            for x in walk(fn.body):
                if x.get("k") == "Let" and x.get("init") is not None and _trimmed(x["init"], tainted):
                    for _, lid in pat_bindings(x["pat"]):
                        if lid not in tainted:
                            tainted.add(lid)
                            changed = True
                elif x.get("k") == "Assign" and _trimmed(x["r"], tainted):
                    pl = path_local(peel(x["l"])) if peel(x["l"]).get("k") == "Path" else None
                    if pl and pl[1] not in tainted:
                        tainted.add(pl[1])
                        changed = True
        bad = None
        for x in walk(fn.body):
            k = x.get("k")
            if k == "Call":
                cal = callee(x) or ""
                r = unwrap(x["f"]).get("res", {}) if isinstance(unwrap(x["f"]), dict) else {}
                if r.get("ctor_of") and not (cal.startswith("core::") or cal.startswith("alloc::") or cal.startswith("std::")) and any(_trimmed(a, tainted) for a in x.get("args", [])):
                    bad = (x, "a trimmed string becomes the payload of %s" % cal.rsplit("::", 2)[-2:])
            elif k == "Struct" and not (norm(x["res"].get("ctor_of") or x["res"].get("def")) or "").startswith(("core::", "alloc::", "std::")):
                if any("e" in f and _trimmed(f["e"], tainted) for f in x.get("fields", [])):
                    bad = (x, "a trimmed string is stored in a field of %s" % (norm(x["res"].get("ctor_of") or x["res"].get("def")) or "?"))
            elif k == "MethodCall" and x["name"] in ("push_str", "push", "insert", "insert_str", "extend", "extend_from_slice") and any(_trimmed(a, tainted) for a in x.get("args", [])):
                bad = (x, "a trimmed string is appended by `%s`" % x["name"])
            elif k == "Assign" and _trimmed(x["r"], tainted) and field_chain(x["l"]) and field_chain(x["l"])[1]:
                bad = (x, "a trimmed string is assigned to a field")
            elif k == "Ret" and x.get("e") is not None and _trimmed(x["e"], tainted):
                bad = (x, "a trimmed string is returned")
            if bad:
                break
        if bad is None and "String" in (fn.raw.get("sig") or "").rsplit("->", 1)[-1]:
            b = unwrap(fn.body)
            if isinstance(b, dict) and _trimmed(b, tainted):
                bad = (fn.raw, "a trimmed string is returned")
        if bad:
            rep.violation("R-NOTRIM", key, loc(bad[0]), "%s: %s: leading / trailing blanks of a cell's text (a formula result \"  padded  \", a single blank) are part of the value and would be lost" % (fn.name, bad[1]))
        else:
            rep.holds("R-NOTRIM", key, loc(fn.raw), "no trimmed string is stored, appended or returned")
    rep.floor("R-NOTRIM", 110, "functions of the reader modules")


_CFB_REORDER = ("sort", "sort_by", "sort_by_key", "sort_unstable", "sort_unstable_by", "sort_unstable_by_key", "sort_by_cached_key", "dedup", "dedup_by",
                "dedup_by_key", "reverse", "rev", "rotate_left", "rotate_right", "swap", "swap_remove", "retain", "retain_mut", "take_while", "skip_while",
                "skip", "step_by", "take", "remove", "insert", "drain", "split_off")


def r_cfborder(ctx, rep):
    """C13: the DIFAT lists the FAT sectors in the order in which they make up the FAT, wherever they lie in the file, and
    free entries may sit between used ones.  In Cfb::new the `difat` and `fats` vectors are therefore only appended to
    (plus the `pop` that takes the next-DIFAT pointer off the end) and walked in full through `filter`: nothing sorts,
    de-duplicates, reverses, cuts or skips them."""
    F = ctx.facts("default")
    fn = F.fn("cfb::Cfb::new")
    key = "cfb::Cfb::new|R-CFBORDER"
    if fn is None:
        rep.anchor_missing("R-CFBORDER", "cfb::Cfb::new")
        return
    lids = {}
    for x in walk(fn.body):
        if x.get("k") == "Let":
            for nm, lid in pat_bindings(x["pat"]):
                if nm in ("difat", "fats", "mini_fats") or (x.get("init") is not None and "Vec<u32>" in ((unwrap(x["init"]) or {}).get("ty") or "").replace("alloc::vec::", "")):
                    lids[lid] = nm
    if not any(v == "difat" for v in lids.values()) or len(lids) < 2:
        rep.anchor_missing("R-CFBORDER", "the difat / fats vectors of cfb::Cfb::new")
        return
    bad = []
    for c in walk_k(fn.body, "MethodCall"):
        if c.get("name") not in _CFB_REORDER:
            continue
        e = peel(c["recv"])
        while isinstance(e, dict) and e.get("k") == "MethodCall":
            e = peel(e["recv"])
        pl = path_local(e) if isinstance(e, dict) and e.get("k") == "Path" else None
        if pl and pl[1] in lids:
            bad.append((c, lids[pl[1]]))
    if bad:
        rep.violation("R-CFBORDER", key, loc(bad[0][0]), "cfb::Cfb::new applies `%s` to `%s`: the sector tables are ordered by the DIFAT / the chains, not by position in the file, and free entries may sit between used ones -- reordering, de-duplicating or cutting them makes every later FAT lookup land in the wrong sector" % (bad[0][0]["name"], bad[0][1]))
    else:
        rep.holds("R-CFBORDER", key, loc(fn.raw), "difat / fats are appended to and walked in full (%d vectors watched)" % len(lids))


# ----------------------------------------------------------------------------------------------
# round 11 (tolerance / error handling / state, second batch)

def _root_local(e):
    """the local an expression is a view of: `x`, `&mut x`, `mem::take(&mut x)`, `x.clone()`, `x.field`"""
    e = peel(e)
    while isinstance(e, dict):
        k = e.get("k")
        if k == "Path":
            pl = path_local(e)
            return pl[1] if pl else None
        if k in ("AddrOf", "Deref", "Cast", "Field", "Unary"):
            e = peel(e.get("e"))
        elif k == "MethodCall" and e["name"] in ("clone", "to_owned", "to_vec", "as_slice", "as_ref", "as_str", "to_string", "into", "borrow"):
            e = peel(e["recv"])
        elif k == "Call" and (callee(e) or "").rsplit("::", 1)[-1] in ("take", "replace") and e.get("args"):
            e = peel(e["args"][0])
        else:
            return None
    return None


def r_fmtkey_fresh(ctx, rep):
    """C10: in xlsx::read_styles the key a `numFmt` is stored under is built from that element alone: the local behind the
    key of `number_formats.insert(key, ..)` is declared inside the element's own arm (fresh per element) or cleared
    unconditionally at the top of it.  A scratch buffer that outlives the element keeps the id of an element that was
    skipped (empty formatCode) and the next format is stored under the concatenation of the two ids."""
    F = ctx.facts("default")
    fn = F.fn("xlsx::Xlsx::read_styles")
    key = "xlsx::Xlsx::read_styles|R-FMTKEY-FRESH"
    if fn is None:
        rep.anchor_missing("R-FMTKEY-FRESH", "xlsx::Xlsx::read_styles")
        return
    ins = [(n, anc) for n, anc in walk_anc(fn.body) if n.get("k") == "MethodCall" and n["name"] == "insert" and len(n.get("args", [])) == 2
           and "BTreeMap" in ((peel(n["recv"]) or {}).get("ty") or "") + "HashMap" * 0 or (n.get("k") == "MethodCall" and n["name"] == "insert" and len(n.get("args", [])) == 2 and "Map<" in ((peel(n["recv"]) or {}).get("ty") or ""))]
    if not ins:
        rep.anchor_missing("R-FMTKEY-FRESH", "the insert into the number-format map of read_styles")
        return
    bad = None
    for n, anc in ins:
        loops = [a for a in anc if a.get("k") == "Loop"]
        if not loops:
            continue
        inner = loops[-1]
        for arg in n["args"]:
            lid = _root_local(arg)
            if lid is None:
                continue
            decl_in = any(x.get("k") == "Let" and lid in [b[1] for b in pat_bindings(x["pat"])] for x in walk(inner))
            if decl_in:
                continue
            # declared outside the element loop: accepted only if cleared at the top level of the arm holding the insert
            arm_body = None
            for a in anc:
                if a.get("k") == "Match":
                    for arm in a["arms"]:
                        if any(x is n for x in walk(arm["body"])):
                            arm_body = arm["body"]
            cleared = False
            if arm_body is not None:
                from .kit import flat_stmts
                for s in flat_stmts(arm_body):
                    e = s.get("e") if s.get("k") in ("Expr", "Semi") else None
                    e = unwrap(e) if e is not None else None
                    if isinstance(e, dict) and e.get("k") == "MethodCall" and e["name"] == "clear" and _root_local(e["recv"]) == lid:
                        cleared = True
                        break
                    if isinstance(e, dict) and e.get("k") in ("If", "Match", "Loop"):
                        break
            if not cleared:
                bad = (n, lid)
    if bad:
        rep.violation("R-FMTKEY-FRESH", key, loc(bad[0]), "read_styles stores a number format under a key built in a buffer that outlives the `numFmt` element: an element that is skipped leaves its id behind and the next format is filed under both ids, so cells styled with it lose their date / duration kind")
    else:
        rep.holds("R-FMTKEY-FRESH", key, loc(ins[0][0]), "key and value of the number-format map are built per element")


def r_xfifmt(ctx, rep):
    """C10: a BIFF8 XF's own ifmt is the effective number format, whatever its fAtrNum / parent say: xls::parse_xf looks at
    the record at offset 2 only."""
    F = ctx.facts("default")
    fn = F.fn("xls::parse_xf")
    key = "xls::parse_xf|R-XFIFMT"
    if fn is None:
        rep.anchor_missing("R-XFIFMT", "xls::parse_xf")
        return
    bad = []
    n = 0
    for ix in walk_k(fn.body, "Index"):
        bty = ((peel(ix["e"]) or {}).get("ty") or "").replace("&", "").replace("mut ", "")
        if "u8" not in bty:
            continue
        n += 1
        idx = unwrap(ix["idx"])
        start = None
        if isinstance(idx, dict) and idx.get("k") == "Struct":
            for f in idx.get("fields", []):
                if f["name"] == "start":
                    start = lit_value(f["e"])
        elif isinstance(idx, dict) and idx.get("k") == "Call" and idx.get("args"):
            start = lit_value(idx["args"][0])
        if start != 2:
            bad.append(ix)
    if n == 0:
        rep.anchor_missing("R-XFIFMT", "the read of ifmt in xls::parse_xf")
    elif bad:
        rep.violation("R-XFIFMT", key, loc(bad[0]), "parse_xf reads the XF record elsewhere than at offset 2 (ifmt): in BIFF8 the XF's own ifmt is the effective format; deriving it from the parent style or the fAtr flags turns date cells into plain numbers for writers that leave those bits clear")
    else:
        rep.holds("R-XFIFMT", key, loc(fn.raw), "the XF record is read at offset 2 only")


def r_date_pure(ctx, rep):
    """C11: a conversion is a function of (serial, flavour, date system) and nothing else: the functions of src/datatype.rs
    consult no state -- no thread_local, no static other than the epoch constant."""
    F = ctx.facts("dates")
    key = "src/datatype.rs|R-DATE-PURE"
    n = 0
    bad = None
    for fn in F.user_fns():
        if fn.file != "src/datatype.rs":
            continue
        n += 1
        for p in walk_k(fn.body, "Path"):
            r = p.get("res", {})
            ty = p.get("ty") or ""
            if "thread::local::LocalKey" in ty or "LocalKey<" in ty:
                bad = (p, "a thread_local (%s)" % (r.get("seg") or "?"))
            elif r.get("dk") == "Static" and not (norm(r.get("def")) or "").endswith("EXCEL_EPOCH"):
                bad = (p, "the static `%s`" % (r.get("seg") or "?"))
    if n < 20:
        rep.anchor_missing("R-DATE-PURE", "functions of src/datatype.rs (found %d)" % n)
    elif bad:
        rep.violation("R-DATE-PURE", key, loc(bad[0]), "a conversion in src/datatype.rs consults %s: the result then depends on what was converted before (a cache keyed by the serial alone answers a 1904-system cell with the 1900-system date of the same serial)" % bad[1])
    else:
        rep.holds("R-DATE-PURE", key, None, "no thread_local and no static other than the epoch in %d functions" % n)


def r_date_unit(ctx, rep):
    """C11: both conversions count milliseconds: the serial is multiplied by MS_MULTIPLIER itself and the product goes to
    Duration::try_milliseconds (a coarser unit silently drops the fraction of a second)."""
    F = ctx.facts("dates")
    for name in ("datatype::ExcelDateTime::as_datetime", "datatype::ExcelDateTime::as_duration"):
        fn = F.fn(name)
        key = "%s|R-DATE-TABLE|unit" % name
        if fn is None:
            rep.anchor_missing("R-DATE-TABLE", name)
            continue
        from .kit import with_new_callees
        ctors = []
        muls = []
        for body_ in with_new_callees(F, fn):
            for c in walk_k(body_, "Call"):
                cal = callee(c) or ""
                if "Duration" in cal or "TimeDelta" in cal:
                    last = cal.rsplit("::", 1)[-1]
                    if last.startswith("try_") or last in ("milliseconds", "seconds", "days", "hours", "minutes", "microseconds", "nanoseconds", "weeks"):
                        ctors.append((c, last))
            for b in walk_k(body_, "Binary"):
                if b.get("op") == "*" and any((path_def(peel(x)) or "").endswith("MS_MULTIPLIER") for x in (b["l"], b["r"]) if isinstance(peel(x), dict) and peel(x).get("k") == "Path"):
                    muls.append(b)
        wrong = [c for c, last in ctors if last not in ("try_milliseconds", "milliseconds")]
        if not ctors:
            rep.anchor_missing("R-DATE-TABLE", "the chrono Duration constructor of %s" % name)
        elif wrong:
            rep.violation("R-DATE-TABLE", key, loc(wrong[0]), "%s builds its duration with `%s`, not from milliseconds: the part of the serial below that unit is lost" % (name, (callee(wrong[0]) or "").rsplit("::", 1)[-1]))
        elif not muls:
            rep.violation("R-DATE-TABLE", key, loc(fn.raw), "%s does not multiply the serial by MS_MULTIPLIER itself (a rescaled factor changes the unit the duration is counted in)" % name)
        else:
            rep.holds("R-DATE-TABLE", key, loc(ctors[0][0]), "serial * MS_MULTIPLIER -> try_milliseconds")


def r_recerr(ctx, rep):
    """C06: xls::RecordIter::next does not advance on a framing error, so it yields the same Err for ever: every loop over
    it must leave on Err (`record?`, or an Err arm that returns / breaks).  An Err arm that `continue`s spins."""
    F = ctx.facts("default")
    n = 0
    for fn in F.user_fns():
        if fn.file != "src/xls.rs":
            continue
        from .kit import always_leaves
        for it, pat, lbody, outer in for_loops(fn.body):
            ity = ((peel(it) or {}).get("ty") or "") if isinstance(it, dict) else ""
            if "RecordIter" not in ity:
                continue
            n += 1
            key = "%s|R-RECERR|loop#%d" % (fn.name, n)
            lids = {lid for _, lid in pat_bindings(pat)}
            lp = unwrap(outer["arms"][0]["body"])
            targets = {lp.get("id")} if isinstance(lp, dict) else set()
            bad = None
            handled = False
            for m in walk_k(lbody, "Match"):
                uses = {path_local(p)[1] for p in walk_k(m["scrut"], "Path") if path_local(p)}
                if not (uses & lids):
                    continue
                if m.get("src") == "TryDesugar":
                    handled = True
                    continue
                for a in m["arms"]:
                    v = pat_variant(a["pat"]) or ""
                    if v.endswith("Err") or a["pat"].get("k") in ("Wild", "Binding"):
                        handled = True
                        if not always_leaves(a["body"], targets):
                            bad = a
            if bad is not None:
                rep.violation("R-RECERR", key, loc(bad), "%s goes on with the next iteration after RecordIter yielded Err: the iterator does not advance on a framing error, so a sheet that ends inside a record makes the loop spin for ever" % fn.name)
            elif handled:
                rep.holds("R-RECERR", key, loc(lbody), "the loop over RecordIter leaves on Err")
            else:
                rep.violation("R-RECERR", key, loc(lbody), "%s: the Result yielded by RecordIter is neither propagated with `?` nor matched with an Err arm that leaves the loop" % fn.name)
    rep.floor("R-RECERR", 2, "loops over xls::RecordIter")


def r_rowlimit(ctx, rep):
    """C14 / C03: rows 0 ..= 0xFFFFF are legal in xlsb; a sanity test on BrtRowHdr.rw that ends the sheet must not reject
    any of them."""
    F = ctx.facts("default")
    from .kit import const_value
    n = 0
    for name in ("xlsb::cells_reader::XlsbCellsReader::next_cell", "xlsb::cells_reader::XlsbCellsReader::next_formula"):
        fn = F.fn(name)
        if fn is None:
            rep.anchor_missing("R-ROWLIMIT", name)
            continue
        from .kit import with_new_callees
        for body_ in with_new_callees(F, fn):
            for b in walk_k(body_, "Binary"):
                if b.get("op") not in (">", ">=", "<", "<="):
                    continue
                fl, fr = field_chain(b["l"]), field_chain(b["r"])
                row_l = fl is not None and fl[1][-1:] == ["row"]
                row_r = fr is not None and fr[1][-1:] == ["row"]
                if row_l == row_r:
                    continue
                c = const_value(F, b["r"] if row_l else b["l"])
                if not isinstance(c, int):
                    continue
                op = b["op"] if row_l else {">": "<", ">=": "<=", "<": ">", "<=": ">="}[b["op"]]
                if c < 0x1000:
                    continue        # not a grid limit
                n += 1
                # `row > c` / `row >= c` reject, `row <= c` / `row < c` accept (a helper returning "the row is in range")
                first_rejected = {">": c + 1, ">=": c, "<=": c + 1, "<": c}[op]
                key = "%s|R-ROWLIMIT|#%d" % (name, n)
                if first_rejected <= 0xFFFFF:
                    rep.violation("R-ROWLIMIT", key, loc(b), "%s treats row %d as out of range (`row %s %#x`): the last row of the grid is 0xFFFFF, a formula or value there ends the sheet early and vanishes" % (name, first_rejected, op, c))
                else:
                    rep.holds("R-ROWLIMIT", key, loc(b), "rows up to 0xFFFFF pass the sanity test (first rejected: %#x)" % first_rejected)
    rep.floor("R-ROWLIMIT", 2, "row sanity tests of the xlsb cell readers")


def r_mulrk(ctx, rep):
    """C02 / C10: every cell of a MULRK run is decoded from its own RkRec (number *and* XF index): the value of each cell
    parse_mul_rk pushes is `rk_num(<that iteration's chunk>, ..)`, followed through same-iteration lets and clones --
    never a value carried over from the previous cell."""
    F = ctx.facts("default")
    fn = F.fn("xls::parse_mul_rk")
    key = "xls::parse_mul_rk|R-MULRK"
    if fn is None:
        rep.anchor_missing("R-MULRK", "xls::parse_mul_rk")
        return
    from .kit import let_init
    # the cells may be built by a private iterator adapter constructed here (`cells.extend(RkCells { .. })`): its methods count
    bodies = [fn.body]
    made = {(norm(s_["res"].get("ctor_of") or s_["res"].get("def")) or "") for s_ in walk_k(fn.body, "Struct")}
    for g in list(F.fns) + list(getattr(F, "helper_fns", [])):
        if g is not fn and g.file == "src/xls.rs" and (g.impl_self or "").split("<", 1)[0] in {m_.split("<", 1)[0] for m_ in made if m_} and (g.impl_trait or "").endswith("Iterator"):
            bodies.append(g.body)
    vals = []
    home = {}
    for body_ in bodies:
        for c in walk_k(body_, "Call"):
            if (callee(c) or "").endswith("Cell::new") and len(c.get("args", [])) == 2:
                vals.append(c["args"][1])
                home[id(c["args"][1])] = body_
        for s in walk_k(body_, "Struct"):
            if (norm(s["res"].get("ctor_of") or s["res"].get("def")) or "").endswith("Cell"):
                for f in s["fields"]:
                    if f["name"] == "val" and "e" in f:
                        vals.append(f["e"])
                        home[id(f["e"])] = body_
    if not vals:
        rep.anchor_missing("R-MULRK", "the Cell built per RkRec in xls::parse_mul_rk")
        return

    def ok(e, depth=0):
        e = peel(e)
        if not isinstance(e, dict) or depth > 6:
            return False
        k = e.get("k")
        if k == "Call":
            return (callee(e) or "").endswith("rk_num")
        if k == "MethodCall" and e["name"] in ("clone", "to_owned", "into"):
            return ok(e["recv"], depth + 1)
        if k == "Path":
            li = let_init(cur_body[0], e)
            return li is not None and ok(li["init"], depth + 1)
        if k == "If":
            return ok(e["then"], depth + 1) and e.get("els") is not None and ok(e["els"], depth + 1)
        if k == "Match":
            return all(ok(a["body"], depth + 1) for a in e["arms"])
        if k == "BlockExpr":
            return e["block"].get("expr") is not None and ok(e["block"]["expr"], depth + 1)
        return False
    cur_body = [fn.body]
    bad = []
    for v in vals:
        cur_body[0] = home.get(id(v), fn.body)
        if not ok(v):
            bad.append(v)
    if bad:
        rep.violation("R-MULRK", key, loc(bad[0]), "parse_mul_rk builds a cell from something else than rk_num of that cell's own RkRec (a value remembered from the previous cell ignores this cell's XF index: a date next to the same number formatted as General takes the neighbour's kind)")
    else:
        rep.holds("R-MULRK", key, loc(vals[0]), "each cell's value is rk_num of its own RkRec")


def r_mergecache(ctx, rep):
    """C07 / C17: worksheet_merge_cells(name) answers None for an unknown sheet whatever was loaded before: the cache of
    load_merged_regions is not consulted before the sheet name was looked up."""
    F = ctx.facts("default")
    fn = F.fn("xlsx::Xlsx::worksheet_merge_cells")
    key = "xlsx::Xlsx::worksheet_merge_cells|R-MERGECACHE"
    if fn is None:
        rep.anchor_missing("R-MERGECACHE", "xlsx::Xlsx::worksheet_merge_cells")
        return
    first = {}
    for i, x in enumerate(walk(fn.body)):
        if isinstance(x, dict) and x.get("k") == "Field":
            fc = field_chain(x)
            if fc and fc[0] == "self" and fc[1] and fc[1][0] not in first:
                first[fc[1][0]] = (i, x)
    if "sheets" not in first and "metadata" not in first:
        rep.anchor_missing("R-MERGECACHE", "the sheet-name lookup of worksheet_merge_cells")
        return
    look = min(first[k][0] for k in ("sheets", "metadata") if k in first)
    early = [first[k][1] for k in ("merged_regions", "tables") if k in first and first[k][0] < look]
    if early:
        rep.violation("R-MERGECACHE", key, loc(early[0]), "worksheet_merge_cells reads a lazily loaded cache before it has looked the sheet name up: an unknown name gives None on a fresh reader and Some(Ok([])) once load_merged_regions() has run")
    else:
        rep.holds("R-MERGECACHE", key, loc(fn.raw), "the sheet name is looked up first")


def r_chunks0(ctx, rep):
    """C06 / C17: `slice.chunks(0)` panics.  In the `Range` helpers the readers go through (`Range::range`, which cuts
    tables and header-row windows out of a sheet, and `Range::rows`), a chunk size taken from `X.width()` is only used
    where X cannot be empty: X was just built by `Range::new` (at least one cell), or an emptiness test of X (or
    `width == 0`) leaves the function / selects the other branch first.  An empty range has width 0."""
    F = ctx.facts("default")
    from .kit import let_init, reach_conds
    n = 0
    for name in ("Range::range", "Range::rows"):
        fn = next((f for f in F.user_fns() if f.file == "src/lib.rs" and f.name.endswith(name)), None)
        if fn is None:
            rep.anchor_missing("R-CHUNKS0", "%s in src/lib.rs" % name)
            continue
        for c, anc in walk_anc(fn.body):
            if c.get("k") != "MethodCall" or c.get("name") not in ("chunks", "chunks_mut", "chunks_exact", "chunks_exact_mut", "rchunks") or not c.get("args"):
                continue
            n += 1
            key = "%s|R-CHUNKS0|#%d" % (fn.name, n)
            w = c["args"][0]
            li = let_init(fn.body, w)
            src = unwrap(li["init"]) if li is not None else unwrap(w)
            owner = None
            if isinstance(src, dict) and src.get("k") == "MethodCall" and src.get("name") == "width":
                owner = peel(src["recv"])
            if owner is None:
                rep.violation("R-CHUNKS0", key, loc(c), "%s: the chunk size of `%s` is not the width of a range (cannot tell that it is non-zero)" % (fn.name, c["name"]))
                continue
            oname = path_local(owner)[0] if isinstance(owner, dict) and owner.get("k") == "Path" and path_local(owner) else None
            # (a) built here by Range::new
            oli = let_init(fn.body, owner) if oname and oname != "self" else None
            if oli is not None and any((callee(x) or "").endswith("Range::new") for x in walk_k(oli["init"], "Call")):
                rep.holds("R-CHUNKS0", key, loc(c), "`%s` was built by Range::new a few lines up: at least one cell wide" % oname)
                continue

            # (b) an emptiness test of the owner decides before the call is reached
            def is_empty_test(e):
                for m in walk_k(e, "MethodCall"):
                    if m.get("name") == "is_empty":
                        r = peel(m["recv"])
                        while isinstance(r, dict) and r.get("k") == "Field":
                            r = peel(r["e"])
                        if isinstance(r, dict) and r.get("k") == "Path" and path_local(r) and path_local(r)[0] == oname:
                            return True
                for b in walk_k(e, "Binary"):
                    if b.get("op") in ("==", "!=", ">", "<", ">=", "<=") and 0 in (lit_value(b["l"]), lit_value(b["r"])):
                        for side in (b["l"], b["r"]):
                            pl = path_local(peel(side)) if isinstance(peel(side), dict) and peel(side).get("k") == "Path" else None
                            wl = path_local(peel(w)) if isinstance(peel(w), dict) and peel(w).get("k") == "Path" else None
                            if pl and wl and pl[1] == wl[1]:
                                return True
                return False
            guarded = any(is_empty_test(cond) for cond in reach_conds(c, anc, fn.body)) or any(
                a_.get("k") == "If" and is_empty_test(a_["cond"]) for a_ in anc) or any(      # either branch of `if X.is_empty() {..} else {..}`
                a_.get("k") == "MethodCall" and a_.get("name") in ("then", "then_some") and is_empty_test(a_["recv"]) for a_ in anc)   # `(!X.is_empty()).then(|| ..)`
            if not guarded:
                # an earlier `if <empty test> { return .. }` among the statements in front of the call
                from .kit import always_leaves
                order = {id(x): i for i, x in enumerate(walk(fn.body))}
                for i_ in walk_k(fn.body, "If"):
                    if order.get(id(i_), 1 << 30) < order.get(id(c), 0) and is_empty_test(i_["cond"]) and always_leaves(i_["then"], set()) and not any(x is c for x in walk(i_)):
                        guarded = True
            if guarded:
                rep.holds("R-CHUNKS0", key, loc(c), "an emptiness test of `%s` comes first" % oname)
            else:
                rep.violation("R-CHUNKS0", key, loc(c), "%s calls `%s(%s.width())` without having excluded an empty `%s`: an empty range has width 0 and `chunks(0)` panics (a table without header row starting in A1 on a sheet that holds no value reaches this through Xlsx::table_by_name)" % (fn.name, c["name"], oname, oname))
    rep.floor("R-CHUNKS0", 3, "chunk iterations of Range::range / Range::rows")


def r_hdr_space(ctx, rep):
    """C09: RowDeserializer looks a field's name up as `headers[column index]`: the header list kept by
    RangeDeserializer::new is the *whole* header row (one name per column of the sheet), whichever columns were
    selected -- the value paired with the index list is the deserialised row itself, not a list derived from the selection."""
    F = ctx.facts("default")
    fn = F.fn("de::RangeDeserializer::new")
    key = "de::RangeDeserializer::new|R-HDR|index-space"
    if fn is None:
        rep.anchor_missing("R-HDR", "de::RangeDeserializer::new")
        return
    from .kit import let_init
    n = 0
    bad = None
    for t in walk_k(fn.body, "Tup"):
        es = t.get("es", [])
        if len(es) != 2:
            continue
        second = unwrap(es[1])
        if not (isinstance(second, dict) and second.get("k") == "Call" and (callee(second) or "").endswith("Option::Some") and second.get("args")):
            continue
        if "String" not in (second.get("ty") or ""):
            continue
        n += 1
        v = second["args"][0]
        # the index list it is paired with: the header list must not be computed *from* it (the selection)
        first = unwrap(es[0])
        idx_lids = {path_local(p_)[1] for p_ in walk_k(first, "Path") if path_local(p_)}
        chain = _follow(fn.body, v, inl_params(fn.body))
        uses_selection = any(path_local(p_) and path_local(p_)[1] in idx_lids for e_ in chain[1:] for p_ in walk_k(e_, "Path"))
        # `(0..row.len()).collect()` is the identity selection of Headers::All: all columns, in order
        identity = any(m.get("name") == "collect" and unwrap(m["recv"]).get("k") == "Struct" and "ops::range::Range" in ((unwrap(m["recv"]).get("res") or {}).get("def") or (unwrap(m["recv"]).get("res") or {}).get("ctor_of") or unwrap(m["recv"]).get("ty") or "")
                       for e_ in ([let_init(fn.body, first)["init"]] if let_init(fn.body, first) is not None else [first]) for m in walk_k(e_, "MethodCall"))
        if uses_selection and not identity:
            bad = second
    if n < 2:
        rep.anchor_missing("R-HDR", "the (column indexes, Some(header names)) pairs built by RangeDeserializer::new (found %d)" % n)
    elif bad is not None:
        rep.violation("R-HDR", key, loc(bad), "RangeDeserializer::new keeps a header list that is derived from the selected columns instead of the whole header row: field names are looked up as headers[column index], so a reordered selection binds the wrong names and a subset indexes past the end")
    else:
        rep.holds("R-HDR", key, loc(fn.raw), "the header list kept next to the column indexes is the deserialised header row itself (%d sites)" % n)


def r_de_option(ctx, rep):
    """C09 / C19: an optional field is None for an empty cell and for nothing else: in DataDeserializer::deserialize_option
    `visit_none` is reached from the unguarded `Data::Empty` arm only."""
    F = ctx.facts("default")
    fn = next((f for f in F.fns if f.name.endswith("::deserialize_option") and "DataDeserializer" in (f.impl_self or f.name)), None)
    key = "de::DataDeserializer::deserialize_option|R-TAB-DE|none-only-for-empty"
    if fn is None:
        rep.anchor_missing("R-TAB-DE", "DataDeserializer::deserialize_option")
        return
    bad = None
    seen = 0
    from .kit import matches_as_match
    syn = matches_as_match(fn.body)
    hidden = {id(inner) for _, inner in syn}
    for m in [x for x in walk_k(fn.body, "Match") if id(x) not in hidden] + [x for x, _ in syn]:
        for a in m.get("arms", []):
            if not any(c.get("name") == "visit_none" for c in walk_k(a["body"], "MethodCall")):
                continue
            seen += 1
            v = pat_variant(a["pat"]) or ""
            if not v.endswith("Data::Empty") or a.get("guard") is not None:
                bad = a
    others = [c for c in walk_k(fn.body, "MethodCall") if c.get("name") == "visit_none"]
    if seen == 0 and not others:
        rep.anchor_missing("R-TAB-DE", "the visit_none call of deserialize_option")
    elif bad is not None or len(others) != seen:
        rep.violation("R-TAB-DE", key, loc(bad or others[0]), "deserialize_option answers None for something else than an empty cell: a value (a text of blanks, an error) read into an Option field silently disappears")
    else:
        rep.holds("R-TAB-DE", key, loc(fn.raw), "visit_none only from the unguarded Data::Empty arm")


def r_cfbseq(ctx, rep):
    """C13: `cfb::Sectors` reads the file strictly front to back and keeps what it has read: a sector it has not cached
    yet is expected at the reader's current position.  Between `Cfb::new` and the last `get_stream` nothing else may
    move the reader: the functions that drive a Cfb (Xls::new_with_options, VbaProject::from_cfb and the sniffs) call
    no `seek` / `rewind` / `seek_relative` after the Cfb was built."""
    F = ctx.facts("default")
    n = 0
    for fn in F.user_fns():
        if fn.file not in ("src/xls.rs", "src/vba.rs", "src/cfb.rs"):
            continue
        news = [c for c in walk_k(fn.body, "Call") if (callee(c) or "").endswith("cfb::Cfb::new")]
        uses = [c for c in walk_k(fn.body, "MethodCall", "Call") if (callee(c) or "").endswith("Cfb::get_stream") or (callee(c) or "").endswith("VbaProject::from_cfb") or (callee(c) or "").endswith("parse_workbook")]
        if not news or not uses:
            continue
        n += 1
        key = "%s|R-CFBSEQ" % fn.name
        order = {id(x): i for i, x in enumerate(walk(fn.body))}
        first_new = min(order[id(c)] for c in news)
        last_use = max(order[id(c)] for c in uses)
        moved = [c for c in walk_k(fn.body, "MethodCall") if c.get("name") in ("seek", "rewind", "seek_relative", "set_position") and first_new < order[id(c)] < last_use]
        if moved:
            rep.violation("R-CFBSEQ", key, loc(moved[0]), "%s repositions the reader (`%s`) between Cfb::new and a later stream read: the sector cache of the compound file is filled sequentially, so sectors not yet cached are then read from the wrong offset and the stream comes back as bytes from the start of the file" % (fn.name, moved[0]["name"]))
        else:
            rep.holds("R-CFBSEQ", key, loc(news[0]), "the reader is not repositioned while the Cfb is in use")
    rep.floor("R-CFBSEQ", 1, "functions that build a Cfb and read streams from it")


def r_sstasis(ctx, rep):
    """C19 / C12: the shared strings of an xls workbook are what parse_sst decoded: in Xls::parse_workbook the `strings`
    table is assigned from parse_sst and never modified afterwards (no retain / trim / iter_mut / `for s in &mut`)."""
    F = ctx.facts("default")
    fn = F.fn("xls::Xls::parse_workbook")
    key = "xls::Xls::parse_workbook|R-SSTASIS"
    if fn is None:
        rep.anchor_missing("R-SSTASIS", "xls::Xls::parse_workbook")
        return
    lid = None
    for a in walk_k(fn.body, "Assign"):
        if any((callee(c) or "").endswith("xls::parse_sst") for c in walk_k(a["r"], "Call")):
            pl = path_local(peel(a["l"])) if isinstance(peel(a["l"]), dict) and peel(a["l"]).get("k") == "Path" else None
            lid = pl[1] if pl else None
    for l in walk_k(fn.body, "Let"):
        if l.get("init") is not None and any((callee(c) or "").endswith("xls::parse_sst") for c in walk_k(l["init"], "Call")):
            b = pat_bindings(l["pat"])
            lid = b[0][1] if b else lid
    if lid is None:
        rep.anchor_missing("R-SSTASIS", "the table assigned from parse_sst in parse_workbook")
        return
    muts = [w for w in _writes_of(lid, fn.body) if not (w.get("k") == "Assign" and any((callee(c) or "").endswith("xls::parse_sst") for c in walk_k(w["r"], "Call")))]
    if muts:
        rep.violation("R-SSTASIS", key, loc(muts[0]), "parse_workbook modifies the shared-string table after parse_sst decoded it: every LabelSst cell then shows an edited text (characters removed or trimmed) while the same text stored as a Label or formula string keeps them")
    else:
        rep.holds("R-SSTASIS", key, loc(fn.raw), "the shared-string table is used as decoded")


def r_autoext(ctx, rep):
    """C20 (and every format property through open_workbook_auto): a file with a known extension is opened by that
    format's reader and the reader's own error -- Password included -- is what the caller gets: the extension arms of
    auto::open_workbook_auto carry no guard and map the error into the wrapper."""
    F = ctx.facts("default")
    fn = F.fn("auto::open_workbook_auto")
    key = "auto::open_workbook_auto|R-AUTOEXT"
    if fn is None:
        rep.anchor_missing("R-AUTOEXT", "auto::open_workbook_auto")
        return
    arms = []
    for m in walk_k(fn.body, "Match"):
        for a in m.get("arms", []):
            lits = [v for v in pat_literals(a["pat"])[0] if isinstance(v, str)]
            if any(v in ("xls", "xlsx", "xlsb", "ods") for v in lits):
                arms.append((a, lits))
    if len(arms) < 4:
        rep.anchor_missing("R-AUTOEXT", "the extension arms of auto::open_workbook_auto (found %d)" % len(arms))
        return
    bad = [a for a, _ in arms if a.get("guard") is not None and not a.get("guard_from_body")]
    noerr = [a for a, _ in arms if not any(c.get("name") == "map_err" for c in walk_k(a["body"], "MethodCall")) and not any(x.get("src") == "TryDesugar" for x in walk_k(a["body"], "Match"))]
    if bad:
        rep.violation("R-AUTOEXT", key, loc(bad[0]), "an extension arm of open_workbook_auto is guarded: when the guard fails the file falls into the sniffing arm, which discards every reader's error -- an encrypted .xlsx (a compound file, not a zip) then reports 'cannot detect file format' instead of Password")
    elif noerr:
        rep.violation("R-AUTOEXT", key, loc(noerr[0]), "an extension arm of open_workbook_auto does not propagate the reader's error")
    else:
        rep.holds("R-AUTOEXT", key, loc(fn.raw), "%d extension arms, unguarded, each propagating its reader's error" % len(arms))


def r_range_disjoint(ctx, rep):
    """C06 / C17: Range::range copies the overlap of two rectangles; it returns early unless they overlap in rows *and* in
    columns -- the column arithmetic below (`end_col + 1 - other_start_col`) underflows for a rectangle beside the data."""
    F = ctx.facts("default")
    fn = next((f for f in F.user_fns() if f.file == "src/lib.rs" and f.name.endswith("Range::range")), None)
    key = "Range::range|R-RANGE-DISJOINT"
    if fn is None:
        rep.anchor_missing("R-RANGE-DISJOINT", "Range::range")
        return
    from .kit import always_leaves
    ok = False
    for i in walk_k(fn.body, "If"):
        if not always_leaves(i["then"], set()):
            continue
        gts = [b for b in walk_k(i["cond"], "Binary") if b.get("op") in (">", "<")]
        names = set()
        for b in gts:
            for side in (b["l"], b["r"]):
                pl = path_local(peel(side)) if isinstance(peel(side), dict) and peel(side).get("k") == "Path" else None
                if pl:
                    names.add(pl[0])
        rows = any("row" in x for x in names)
        cols = any("col" in x for x in names)
        ors = [b for b in walk_k(i["cond"], "Binary") if b.get("op") == "||"]
        if rows and cols and ors and len(gts) >= 2:
            ok = True
    if ok:
        rep.holds("R-RANGE-DISJOINT", key, loc(fn.raw), "early return when the rectangles share no row or no column")
    else:
        rep.violation("R-RANGE-DISJOINT", key, loc(fn.raw), "Range::range does not return early when the requested rectangle shares no column (or no row) with the stored cells: the width of the overlap underflows (a panic with overflow checks, a slice out of order without) for a table that lies beside the sheet's used range")


def r_latefield(ctx, rep):
    """C16 / C14: a loading step that fills a field of the reader by one final assignment (`self.metadata.names =
    defined_names` at the end of read_workbook) works on its local accumulator until then: the field still holds the
    constructor's empty default and is not read before that assignment."""
    F = ctx.facts("default")
    n = 0
    for fn in F.user_fns():
        short = fn.name.rsplit("::", 1)[-1]
        if fn.file not in ("src/xlsb/mod.rs", "src/xlsx/mod.rs", "src/xls.rs", "src/ods.rs") or short not in ("read_workbook", "parse_workbook", "read_styles", "read_shared_strings", "read_relationships"):
            continue
        order = {id(x): i for i, x in enumerate(walk(fn.body))}
        firsts = {}
        for a in walk_k(fn.body, "Assign"):
            fc = field_chain(a["l"])
            if fc and fc[0] == "self" and fc[1]:
                k = tuple(fc[1])
                firsts[k] = min(firsts.get(k, 1 << 30), order[id(a)])
        if not firsts:
            continue
        n += 1
        key = "%s|R-LATEFIELD" % fn.name
        bad = None
        assigned_nodes = {id(peel(a["l"])) for a in walk_k(fn.body, "Assign")}
        # capacity management of the field itself (`self.extern_sheets.reserve(n)`) is not a look-up
        for m_ in walk_k(fn.body, "MethodCall"):
            if m_.get("name") in ("reserve", "reserve_exact", "capacity", "clear", "shrink_to_fit"):
                for x_ in walk(m_["recv"]):
                    if isinstance(x_, dict) and x_.get("k") == "Field":
                        assigned_nodes.add(id(x_))
        for f in walk_k(fn.body, "Field"):
            if id(f) in assigned_nodes:
                continue
            fc = field_chain(f)
            if not fc or fc[0] != "self" or not fc[1]:
                continue
            k = tuple(fc[1])
            if k in firsts and order[id(f)] < firsts[k]:
                # only collections / tables matter (a flag such as is_1904 is read by nobody before it is set anyway)
                ty = (f.get("ty") or "")
                if "Vec<" in ty or "Map<" in ty:
                    bad = (f, ".".join(k))
        if bad:
            rep.violation("R-LATEFIELD", key, loc(bad[0]), "%s reads `self.%s` before the assignment that fills it: at that point the field is still the empty default of the constructor, so look-ups in it (names a later name refers to) find nothing" % (fn.name, bad[1]))
        else:
            rep.holds("R-LATEFIELD", key, loc(fn.raw), "no collection field is read before the assignment that fills it")
    rep.floor("R-LATEFIELD", 2, "loading steps that assign reader fields")


# ----------------------------------------------------------------------------------------------
# round 13 (value-level, shape-preserving changes): the few that have a structural trace

def _range_bounds(ix):
    """(start, end) literals of `x[a..b]` / `x[a..]`, None where absent or not literal"""
    idx = unwrap(ix["idx"])
    st = en = None
    if isinstance(idx, dict) and idx.get("k") == "Struct":
        for f in idx.get("fields", []):
            if f["name"] == "start":
                st = lit_value(f["e"])
            if f["name"] == "end":
                en = lit_value(f["e"])
    return st, en


def r_cfbhdr(ctx, rep):
    """C13 (and every xls / vba property): [MS-CFB] 2.2: the header holds the first 109 DIFAT entries in bytes 76..512;
    a version-3 directory entry (512-byte sectors) carries a 32-bit stream size in bytes 120..124 -- the upper half may
    hold garbage -- and only version 4 uses all eight bytes."""
    F = ctx.facts("default")
    fn = F.fn("cfb::Header::from_reader")
    key = "cfb::Header::from_reader|R-TAB-CFB|difat-bytes"
    if fn is None:
        rep.anchor_missing("R-TAB-CFB", "cfb::Header::from_reader")
    else:
        from .kit import const_value
        spans = []
        for ix in walk_k(fn.body, "Index"):
            idx = unwrap(ix["idx"])
            if isinstance(idx, dict) and idx.get("k") == "Struct":
                f = {x["name"]: x["e"] for x in idx.get("fields", [])}
                st = const_value(F, f["start"]) if "start" in f else None
                en = const_value(F, f["end"]) if "end" in f else None
                if st == 76:
                    spans.append((ix, en))
        if not spans:
            rep.anchor_missing("R-TAB-CFB", "the slice of the header that holds the DIFAT entries (from byte 76)")
        elif any(en not in (512, None) for _, en in spans):
            rep.violation("R-TAB-CFB", key, loc(spans[0][0]), "the header DIFAT is read from bytes 76..%s, not 76..512 (109 entries): a file with 109 or more FAT sectors loses a FAT sector and every chain beyond it" % [en for _, en in spans][0])
        else:
            rep.holds("R-TAB-CFB", key, loc(spans[0][0]), "header DIFAT = bytes 76..512")
    fn = F.fn("cfb::Directory::from_slice")
    key = "cfb::Directory::from_slice|R-TAB-CFB|len-width"
    if fn is None:
        rep.anchor_missing("R-TAB-CFB", "cfb::Directory::from_slice")
        return
    from .kit import const_value
    hit = None
    for i in walk_k(fn.body, "If"):
        c = unwrap(i["cond"])
        if isinstance(c, dict) and c.get("k") == "Binary" and c.get("op") in ("==", "!="):
            v = const_value(F, c["r"])
            v = v if v is not None else const_value(F, c["l"])
            if v in (512, 4096):
                hit = (i, c, v)
    def ends(e):
        return {_range_bounds(ix)[1] for ix in walk_k(e, "Index")} - {None}
    if hit is None:
        # `match sector_size { 512 => <4 bytes>, _ => <8 bytes> }`
        for m in walk_k(fn.body, "Match"):
            if m.get("src") in ("TryDesugar", "ForLoopDesugar"):
                continue
            arms512 = [a for a in m.get("arms", []) if 512 in [x for x in pat_literals(a["pat"])[0] if isinstance(x, int)]]
            arms4096 = [a for a in m.get("arms", []) if 4096 in [x for x in pat_literals(a["pat"])[0] if isinstance(x, int)]]
            others = [a for a in m.get("arms", []) if a not in arms512 and a not in arms4096]
            if not arms512 and not arms4096:
                continue
            narrow_ok = all(124 in ends(a["body"]) and 128 not in ends(a["body"]) for a in arms512)
            wide_ok = all(128 in ends(a["body"]) for a in arms4096)
            rest_ok = all((128 in ends(a["body"])) if arms512 else (124 in ends(a["body"])) for a in others if ends(a["body"]))
            if narrow_ok and wide_ok and rest_ok:
                rep.holds("R-TAB-CFB", key, loc(m), "512-byte sectors: 32-bit size (120..124); otherwise 64-bit (120..128)")
            else:
                rep.violation("R-TAB-CFB", key, loc(m), "Directory::from_slice picks the width of the stream size the wrong way round: a version-3 entry (512-byte sectors) must be read as 32 bits, its upper four bytes may hold garbage")
            return
        rep.anchor_missing("R-TAB-CFB", "the sector-size test that selects the width of the stream size in Directory::from_slice")
        return
    i, c, v = hit
    then_e, else_e = ends(i["then"]), ends(i["els"]) if i.get("els") is not None else set()
    narrow_in_then = 124 in then_e
    # `== 512` must select the 4-byte read, `== 4096` the 8-byte one (and the reverse for `!=`)
    want_narrow_then = (v == 512) == (c["op"] == "==")
    if narrow_in_then == want_narrow_then and (124 in then_e | else_e) and (128 in then_e | else_e):
        rep.holds("R-TAB-CFB", key, loc(i), "512-byte sectors: 32-bit size (120..124); otherwise 64-bit (120..128)")
    else:
        rep.violation("R-TAB-CFB", key, loc(i), "Directory::from_slice picks the width of the stream size the wrong way round: a version-3 entry (512-byte sectors) must be read as 32 bits, its upper four bytes may hold garbage")


def r_asf64(ctx, rep):
    """C11 / C09: a whole-number cell converts like the same number: in `as_f64` of Data / DataRef the Int payload is cast to
    f64 directly, through no narrower integer type (`as i32 as f64` wraps mod 2^32 and turns an out-of-range serial into a date)."""
    F = ctx.facts("default")
    n = 0
    for fn in F.fns_in("src/datatype.rs"):
        if not fn.name.endswith("::as_f64") or "ExcelDateTime" in fn.name:
            continue
        n += 1
        key = "%s|R-ASF64" % fn.name
        bad = [c for c in walk_k(fn.body, "Cast") if (c.get("ty") or "") in ("i32", "i16", "i8", "u32", "u16", "u8") and "i64" in ((peel(c.get("e")) or {}).get("ty") or "")]
        if bad:
            rep.violation("R-ASF64", key, loc(bad[0]), "%s narrows the integer payload to `%s` on its way to f64: integers beyond that type wrap, so an out-of-range serial converts to a plausible date instead of None" % (fn.name, bad[0].get("ty")))
        else:
            rep.holds("R-ASF64", key, loc(fn.raw), "the Int payload reaches f64 by one widening cast")
    rep.floor("R-ASF64", 2, "as_f64 of Data and DataRef")


def r_pos_cols(ctx, rep):
    """C09: the position of a cell of the row being deserialised is (row, first column + i): in both accessors of
    RowDeserializer the first component of the pair handed on is `self.pos.0` as it is; only the second one adds the index."""
    F = ctx.facts("default")
    fns = [f for f in F.fns if f.impl_self == "de::RowDeserializer" and f.impl_trait and (f.impl_trait.endswith("SeqAccess") or f.impl_trait.endswith("MapAccess"))]
    n = 0
    for fn in fns:
        for t in walk_k(fn.body, "Tup"):
            es = t.get("es", [])
            if len(es) != 2 or (t.get("ty") or "") != "(u32, u32)":
                continue
            fcs = [field_chain(p) for p in walk_k(t, "Field")]
            if not any(fc and fc[0] == "self" and fc[1][:1] == ["pos"] for fc in fcs):
                continue
            n += 1
            key = "%s|R-POS|components#%d" % (fn.name, n)
            first_plain = field_chain(es[0]) == ("self", ["pos", "0"])
            second_adds = any(b.get("op") == "+" for b in walk_k(es[1], "Binary")) and any(field_chain(p) == ("self", ["pos", "1"]) for p in walk_k(es[1], "Field"))
            if first_plain and second_adds:
                rep.holds("R-POS", key, loc(t), "(self.pos.0, self.pos.1 + i)")
            else:
                rep.violation("R-POS", key, loc(t), "%s builds the cell position with the index added to the wrong component: an error in column k of the row is reported k rows further down instead of k columns to the right" % fn.name)
    rep.floor("R-POS", 2, "cell positions built by RowDeserializer")


def r_vba_width(ctx, rep):
    """C18: the MODULEOFFSET TextOffset is a 32-bit field used as it is: read_modules (and the helpers split off it) casts
    nothing to an 8- or 16-bit integer."""
    F = ctx.facts("default")
    fn = F.fn("vba::read_modules")
    key = "vba::read_modules|R-VBAMOD|offset-width"
    if fn is None:
        rep.anchor_missing("R-VBAMOD", "vba::read_modules")
        return
    from .kit import with_new_callees
    bad = [c for b in with_new_callees(F, fn) for c in walk_k(b, "Cast") if (c.get("ty") or "") in ("u8", "u16", "i8", "i16")]
    if bad:
        rep.violation("R-VBAMOD", key, loc(bad[0]), "read_modules narrows a value to `%s`: a module whose source starts 64 KiB or more into its stream (a large p-code cache in front of it) would be decompressed from offset mod 65536" % bad[0].get("ty"))
    else:
        rep.holds("R-VBAMOD", key, loc(fn.raw), "no narrowing cast in the MODULE record walk")


def r_varint_width(ctx, rep):
    """C03 / C19: the record size of xlsb is up to 28 bits: in RecordIter::fill_buffer the 7-bit groups are shifted into place
    in a type at least 32 bits wide (a u16 accumulator silently drops everything from bit 16 on)."""
    F = ctx.facts("default")
    fn = F.fn("xlsb::RecordIter::fill_buffer")
    key = "xlsb::RecordIter::fill_buffer|R-VARINT|width"
    if fn is None:
        rep.anchor_missing("R-VARINT", "xlsb::RecordIter::fill_buffer")
        return
    sh = [b for b in walk_k(fn.body, "Binary") if b.get("op") == "<<"]
    if not sh:
        rep.anchor_missing("R-VARINT", "the shifts of RecordIter::fill_buffer")
        return
    bad = [b for b in sh if ((peel(b["l"]) or {}).get("ty") or b.get("ty") or "") in ("u8", "u16", "i8", "i16")]
    if bad:
        rep.violation("R-VARINT", key, loc(bad[0]), "fill_buffer shifts a 7-bit group into place in a `%s`: bits 16 and up of the record size are lost, so a record of 64 KiB or more (a maximum-length inline string) is cut short and the reader resumes inside its payload" % ((peel(bad[0]["l"]) or {}).get("ty") or bad[0].get("ty")))
    else:
        rep.holds("R-VARINT", key, loc(sh[0]), "the size groups are shifted in a type of at least 32 bits")
