"""Flow / effect rules on typed HIR.

R-FRAME    write footprint of every public read method of the four reader structs
R-ITER     size_hint reads state that next advances
R-POS      cell deserializer position depends on the column index; row position advances
R-MAPKEY   map access skips empty cells (empty = absent)
R-HDR      header lookup: trim on both sides, exact equality, HeaderNotFound on failure
R-DIM      declared dimensions flow only into capacity hints / comparisons
R-SST      index-addressed tables get exactly one push per item
R-ORDER    metadata vectors are filled by order-preserving operations only
R-NUMCTOR  numeric cell variants are built only through formats::format_excel_*
R-PWD      password detection
R-CONT     xls CONTINUE handling in read_dbcs / read_rich_extended_string / Record::skip
R-CFBFLOW  mini-stream cutoff and chain truncation
R-TBL      table header/totals adjustments use their own field
R-RANGEPRE Range::range is only called with start <= end established
"""
from .kit import (flat_stmts, body_stmts, cond_exprs, let_init, walk, walk_anc, walk_k, unwrap, peel, loc, callee, callee_decl, path_local, path_def, lit_value, pat_bindings,
                  pat_is_catchall, pat_variant, pat_covers, norm, norm_ty, field_chain, shape, always_leaves, in_macro)
from .r_tables import pat_keys, variants_built, key_matches
from .r_xml import event_matches, guard_literals, _arm_event_variant

READERS = {"xlsx::Xlsx": "src/xlsx/mod.rs", "xlsb::Xlsb": "src/xlsb/mod.rs", "xls::Xls": "src/xls.rs", "ods::Ods": "src/ods.rs"}

MUTATING_HINT = ("&mut ",)


def _self_lid(fn):
    for p in fn.params:
        for nm, lid in pat_bindings(p):
            if nm == "self":
                return lid
    return None


def _is_ref_mut(mode):
    # e.g. "BindingMode(Yes(Not, Mut), Not)"
    if not mode.startswith("BindingMode(Yes("):
        return False
    inner = mode[len("BindingMode(Yes("):].split(")")[0]
    return inner.split(",")[-1].strip() == "Mut"


def direct_self_writes(fn):
    """{field: [node]} for direct writes / mutable borrows of self.<field> in fn's body."""
    out = {}
    sl = _self_lid(fn)
    if sl is None:
        return out

    def root_field(e):
        fc = field_chain(e)
        if fc and fc[0] == "self" and fc[1]:
            return fc[1][0]
        return None

    for n in walk(fn.body):
        k = n.get("k")
        if k in ("Assign", "AssignOp"):
            f = root_field(n["l"])
            if f:
                out.setdefault(f, []).append(n)
            else:
                l = peel(n["l"])
                if isinstance(l, dict) and l.get("k") == "Path" and l.get("res", {}).get("lid") == sl:
                    out.setdefault("*", []).append(n)
        elif k == "AddrOf" and n.get("mut"):
            f = root_field(n["e"])
            if f:
                out.setdefault(f, []).append(n)
        elif k == "MethodCall":
            r = n["recv"]
            aty = r.get("aty") or r.get("ty") or ""
            if aty.startswith("&mut "):
                f = root_field(r)
                if f:
                    out.setdefault(f, []).append(n)
        elif k == "Let":
            # let Struct { ref mut a, .. } = *self
            init = n.get("init")
            if init is not None:
                i = peel(init)
                if isinstance(i, dict) and i.get("k") == "Path" and i.get("res", {}).get("lid") == sl:
                    for s in walk_k(n["pat"], "Struct"):
                        for f in s["fields"]:
                            for b in walk_k(f["pat"], "Binding"):
                                # BindingMode(Yes(<pin>, Mut), <mutability>) is a `ref mut` binding
                                if _is_ref_mut(b.get("mode", "")):
                                    out.setdefault(f["name"], []).append(n)
                else:
                    # let Some(ref mut x) = self.field
                    f = root_field(init)
                    if f and any(_is_ref_mut(b.get("mode", "")) for b in walk_k(n["pat"], "Binding")):
                        out.setdefault(f, []).append(n)
        elif k == "Match":
            # match self.field { Some(ref mut x) => .. }
            f = root_field(n["scrut"])
            if f and any(_is_ref_mut(b.get("mode", "")) for a in n.get("arms", []) for b in walk_k(a["pat"], "Binding")):
                out.setdefault(f, []).append(n)
    return out


def self_calls(F, fn):
    """Methods of the same type invoked on self (resolved)."""
    out = []
    sl = _self_lid(fn)
    for n in walk_k(fn.body, "MethodCall", "Call"):
        c = callee(n)
        if not c:
            continue
        tgt = F.fn(c)
        if tgt is None or tgt.impl_self != fn.impl_self:
            continue
        if n["k"] == "MethodCall":
            pl = path_local(n["recv"])
            if pl and pl[1] == sl:
                out.append((tgt, n))
        else:
            for a in n["args"]:
                pl = path_local(a)
                if pl and pl[1] == sl:
                    out.append((tgt, n))
    return out


def transitive_writes(F, fn, memo=None, stack=()):
    if memo is None:
        memo = {}
    if fn.name in memo:
        return memo[fn.name]
    if fn.name in stack:
        return {}
    w = {f: [(fn, n) for n in ns] for f, ns in direct_self_writes(fn).items()}
    for tgt, call in self_calls(F, fn):
        for f, ns in transitive_writes(F, tgt, memo, stack + (fn.name,)).items():
            w.setdefault(f, []).extend(ns)
    memo[fn.name] = w
    return w


FRAME_ALLOWED = {
    # method-name -> extra fields it may write (besides the archive cursor `zip`)
    "with_header_row": {"options"},
    "load_tables": {"tables"},
    "load_merged_regions": {"merged_regions"},
}
CONSTRUCTORS = ("new", "new_with_options")
CURSOR_TYPES = ("ZipFile", "quick_xml::reader::Reader", "BufReader", "RecordIter", "XlsxCellReader", "XlsbCellsReader")


def r_frame(ctx, rep):
    for cfg in ctx.configs():
        F = ctx.facts(cfg)
        sfx = "" if cfg == "default" else "@" + cfg
        n_entries = 0
        for ty in READERS:
            fns = [f for f in F.fns if f.impl_self == ty and not f.raw["span"].get("mac")]
            if not fns:
                rep.anchor_missing("R-FRAME", "impl blocks of %s" % ty)
                continue
            adt = F.adts.get(ty)
            if not adt:
                rep.anchor_missing("R-FRAME", "struct %s" % ty)
                continue
            fields = {f["name"]: f["ty"] for f in adt["variants"][0]["fields"]}
            # no stored cursor
            for fname, fty in sorted(fields.items()):
                key = "%s|R-FRAME|field-type %s" % (ty, fname)
                bad = [c for c in CURSOR_TYPES if c in fty]
                if bad:
                    rep.violation("R-FRAME", key, loc(adt), "%s stores a `%s` in field `%s` (%s): a reading cursor that survives between calls makes results depend on the call history" % (ty, bad[0], fname, fty))
                else:
                    rep.holds("R-FRAME", key + sfx, loc(adt), "field %s: %s holds no cursor" % (fname, fty), nontrivial=False)
            memo = {}
            for fn in fns:
                last = fn.name.rsplit("::", 1)[-1]
                if last in CONSTRUCTORS:
                    continue
                is_pub = fn.impl_trait in ("Reader", "ReaderRef") or fn.raw.get("vis") == "Public"
                if not is_pub:
                    continue
                if _self_lid(fn) is None:
                    continue
                n_entries += 1
                w = transitive_writes(F, fn, memo)
                allowed = {"zip"} | FRAME_ALLOWED.get(last, set())
                extra = {f: v for f, v in w.items() if f not in allowed}
                key = "%s|R-FRAME|writes" % fn.name
                if not extra:
                    rep.holds("R-FRAME", key + sfx, loc(fn.raw), "writes only %s" % (sorted(w) or "nothing"), nontrivial=bool(w))
                else:
                    for f, sites in sorted(extra.items()):
                        g, node = sites[0]
                        rep.violation("R-FRAME", "%s|R-FRAME|writes %s" % (fn.name, f), loc(node),
                                      "public read method %s writes reader state `%s` (in %s at %s): later reads would depend on the call history; only the constructor%s may write it" % (
                                          fn.name, f, g.name, loc(node), "" if f not in ("options", "tables", "merged_regions") else " and its designated setter/loader"))
            # with_header_row stores its argument unconditionally; worksheet_range* re-reads it
            for fn in fns:
                last = fn.name.rsplit("::", 1)[-1]
                if last == "with_header_row":
                    key = "%s|R-FRAME|stores-arg" % fn.name
                    plids = {lid for p in fn.params for nm, lid in pat_bindings(p) if nm != "self"}
                    ok = False
                    body = unwrap(fn.body)
                    stmts = body_stmts(body)
                    for s in stmts:
                        e = s.get("e")
                        if e and unwrap(e).get("k") == "Assign":
                            a = unwrap(e)
                            fc = field_chain(a["l"])
                            pl = path_local(a["r"])
                            if fc and fc[0] == "self" and fc[1] == ["options", "header_row"] and pl and pl[1] in plids:
                                ok = True
                    if ok:
                        rep.holds("R-FRAME", key + sfx, loc(fn.raw), "self.options.header_row = <argument>, unconditionally")
                    else:
                        rep.violation("R-FRAME", key, loc(fn.raw), "%s does not store its argument unconditionally into options.header_row" % fn.name)
                if last in ("worksheet_range", "worksheet_range_ref") and fn.impl_trait in ("Reader", "ReaderRef"):
                    key = "%s|R-FRAME|reads-option" % fn.name
                    if _reads_header_row(F, fn, set()):
                        rep.holds("R-FRAME", key + sfx, loc(fn.raw), "reads options.header_row on every call")
                    else:
                        rep.violation("R-FRAME", key, loc(fn.raw), "%s never consults options.header_row: a changed option would not affect subsequent reads" % fn.name)
        if n_entries < 30:
            rep.anchor_missing("R-FRAME", "public read methods of the reader structs (found %d)" % n_entries)


def _reads_header_row(F, fn, seen):
    if fn.name in seen:
        return False
    seen.add(fn.name)
    for n in walk_k(fn.body, "Field"):
        fc = field_chain(n)
        if fc and fc[0] == "self" and fc[1][:2] == ["options", "header_row"]:
            return True
    for tgt, _ in self_calls(F, fn):
        if _reads_header_row(F, tgt, seen):
            return True
    return False


# ----------------------------------------------------------------------------------------------


def _self_field_reads(fn):
    out = set()
    for n in walk_k(fn.body, "Field"):
        fc = field_chain(n)
        if fc and fc[0] == "self" and fc[1]:
            out.add(fc[1][0])
    return out


def r_iter(ctx, rep):
    F = ctx.facts("default")
    n = 0
    by_self = {}
    for f in F.fns:
        if f.impl_trait == "core::iter::traits::iterator::Iterator":
            by_self.setdefault(f.impl_self, {})[f.name.rsplit("::", 1)[-1]] = f
    for ty, ms in sorted(by_self.items()):
        if "next" not in ms:
            continue
        key = "%s|R-ITER" % ty
        if "size_hint" not in ms:
            rep.holds("R-ITER", key, loc(ms["next"].raw), "no size_hint override (default (0, None) brackets everything)", nontrivial=False)
            continue
        n += 1
        sh = ms["size_hint"]
        reads = _self_field_reads(sh)
        writes = set(direct_self_writes(ms["next"]).keys())
        if reads & writes:
            rep.holds("R-ITER", key, loc(sh.raw), "size_hint reads %s; next advances %s" % (sorted(reads), sorted(writes)))
        else:
            rep.violation("R-ITER", key, loc(sh.raw),
                          "Iterator for %s: size_hint is computed from %s but next() only advances %s: the hint never changes while items are consumed, so it does not bracket the number of items still to come" % (ty, sorted(reads), sorted(writes)))
        # a subtraction of two fields in size_hint must be overflow-safe
        for b in walk_k(sh.body, "Binary"):
            if b["op"] == "-" and field_chain(b["l"]) and field_chain(b["r"]):
                k2 = key + "|sub"
                rep.violation("R-ITER", k2, loc(b), "size_hint of %s subtracts two position fields with a plain `-` (%s - %s): for a range whose remaining rows are already consumed (e.g. header-only) this underflows and panics" % (
                    ty, ".".join(field_chain(b["l"])[1]), ".".join(field_chain(b["r"])[1])))
    if n < 3:
        rep.anchor_missing("R-ITER", "Iterator impls with a size_hint override (found %d)" % n)


def r_pos(ctx, rep):
    F = ctx.facts("default")
    fns = [f for f in F.fns if f.impl_self == "de::RowDeserializer" and f.impl_trait and (f.impl_trait.endswith("SeqAccess") or f.impl_trait.endswith("MapAccess"))]
    calls = 0
    for fn in fns:
        inits = {}
        for n in walk(fn.body):
            if n.get("k") == "Let" and n.get("init") is not None:
                for _, lid in pat_bindings(n["pat"]):
                    inits[lid] = n["init"]
        # locals bound from the column-index iterator / peek: closure params and match bindings over self.iter / self.peek
        idx_lids = set()
        for n in walk(fn.body):
            if n.get("k") == "MethodCall" and field_chain(n["recv"]) and field_chain(n["recv"])[0] == "self" and field_chain(n["recv"])[1][:1] in (["iter"], ["peek"]):
                pass
        for c in walk_k(fn.body, "Closure"):
            for p in c["params"]:
                for _, lid in pat_bindings(p):
                    idx_lids.add(lid)
        for n in walk_k(fn.body, "Binding"):
            if norm_ty(n.get("ty", "")) in ("&usize", "usize"):
                idx_lids.add(n["lid"])
        for c in walk_k(fn.body, "MethodCall"):
            if c["name"] != "to_cell_deserializer":
                continue
            calls += 1
            key = "%s|R-POS|column" % fn.name
            arg = c["args"][0]
            # follow let-bound locals back to their initialisers
            exprs, seen = [arg], set()
            uses_idx = False
            while exprs:
                e = exprs.pop()
                for n in walk_k(e, "Path"):
                    lid = n.get("res", {}).get("lid")
                    if lid is None or lid in seen:
                        continue
                    seen.add(lid)
                    if lid in idx_lids:
                        uses_idx = True
                    elif lid in inits:
                        exprs.append(inits[lid])
            if uses_idx:
                rep.holds("R-POS", key, loc(c), "the position handed to the cell deserializer depends on the column index")
            else:
                rep.violation("R-POS", key, loc(c),
                              "%s hands `%s` to to_cell_deserializer for every cell of the row: the column of the cell is never added, so a CellError reports the row's first column instead of the failing cell's position" % (
                                  fn.name, "self." + ".".join(field_chain(arg)[1]) if field_chain(arg) else "a column-independent position"))
    if calls < 2:
        rep.anchor_missing("R-POS", "to_cell_deserializer call sites in RowDeserializer (found %d)" % calls)
    # row position: RangeDeserializer::next must hand out the row's own position and advance the stored one
    nxt = F.fn("<de::RangeDeserializer as core::iter::traits::iterator::Iterator>::next")
    if nxt is None:
        rep.anchor_missing("R-POS", "Iterator::next for RangeDeserializer")
        return
    key = "%s|R-POS|row" % nxt.name
    w = direct_self_writes(nxt)
    if "current_pos" in w:
        rep.holds("R-POS", key, loc(nxt.raw), "next() advances the stored row position")
    else:
        rep.violation("R-POS", key, loc(nxt.raw), "RangeDeserializer::next never writes self.current_pos (it increments a copy): every record is deserialized with the same row in its error positions")


def r_mapkey(ctx, rep):
    F = ctx.facts("default")
    fn = next((f for f in F.fns if f.impl_self == "de::RowDeserializer" and f.name.endswith("::next_key_seed")), None)
    if fn is None:
        rep.anchor_missing("R-MAPKEY", "MapAccess::next_key_seed for RowDeserializer")
        return
    key = "%s|R-MAPKEY" % fn.name
    ok = False
    wrong = None
    for lp in walk_k(fn.body, "Loop"):
        for i in walk_k(lp, "If"):
            neg = [u for u in walk_k(i["cond"], "Unary") if u["op"] == "!" and any(m["name"] == "is_empty" for m in walk_k(u, "MethodCall"))]
            if neg and any(r.get("k") == "Ret" for r in walk(i["then"])):
                # the emptiness tested must be the cell's (an element of self.cells), not e.g. the header's
                for u in neg:
                    for m in walk_k(u, "MethodCall"):
                        if m["name"] != "is_empty":
                            continue
                        on_cells = any(x.get("k") == "Field" and x.get("name") == "cells" for x in walk(m["recv"]))
                        c = callee(m) or ""
                        if on_cells and "String" not in c and "::str::" not in c:
                            ok = True
                        else:
                            wrong = (loc(m), c)
    if not ok:
        # positive form: `if self.cells[i].is_empty() { continue }` in front of the key
        for lp in walk_k(fn.body, "Loop"):
            for i in walk_k(lp, "If"):
                c_ = unwrap(i["cond"])
                if isinstance(c_, dict) and c_.get("k") == "MethodCall" and c_.get("name") == "is_empty":
                    th = [x for x in walk(i["then"]) if isinstance(x, dict) and x.get("k") in ("Continue", "Ret", "Break")]
                    on_cells = any(x.get("k") == "Field" and x.get("name") == "cells" for x in walk(c_["recv"]))
                    cal = callee(c_) or ""
                    if th and all(x.get("k") == "Continue" for x in th) and on_cells and "String" not in cal and "::str::" not in cal:
                        ok = True
    if not ok:
        # iterator form: `self.iter.by_ref().find(|i| !cells[i].is_empty())` / `.filter(..)`
        cells_locals = {lid for l in walk_k(fn.body, "Let") if l.get("init") is not None and field_chain(l["init"]) == ("self", ["cells"]) for _, lid in pat_bindings(l["pat"])}
        for c in walk_k(fn.body, "MethodCall"):
            if c["name"] not in ("find", "filter", "find_map", "filter_map") or not c.get("args"):
                continue
            clo = unwrap(c["args"][0])
            if clo.get("k") != "Closure":
                continue
            for u in walk_k(clo, "Unary"):
                if u["op"] != "!":
                    continue
                for m in walk_k(u, "MethodCall"):
                    if m["name"] != "is_empty":
                        continue
                    on_cells = any(x.get("k") == "Field" and x.get("name") == "cells" for x in walk(m["recv"])) or \
                        any(path_local(x) and path_local(x)[1] in cells_locals for x in walk_k(m["recv"], "Path"))
                    cal = callee(m) or ""
                    if on_cells and "String" not in cal and "::str::" not in cal:
                        ok = True
                    else:
                        wrong = (loc(m), cal)
    if ok:
        rep.holds("R-MAPKEY", key, loc(fn.raw), "keys are produced inside a loop that skips cells for which is_empty() holds")
    else:
        rep.violation("R-MAPKEY", key, wrong[0] if wrong else loc(fn.raw), "next_key_seed does not skip empty cells in a loop%s: an empty cell would end the record (or be presented as a value) instead of being absent, so later fields of the row are lost" % ((" (the is_empty() test at %s is %s, not the emptiness of an element of self.cells)" % wrong) if wrong else ""))


def _is_trim(c):
    return bool(c) and c.startswith("core::str::") and c.endswith("::trim")


def r_hdr(ctx, rep):
    F = ctx.facts("default")
    fn = F.fn("de::RangeDeserializer::new")
    if fn is None:
        rep.anchor_missing("R-HDR", "RangeDeserializer::new")
        return
    trims = [c for c in walk_k(fn.body, "MethodCall") if _is_trim(callee(c))]
    eqs = []
    for b in walk_k(fn.body, "Binary"):
        if b["op"] == "==":
            l, r = peel(b["l"]), peel(b["r"])
            lt = l.get("k") == "MethodCall" and _is_trim(callee(l))
            rt = r.get("k") == "MethodCall" and _is_trim(callee(r))
            if lt or rt:
                other = r if lt else l
                eqs.append((b, other, lt and rt))
    key = "de::RangeDeserializer::new|R-HDR|trim-eq"
    good = False
    for b, other, both in eqs:
        if both:
            good = True
        pl = path_local(other)
        if pl:
            # the other side is a local bound to a trimmed value (`let wanted = wanted.as_ref().trim();`)
            for l in walk_k(fn.body, "Let"):
                if l.get("init") is not None and any(lid == pl[1] for _, lid in pat_bindings(l["pat"])) and any(_is_trim(callee(m)) for m in walk_k(l["init"], "MethodCall")):
                    good = True
            # ... or a closure parameter produced by a `.map(|h| h...trim())` stage
            for c in walk_k(fn.body, "MethodCall"):
                if c["name"] == "map" and c["args"]:
                    cl = unwrap(c["args"][0])
                    if cl.get("k") == "Closure" and any(_is_trim(callee(m)) for m in walk_k(cl["body"], "MethodCall")):
                        good = True
    if good:
        rep.holds("R-HDR", key, loc(eqs[0][0]), "requested and actual header are both trimmed and compared with ==")
    else:
        rep.violation("R-HDR", key, loc(fn.raw), "RangeDeserializer::new does not compare `header.trim() == requested.trim()` (found %d trim call(s), %d equality test(s) on a trimmed value): header selection must be exact after trimming on both sides" % (len(trims), len(eqs)))
    key = "de::RangeDeserializer::new|R-HDR|not-found"
    nf = [n for n in walk(fn.body) if n.get("k") == "Path" and (path_def(n) or "").endswith("DeError::HeaderNotFound")]
    ok = False
    for c in walk_k(fn.body, "MethodCall"):
        if c["name"] in ("ok_or_else", "ok_or") and any(n.get("k") == "Path" and (path_def(n) or "").endswith("DeError::HeaderNotFound") for n in walk(c)):
            r = peel(c["recv"])
            if r.get("k") == "MethodCall" and r["name"] == "position":
                ok = True
    if ok:
        rep.holds("R-HDR", key, loc(nf[0]), "a failed header lookup becomes DeError::HeaderNotFound")
    else:
        rep.violation("R-HDR", key, loc(fn.raw), "a requested header that is absent must produce DeError::HeaderNotFound (position(..).ok_or_else(..))")


# ----------------------------------------------------------------------------------------------
# R-DIM


_DIM_OK_SINKS = ("reserve", "reserve_exact", "with_capacity", "try_reserve")
_DIM_PROP = ("len", "min", "max", "saturating_mul", "saturating_add", "saturating_sub", "checked_mul", "checked_add", "checked_sub", "unwrap_or", "unwrap_or_default", "into", "try_into", "clone", "wrapping_mul")


def _parents_map(root):
    pm = {}
    for n, anc in walk_anc(root):
        pm[id(n)] = anc
    return pm


def _trace_dim(fn, start_nodes, rep, key, what):
    """Follow a declared-dimension value upward through expressions and through let-bound locals.
    Returns list of offending (node, reason)."""
    pm = _parents_map(fn.body)
    bad = []
    work = list(start_nodes)
    seen_l = set()
    sinks = 0
    while work:
        n = work.pop()
        anc = pm.get(id(n), ())
        cur = n
        for p in reversed(anc):
            k = p.get("k")
            if k is None:
                # struct-literal field record / arm record
                if "name" in p and "e" in p and p.get("e") is cur:
                    bad.append((p["e"], "stored in struct field `%s`" % p["name"]))
                    break
                cur = p
                continue
            if k in ("DropTemps", "Use", "Type", "AddrOf", "Cast", "Field", "Tup", "Unary"):
                cur = p
                continue
            if k == "Binary":
                if p["op"] in ("<", "<=", ">", ">=", "==", "!="):
                    # the comparison result: follow it to the `if` it steers
                    cur = p
                    continue
                if p["op"] in ("&&", "||"):
                    cur = p
                    continue
                cur = p
                continue
            if k == "MethodCall":
                if any(a is cur for a in p["args"]) or (p["recv"] is cur and p["name"] in _DIM_OK_SINKS):
                    if p["name"] in _DIM_OK_SINKS:
                        sinks += 1
                        break
                    if p["name"] in _DIM_PROP:
                        cur = p
                        continue
                    bad.append((p, "passed to `%s`" % p["name"]))
                    break
                if p["recv"] is cur:
                    if p["name"] in _DIM_PROP or p["name"] in ("map_err", "ok", "expect", "unwrap"):
                        cur = p
                        continue
                    bad.append((p, "used as receiver of `%s`" % p["name"]))
                    break
                cur = p
                continue
            if k == "Call":
                c = callee(p) or ""
                if c.endswith("::with_capacity"):
                    sinks += 1
                    break
                if c.endswith("Try::branch") or c.endswith("Ok") or c.endswith("from_residual") or in_macro(p, "debug", "warn", "trace", "info", "log", "format_args", "error"):
                    cur = p
                    continue
                if c.endswith("::dimensions"):
                    cur = p
                    continue
                bad.append((p, "passed to `%s`" % c))
                break
            if k == "Match":
                if p.get("src") == "TryDesugar" or p["scrut"] is cur or any(x is cur for x in walk(p["scrut"])):
                    # the value is destructured by the arms: follow pattern bindings
                    # (for `?` only the Continue arm carries the value)
                    for a in p["arms"]:
                        if p.get("src") == "TryDesugar" and not (pat_variant(a["pat"]) or "").endswith("Continue"):
                            continue
                        for _, lid in pat_bindings(a["pat"]):
                            if lid not in seen_l:
                                seen_l.add(lid)
                                work += [u for u in walk_k(fn.body, "Path") if u.get("res", {}).get("lid") == lid]
                    break
                cur = p
                continue
            if k == "Let":
                if p.get("init") is cur or any(x is cur for x in walk(p.get("init") or {})):
                    for _, lid in pat_bindings(p["pat"]):
                        if lid not in seen_l:
                            seen_l.add(lid)
                            work += [u for u in walk_k(fn.body, "Path") if u.get("res", {}).get("lid") == lid]
                break
            if k in ("If",):
                if any(x is cur for x in walk(p["cond"])):
                    why = _only_hints(p)
                    if why:
                        bad.append((p, "used to decide control flow (" + why + ")"))
                    else:
                        sinks += 1
                break
            if k in ("Semi", "Expr", "Block", "BlockExpr"):
                break
            if k == "Struct":
                bad.append((p, "stored in a struct literal"))
                break
            if k in ("Ret", "Assign", "AssignOp", "Index", "Array", "Break", "Closure"):
                bad.append((p, "flows into `%s`" % k))
                break
            cur = p
    return bad, sinks


def _only_hints(ifnode):
    """None if both branches of `ifnode` contain nothing but capacity hints and logging; else a reason."""
    for br in (ifnode["then"], ifnode.get("els")):
        if br is None:
            continue
        for n in walk(br):
            k = n.get("k")
            if k in ("Ret", "Break", "Continue") and not n["span"].get("desugar"):
                return "the branch contains `%s`" % k.lower()
            if k in ("Assign", "AssignOp"):
                return "the branch assigns state"
            if k == "MethodCall" and n["name"] not in _DIM_OK_SINKS and n["name"] not in _DIM_PROP and not in_macro(n, "debug", "warn", "trace", "info", "log", "error") and n["name"] not in ("as_ref", "to_string"):
                return "the branch calls `%s`" % n["name"]
    return None


def r_dim(ctx, rep):
    F = ctx.facts("default")
    n = 0
    for fn in F.fns:
        if fn.file not in ("src/xlsx/mod.rs", "src/xlsb/mod.rs", "src/xls.rs"):
            continue
        starts = []
        for c in walk_k(fn.body, "MethodCall"):
            if c["name"] == "dimensions" and (callee(c) or "").endswith("::dimensions"):
                starts.append(c)
        if fn.file == "src/xls.rs":
            for c in walk_k(fn.body, "Call"):
                if (callee(c) or "") == "xls::parse_dimensions":
                    starts.append(c)
        for s in starts:
            n += 1
            key = "%s|R-DIM|%d" % (fn.name, sum(1 for i in rep.instances if i["rule"] == "R-DIM" and i["key"].startswith(fn.name + "|")))
            bad, sinks = _trace_dim(fn, [s], rep, key, "declared dimension")
            if bad:
                node, why = bad[0]
                rep.violation("R-DIM", key, loc(node), "%s: the sheet's *declared* dimension (read at %s) is %s; it may only size capacity hints or be compared, because files may carry a missing or inaccurate dimension record and the range must come from the cells actually present" % (fn.name, loc(s), why))
            else:
                rep.holds("R-DIM", key, loc(s), "declared dimension flows only into %d capacity hint(s)/comparison(s)" % sinks)
    if n < 4:
        rep.anchor_missing("R-DIM", "uses of the declared sheet dimension in the readers (found %d)" % n)


# ----------------------------------------------------------------------------------------------
# R-SST


SST_TABLES = [
    # (function, table designator, what)
    ("xlsx::Xlsx::read_shared_strings", ("self", "strings"), "xlsx shared strings"),
    ("xlsx::Xlsx::read_styles", ("self", "formats"), "xlsx cellXfs"),
    ("xlsb::Xlsb::read_shared_strings", ("self", "strings"), "xlsb shared strings"),
    ("xlsb::Xlsb::read_styles", ("self", "formats"), "xlsb cellXfs"),
    # local tables are designated by their name *or* by their type (a renamed local keeps its role)
    ("xls::parse_sst", ("local", "sst", "alloc::vec::Vec<alloc::string::String>"), "xls SST"),
    ("xls::Xls::parse_workbook", ("local", "xfs", "alloc::vec::Vec<u16>"), "xls XF table"),
    ("xls::Xls::parse_workbook", ("local", "defined_names", "alloc::vec::Vec<(alloc::string::String, (core::option::Option<usize>, alloc::string::String))>"), "xls Lbl (defined name) table"),
    ("xlsb::Xlsb::read_workbook", ("local", "defined_names", "alloc::vec::Vec<(alloc::string::String, alloc::string::String)>"), "xlsb BrtName table"),
    # the table XTI.itabFirst indexes: one entry per BoundSheet8 record, whatever kind of sheet
    ("xls::Xls::parse_workbook", ("local", "sheet_names", "alloc::vec::Vec<(usize, alloc::string::String)>"), "xls BoundSheet8 table"),
    # the table the XTI entries of BrtExternSheet index: one entry per BrtBundleSh record, whatever kind of sheet
    ("xlsb::Xlsb::read_workbook", ("self", "sheets", "alloc::vec::Vec<(alloc::string::String, alloc::string::String)>"), "xlsb sheets (BrtBundleSh) table; nullskip"),
]

MANY = "many"


def _is_table(e, tab):
    kind, name = tab[0], tab[1]
    fc = field_chain(e)
    if kind == "self":
        if fc is not None and fc[0] == "self" and fc[1] == [name]:
            return True
        if len(tab) > 2 and fc is not None and fc[1] == [name]:
            # the field of a context struct that lends `&mut self.<name>` to helper methods: same name, same type
            t = (peel(e).get("ty") or "").replace("&mut ", "").replace("&", "")
            return t == tab[2]
        return False
    if fc is not None and fc[0] == name and not fc[1]:
        return True
    if len(tab) > 2 and fc is not None and not fc[1]:
        t = (peel(e).get("ty") or "").replace("&mut ", "").replace("&", "")
        return t == tab[2]
    return False


def _count_paths(e, tab, targets):
    """Set of (count, ended) outcomes over the paths through `e`: `count` pushes into the table so far,
    `ended` True when the path left the item scope with `continue` (item finished), False when it falls
    through.  Paths ending in return / break are excluded (failed item or end of table).
    count is MANY if a nested loop or closure pushes."""
    e = unwrap(e)
    if not isinstance(e, dict):
        return {(0, False)}
    k = e.get("k")
    if k in ("Ret", "Break"):
        return set()
    if k == "Continue":
        return {(0, True)}
    if k == "BlockExpr":
        acc = {(0, False)}
        b = e["block"]
        seq = []
        for s in b.get("stmts", []):
            if s.get("k") in ("Expr", "Semi"):
                seq.append(s["e"])
            elif s.get("k") == "Let":
                if s.get("init") is not None:
                    seq.append(s["init"])
        if b.get("expr") is not None:
            seq.append(b["expr"])
        for x in seq:
            acc = _seq(acc, _count_paths(x, tab, targets))
            if not acc:
                return set()
        return acc
    if k == "If":
        c = _count_paths(e["cond"], tab, targets)
        t = _count_paths(e["then"], tab, targets)
        f = _count_paths(e["els"], tab, targets) if e.get("els") is not None else {(0, False)}
        if "nullskip" in targets:
            # `if rel_len != 0xFFFF_FFFF { .. }`: the record carries the null marker where its part
            # relationship should be, so it declares no item; that side counts as a failed item
            cnd = unwrap(e["cond"])
            if isinstance(cnd, dict) and cnd.get("k") == "Binary" and cnd.get("op") in ("!=", "==") and \
                    0xFFFFFFFF in (lit_value(cnd["l"]), lit_value(cnd["r"])):
                return _seq(c, t if cnd["op"] == "!=" else f)
        return _seq(c, t | f)
    if k == "Match":
        s = _count_paths(e["scrut"], tab, targets)
        if e.get("src") == "TryDesugar":
            return s
        arms = set()
        null_scrut = "nullskip" in targets and e.get("src") in ("IfLet", "LetElse") and any(
            b_.get("op") in ("==", "!=") and 0xFFFFFFFF in (lit_value(b_["l"]), lit_value(b_["r"])) for b_ in walk_k(e["scrut"], "Binary"))
        for a in e["arms"]:
            if null_scrut and (a["pat"].get("k") == "Wild" or (pat_variant(a["pat"]) or "").endswith("None")):
                # `if let Some(sheet) = parse_bundle_sheet(..)?` where the helper answers None for the null marker:
                # the None side is the record that declares nothing
                continue
            arms |= _count_paths(a["body"], tab, targets)
        return _seq(s, arms)
    if k in ("Loop", "Closure"):
        inner = any(m.get("k") == "MethodCall" and m["name"] in ("push", "insert") and _is_table(m["recv"], tab) for m in walk(e))
        return {(MANY, False)} if inner else {(0, False)}
    if k == "MethodCall" and e["name"] in ("map", "and_then", "inspect") and any(isinstance(unwrap(a), dict) and unwrap(a).get("k") == "Closure" for a in e["args"]):
        rty = (peel(e["recv"]) or {}).get("ty") or ""
        if rty.startswith("core::result::Result<") or rty.startswith("core::option::Option<"):
            # `read(..).map(|s| sst.push(s))`: the closure runs once when the value is there; an Err is the failed item (it is
            # what the enclosing `?` / try_for_each propagates), a None simply runs nothing
            acc = _count_paths(e["recv"], tab, targets)
            inner = set()
            for a in e["args"]:
                ua = unwrap(a)
                if isinstance(ua, dict) and ua.get("k") == "Closure":
                    inner |= _count_paths(ua.get("body"), tab, targets)
            if rty.startswith("core::option::Option<"):
                inner |= {(0, False)}
            return _seq(acc, inner or {(0, False)})
    if k == "MethodCall":
        acc = _count_paths(e["recv"], tab, targets)
        for a in e["args"]:
            acc = _seq(acc, _count_paths(a, tab, targets))
        if e["name"] in ("push", "insert", "push_back") and _is_table(e["recv"], tab):
            acc = _seq(acc, {(1, False)})
        return acc
    acc = {(0, False)}
    for key, v in e.items():
        if key in ("span", "ty", "aty", "res", "callee", "pat"):
            continue
        if isinstance(v, dict) and ("k" in v):
            acc = _seq(acc, _count_paths(v, tab, targets))
        elif isinstance(v, list):
            for x in v:
                if isinstance(x, dict) and "k" in x:
                    acc = _seq(acc, _count_paths(x, tab, targets))
                elif isinstance(x, dict) and "e" in x:
                    acc = _seq(acc, _count_paths(x["e"], tab, targets))
    return acc


def _seq(a, b):
    out = set()
    for (x, xe) in a:
        if xe:
            out.add((x, True))
            continue
        for (y, ye) in b:
            if x == MANY or y == MANY:
                out.add((MANY, ye))
            else:
                out.add((x + y, ye))
    return out


def _item_scope(n, anc):
    """The per-item scope of a push: the nearest enclosing dispatch arm (match with literal / event
    patterns) or for-loop body.  Returns (scope expr, description)."""
    for i in range(len(anc) - 1, -1, -1):
        a = anc[i]
        # the closure of `(0..n).for_each(|_| ..)` / `try_for_each` is a loop body
        if a.get("k") == "Closure" and i > 0 and anc[i - 1].get("k") == "MethodCall" and anc[i - 1].get("name") in ("for_each", "try_for_each") and any(x is a for x in (unwrap(y) for y in anc[i - 1].get("args", []))):
            return a.get("body"), "closure of %s at %s" % (anc[i - 1]["name"], loc(a))
        if a.get("k") == "Loop" and a.get("src") == "for":
            # body of the desugared for: the `Some(pat) => body` arm
            return a["body"], "for-loop body at %s" % loc(a)
        if a.get("k") is None and "pat" in a and "body" in a:
            # a match arm; is its match a record/event dispatch?
            keys, ca = pat_keys(a["pat"])
            v = pat_variant(a["pat"]) or ""
            if any(k[0] == "int" for k in keys) or "quick_xml::events::Event::" in str([k for k in keys]) or any("Event::" in (kk[1] or "") for kk in keys if kk[0] == "path") or "Result::Ok" in v:
                return a["body"], "dispatch arm at %s" % loc(a)
    return None, None


def r_sst(ctx, rep, only=None):
    F = ctx.facts("default")
    for fname, tab, what in SST_TABLES:
        if only and not any(o in what for o in only):
            continue
        fn = F.fn(fname)
        key = "%s|R-SST|%s" % (fname, tab[1])
        if fn is None:
            rep.anchor_missing("R-SST", "%s (%s)" % (fname, what))
            continue
        pushes = [(n, anc) for n, anc in walk_anc(fn.body) if n.get("k") == "MethodCall" and n["name"] in ("push", "insert") and _is_table(n["recv"], tab)]
        if not pushes:
            rep.anchor_missing("R-SST", "push into %s in %s" % (tab[1], fname))
            continue
        scopes = {}
        for n, anc in pushes:
            sc, desc = _item_scope(n, anc)
            if sc is None:
                rep.violation("R-SST", key, loc(n), "%s: cannot find the per-item scope of the push into `%s`" % (fname, tab[1]))
                continue
            scopes[id(sc)] = (sc, desc)
        for sc, desc in scopes.values():
            counts = {c for c, _ in _count_paths(sc, tab, {"nullskip"} if what.endswith("; nullskip") else set())}
            if counts == {1}:
                rep.holds("R-SST", key, loc(sc), "%s: every completing path through the %s pushes exactly one entry into `%s`" % (what, desc, tab[1]))
            else:
                rep.violation("R-SST", key, loc(sc),
                              "%s: paths through the %s push %s entries into `%s` (must be exactly 1 on every path that does not fail): an item that takes the other path shifts every later index of the table, so index i no longer designates the i-th item" % (
                                  fname, desc, sorted(counts, key=str), tab[1]))


# ----------------------------------------------------------------------------------------------
# R-ORDER

_ORDER_BAD = ("sort", "sort_by", "sort_by_key", "sort_unstable", "sort_unstable_by", "sort_unstable_by_key", "sort_by_cached_key",
              "reverse", "rotate_left", "rotate_right", "swap", "swap_remove", "retain", "retain_mut", "dedup", "dedup_by", "dedup_by_key",
              "drain", "insert", "remove", "truncate", "pop", "rev", "split_off")


def r_order(ctx, rep):
    F = ctx.facts("default")
    n = 0
    for fn in F.user_fns():
        if fn.file not in ("src/xlsx/mod.rs", "src/xlsb/mod.rs", "src/xls.rs", "src/ods.rs"):
            continue
        # locals that flow into Metadata.sheets / Metadata.names
        flow = {}
        inits = {}
        for x in walk(fn.body):
            if x.get("k") == "Let" and x.get("init") is not None:
                for nm, lid in pat_bindings(x["pat"]):
                    inits[lid] = (nm, x["init"])
        roots = []
        for x in walk(fn.body):
            if x.get("k") == "Assign":
                fc = field_chain(x["l"])
                if fc and fc[0] == "self" and fc[1][:1] == ["metadata"]:
                    roots.append(x["r"])
            if x.get("k") == "Struct" and (norm(x["res"].get("ctor_of") or x["res"].get("def")) or "") == "Metadata":
                roots += [f["e"] for f in x["fields"] if "e" in f]
            if x.get("k") == "Struct" and (norm(x["res"].get("ctor_of") or x["res"].get("def")) or "").endswith("ods::Content"):
                roots += [f["e"] for f in x["fields"] if f["name"] in ("sheets_metadata", "defined_names") and "e" in f]
        direct = []
        for x in walk_k(fn.body, "MethodCall"):
            fc = field_chain(x["recv"])
            if fc and fc[0] == "self" and fc[1][:1] == ["metadata"]:
                direct.append(x)
        if not roots and not direct:
            continue
        work = list(roots)
        seen = set()
        while work:
            e = work.pop()
            for p in walk_k(e, "Path"):
                r = p.get("res", {})
                if "local" in r and r["lid"] not in seen:
                    seen.add(r["lid"])
                    flow[r["lid"]] = r["local"]
                    if r["lid"] in inits:
                        work.append(inits[r["lid"]][1])
        n += 1
        key = "%s|R-ORDER" % fn.name
        bad = []
        for x in walk_k(fn.body, "MethodCall"):
            if x["name"] not in _ORDER_BAD:
                continue
            fc = field_chain(x["recv"])
            r = peel(x["recv"])
            target = None
            if fc and fc[0] == "self" and fc[1][:1] == ["metadata"]:
                target = "self." + ".".join(fc[1])
            elif fc and not fc[1]:
                pl = path_local(x["recv"])
                if pl and pl[1] in flow:
                    target = pl[0]
            else:
                # adaptor chains: defined_names.into_iter().rev() ...
                for p in walk_k(x["recv"], "Path"):
                    rr = p.get("res", {})
                    if rr.get("lid") in flow and x["name"] in ("rev", "sort", "sort_by", "sort_by_key", "reverse"):
                        target = rr["local"]
            if target:
                if x["name"] in ("insert", "remove", "truncate", "pop", "drain", "split_off") and "Vec" not in norm_ty(peel(x["recv"]).get("ty", "") + (peel(x["recv"]).get("aty") or "")):
                    continue
                bad.append((x, target))
        for lid, nm in flow.items():
            ty = ""
            for b in walk_k(fn.body, "Binding"):
                if b["lid"] == lid:
                    ty = norm_ty(b.get("ty", ""))
            if any(t in ty for t in ("BTreeMap", "HashMap", "BTreeSet", "HashSet")) and nm not in ("relationships",):
                bad.append(({"span": fn.raw["span"]}, "%s: %s" % (nm, ty)))
        if bad:
            x, target = bad[0]
            rep.violation("R-ORDER", key, loc(x), "%s applies the order-changing operation `%s` to `%s`, which feeds the workbook metadata: sheets and defined names must be listed in workbook order" % (fn.name, x.get("name", "map/set round trip"), target))
        else:
            rep.holds("R-ORDER", key, loc(fn.raw), "values feeding Metadata (%s) see only order-preserving operations" % (sorted(set(flow.values())) or "direct pushes"))
    if n < 4:
        rep.anchor_missing("R-ORDER", "functions filling Metadata in the four readers (found %d)" % n)


# ----------------------------------------------------------------------------------------------
# R-NUMCTOR


def r_numctor(ctx, rep):
    F = ctx.facts("default")
    n = 0
    for fn in F.user_fns():
        if fn.file not in ("src/xls.rs", "src/xlsb/mod.rs", "src/xlsb/cells_reader.rs", "src/xlsx/mod.rs", "src/xlsx/cells_reader.rs"):
            continue
        count = {}
        for x in walk(fn.body):
            d = None
            if x.get("k") == "Path":
                d = path_def(x)
            if not d:
                continue
            for enum in ("datatype::Data", "datatype::DataRef"):
                for v in ("Int", "Float", "DateTime"):
                    if d == "%s::%s" % (enum, v):
                        count[(enum, v)] = count.get((enum, v), 0) + 1
                        n += 1
                        key = "%s|R-NUMCTOR|%s::%s#%d" % (fn.name, enum.rsplit("::", 1)[1], v, count[(enum, v)])
                        rep.violation("R-NUMCTOR", key, loc(x),
                                      "%s builds %s::%s directly instead of going through formats::format_excel_*: the cell's number format is not consulted, so a date-formatted number stored this way is returned as a plain number" % (fn.name, enum.rsplit("::", 1)[1], v))
        # every format_excel_* call: the format operand comes from a `.get(style index)` on a CellFormat table
        # (or the Some(&CellFormat::Other) fallback when no style attribute exists) and is_1904 from the reader
        for c in walk_k(fn.body, "Call"):
            cal = callee(c) or ""
            if not cal.startswith("formats::format_excel_"):
                continue
            n += 1
            idx = sum(1 for i in rep.instances if i["rule"] == "R-NUMCTOR" and i["key"].startswith(fn.name + "|R-NUMCTOR|call"))
            key = "%s|R-NUMCTOR|call#%d" % (fn.name, idx)
            fmt, flag = c["args"][1], c["args"][2]
            why = _format_operand_ok(F, fn, fmt)
            why2 = _flag_operand_ok(fn, flag)
            if why is None and why2 is None:
                rep.holds("R-NUMCTOR", key, loc(c), "format operand comes from the style table lookup; date-system operand from the reader flag")
            else:
                rep.violation("R-NUMCTOR", key, loc(c), "%s calls %s with %s" % (fn.name, cal.rsplit("::", 1)[1], why or why2))
    if n < 8:
        rep.anchor_missing("R-NUMCTOR", "format_excel_* call sites in the readers (found %d)" % n)


def _format_operand_value(F, fn, body, depth):
    """the operand is what `body` evaluates to (the body of a parameterless local closure)"""
    init = unwrap(body)
    while isinstance(init, dict) and init.get("k") == "BlockExpr" and not init["block"].get("stmts") and init["block"].get("expr") is not None:
        init = unwrap(init["block"]["expr"])
    if isinstance(init, dict) and init.get("k") == "Match":
        rs = [_format_operand_ok(F, fn, _arm_value(a["body"]), depth + 1) for a in init["arms"]]
        goods = [r for r in rs if r is None]
        consts = [a for a in init["arms"] if "Other" in variants_built(a["body"], "CellFormat")]
        if goods and len(goods) + len(consts) >= len(init["arms"]):
            return None
        return "a format that is not looked up from the style index on any path"
    return _format_operand_ok(F, fn, init, depth + 1)


def _format_operand_ok(F, fn, e, depth=0):
    """None if ok, else a reason string."""
    e = peel(e)
    if depth > 4:
        return "a format operand whose origin could not be traced"
    if e.get("k") == "MethodCall" and e["name"] == "get" and "CellFormat" in norm_ty(peel(e["recv"]).get("ty", "") + (peel(e["recv"]).get("aty") or "")):
        if lit_value(e["args"][0]) is not None:
            return "a constant style index"
        return None
    if e.get("k") == "Call" and not e.get("args") and isinstance(e.get("f"), dict) and path_local(unwrap(e["f"])):
        # `let cell_format = || match .. { .. }; .. cell_format()`: a lazy look-up; the closure's body is the operand
        li_ = let_init(fn.body, unwrap(e["f"]))
        cl_ = unwrap(li_["init"]) if li_ is not None else None
        if isinstance(cl_, dict) and cl_.get("k") == "Closure" and not cl_.get("params"):
            return _format_operand_value(F, fn, cl_["body"], depth + 1)
    if e.get("k") == "Call":
        c = callee(e) or ""
        g = F.fn(c)
        if g is not None and "CellFormat" in g.raw.get("sig", ""):
            # helper returning the format (xlsb cell_format): its body must do the lookup
            for m in walk_k(g.body, "MethodCall"):
                if m["name"] == "get" and "CellFormat" in norm_ty(peel(m["recv"]).get("ty", "") + (peel(m["recv"]).get("aty") or "")):
                    return None
            return "the helper `%s`, which does not look the style up in the format table" % c
        if c.endswith("Option::None"):
            return "None as format"
        return "a format operand produced by `%s`" % c
    if e.get("k") == "Path":
        r = e.get("res", {})
        if "local" in r:
            # parameter or let-bound local
            lid = r["lid"]
            for p in fn.params:
                if any(l == lid for _, l in pat_bindings(p)):
                    # parameter: check call sites pass a lookup
                    idx = [i for i, q in enumerate(fn.params) if any(l == lid for _, l in pat_bindings(q))][0]
                    reasons = []
                    for g in F.fns:
                        for c in walk_k(g.body, "Call"):
                            if callee(c) == fn.name and idx < len(c["args"]):
                                reasons.append(_format_operand_ok(F, g, c["args"][idx], depth + 1))
                    bad = [x for x in reasons if x]
                    return bad[0] if bad else None
            for x in walk(fn.body):
                if x.get("k") == "Let" and x.get("init") is not None and any(l == lid for _, l in pat_bindings(x["pat"])):
                    init = unwrap(x["init"])
                    if init.get("k") == "Closure" and not init.get("params"):
                        return "a closure used as a value"
                    if init.get("k") == "Match":
                        # `match style attr { Ok(Some(style)) => formats.get(id), _ => Some(&CellFormat::Other) }`
                        rs = [_format_operand_ok(F, fn, _arm_value(a["body"]), depth + 1) for a in init["arms"]]
                        goods = [r for r in rs if r is None]
                        def _vb(e_):
                            # variants built directly, or through a named constant (`const UNSTYLED: CellFormat = CellFormat::Other`)
                            out_ = list(variants_built(e_, "CellFormat"))
                            for p_ in walk_k(e_, "Path"):
                                if p_.get("res", {}).get("dk") == "Const":
                                    for c_ in F.consts:
                                        if norm(c_["def"]) == path_def(p_) and c_.get("body") is not None:
                                            out_ += variants_built(c_["body"], "CellFormat")
                            return out_
                        consts = [a for a in init["arms"] if "Other" in _vb(a["body"])]
                        if goods and len(goods) + len(consts) >= len(init["arms"]):
                            return None
                        return "a format that is not looked up from the style index on any path"
                    return _format_operand_ok(F, fn, init, depth + 1)
        if r.get("def", "").endswith("Option::None"):
            return "None as format (the style is ignored)"
    if e.get("k") == "Call" and (callee(e) or "").endswith("Option::Some"):
        return "a constant format"
    return "a format operand of an unrecognised shape"


def _arm_value(b):
    b = unwrap(b)
    if b.get("k") == "BlockExpr" and b["block"].get("expr") is not None:
        return b["block"]["expr"]
    return b


def _flag_operand_ok(fn, e):
    if lit_value(e) is not None:
        return "a constant date-system flag (%s) instead of the workbook's 1904 flag" % lit_value(e)
    return None


# ----------------------------------------------------------------------------------------------
# R-PWD


def r_pwd(ctx, rep):
    F = ctx.facts("default")
    # (1) xlsx / xlsb: sniff dominates archive opening, error propagated
    for ty, mod in (("xlsx::Xlsx", "xlsx"), ("xlsb::Xlsb", "xlsb")):
        fn = next((f for f in F.fns if f.impl_self == ty and f.impl_trait == "Reader" and f.name.endswith("::new")), None)
        key = "%s|R-PWD|sniff-first" % ty
        if fn is None:
            rep.anchor_missing("R-PWD", "Reader::new for %s" % ty)
            continue
        order = []
        for n, anc in walk_anc(fn.body):
            if n.get("k") == "Call":
                c = callee(n) or ""
                if c == mod + "::check_for_password_protected":
                    tryd = any(a.get("k") == "Match" and a.get("src") == "TryDesugar" for a in anc)
                    cond = any(a.get("k") in ("If", "Loop", "Closure") or (a.get("k") == "Match" and a.get("src") != "TryDesugar") for a in anc)
                    order.append(("sniff", tryd, cond, n))
                elif c.endswith("ZipArchive>::new") or c.endswith("ZipArchive::new"):
                    order.append(("zip", None, None, n))
        kinds = [o[0] for o in order]
        if "sniff" in kinds and "zip" in kinds and kinds.index("sniff") < kinds.index("zip") and order[kinds.index("sniff")][1] and not order[kinds.index("sniff")][2]:
            rep.holds("R-PWD", key, loc(order[0][3]), "check_for_password_protected(..)? runs unconditionally before ZipArchive::new")
        else:
            rep.violation("R-PWD", key, loc(fn.raw), "%s::new must call check_for_password_protected(..)? unconditionally before ZipArchive::new (found order %s): an encrypted package is a compound file, so opening it as a zip first yields an unrelated Zip error instead of Password" % (ty, kinds))
        sn = F.fn(mod + "::check_for_password_protected")
        key = "%s::check_for_password_protected|R-PWD|predicate" % mod
        if sn is None:
            rep.anchor_missing("R-PWD", "%s::check_for_password_protected" % mod)
            continue
        pw = [(n, anc) for n, anc in walk_anc(sn.body) if n.get("k") == "Path" and (path_def(n) or "").endswith("Error::Password")]
        if len(pw) != 1:
            rep.violation("R-PWD", key, loc(sn.raw), "%s builds the Password error %d times (expected exactly once, under the EncryptedPackage test)" % (sn.name, len(pw)))
            continue
        n, anc = pw[0]
        conds = []
        for a in anc:
            if a.get("k") == "If":
                conds.append(a["cond"])
            if a.get("k") == "Match" and a.get("src") not in ("TryDesugar",):
                conds.append(a["scrut"])
                # `match Cfb::new(..) { Ok(cfb) if cfb.has_directory(..) => Err(Password), _ => Ok(()) }`
                for arm in a["arms"]:
                    if arm.get("guard") is not None and any(x is n for x in walk(arm["body"])):
                        conds.append(arm["guard"])
        # a test on a boolean local (`let encrypted = Cfb::new(..).map_or(false, |cfb| cfb.has_directory(..)); if encrypted {`)
        # stands for the local's initialiser
        from .kit import cond_exprs
        conds2 = []
        for c in conds:
            ex = cond_exprs(sn.body, c)
            conds2 += ex[1:] if (len(ex) > 1 and path_local(unwrap(c))) else [c]
        conds = conds2
        ok_dir = any(any(m["name"] == "has_directory" and m["args"] and lit_value(m["args"][0]) == "EncryptedPackage" for m in walk_k(c, "MethodCall")) for c in conds)
        other = [c for c in conds if not any(m["name"] == "has_directory" for m in walk_k(c, "MethodCall")) and not any((callee(x) or "").endswith("Cfb::new") for x in walk_k(c, "Call"))]
        negated = any(u["op"] == "!" and any(m["name"] == "has_directory" for m in walk_k(u, "MethodCall")) for c in conds for u in walk_k(c, "Unary"))
        rets_ok_before = [r for r in walk_k(sn.body, "Ret") if not r["span"].get("desugar") and r["span"]["l"] < n["span"]["l"]
                          and not any((path_def(x) or "").endswith("Result::Err") for x in walk_k(r, "Path"))]
        if ok_dir and not other and not negated and not rets_ok_before:
            rep.holds("R-PWD", key, loc(n), "Password is raised iff the input parses as a compound file that has an `EncryptedPackage` entry")
        else:
            rep.violation("R-PWD", key, loc(n), "%s: Password must depend exactly on `cfb.has_directory(\"EncryptedPackage\")` for an input that opens as a compound file (has_directory test: %s, negated: %s, extra conditions: %d, early success returns: %d)" % (sn.name, ok_dir, negated, len(other), len(rets_ok_before)))
    # (2) xls FILEPASS
    fn = F.fn("xls::Xls::parse_workbook")
    key = "xls::Xls::parse_workbook|R-PWD|FILEPASS"
    if fn is None:
        rep.anchor_missing("R-PWD", "xls::Xls::parse_workbook")
    else:
        arm = None
        for m in walk_k(fn.body, "Match"):
            for a in m["arms"]:
                keys, ca = pat_keys(a["pat"])
                if any(k == ("int", 0x2F) for k in keys):
                    arm = a
                    break
            if arm:
                break
        if arm is None:
            rep.violation("R-PWD", key, loc(fn.raw), "the workbook-globals dispatch has no arm for FILEPASS (0x002F): an encrypted BIFF workbook would be parsed as if it were plaintext")
        else:
            pw = "Password" in variants_built(arm["body"], "XlsError")
            leaves = unwrap(arm["body"]).get("k") == "Ret" or always_leaves(arm["body"], set())
            if pw and leaves and arm.get("guard") is None:
                rep.holds("R-PWD", key, loc(arm), "every FILEPASS record yields XlsError::Password")
            elif pw and leaves:
                rep.violation("R-PWD", key + "|guard:" + _guard_sig(arm["guard"]), loc(arm),
                              "the FILEPASS (0x002F) arm is guarded (`if %s`): a workbook carrying a FILEPASS record for which the guard is false is decoded as plaintext (garbage or an unrelated error) instead of XlsError::Password.  MS-XLS 2.4.117: any FILEPASS record means the stream is encrypted/obfuscated (wEncryptionType 0 = XOR obfuscation, 1 = RC4; BIFF5 has no type field at all)" % _guard_sig(arm["guard"]))
            else:
                rep.violation("R-PWD", key, loc(arm), "the FILEPASS arm does not return XlsError::Password")
    # (3) ods
    fn = F.fn("ods::check_for_password_protected")
    key = "ods::check_for_password_protected|R-PWD|encryption-data"
    if fn is None:
        rep.anchor_missing("R-PWD", "ods::check_for_password_protected")
    else:
        found = False
        for em in event_matches(fn):
            for arm in em["match"]["arms"]:
                if "manifest:encryption-data" in guard_literals(arm) and "Password" in variants_built(arm["body"], "OdsError"):
                    found = True
                    ev = _arm_event_variant(arm, em["wrapped"])
                    g = arm["guard"]
                    extra = [b for b in walk_k(g, "Binary") if b["op"] in ("&&", "||")]
                    from .kit import arm_body
                    if ev == "Start" and not extra and always_leaves(arm_body(arm), set()):
                        rep.holds("R-PWD", key, loc(arm), "any <manifest:encryption-data> start returns OdsError::Password")
                    else:
                        rep.violation("R-PWD", key, loc(arm), "the encryption-data arm must fire on every Start event of that element and return Password (event %s, extra guard terms %d)" % (ev, len(extra)))
        if not found:
            rep.violation("R-PWD", key, loc(fn.raw), "no arm returns OdsError::Password on <manifest:encryption-data>")
        # the scan must be reached on every path: no success return before the scan loop
        key2 = "ods::check_for_password_protected|R-PWD|scan-reached"
        loops = list(walk_k(fn.body, "Loop"))
        early = []
        seen_loop = False
        for r, anc in walk_anc(fn.body):       # pre-order = source order (a helper inlined at its call site included)
            if r.get("k") == "Loop":
                seen_loop = True
            if r.get("k") == "Ret" and loops and not seen_loop:
                if any(a.get("k") == "Match" and a.get("src") == "TryDesugar" for a in anc):
                    continue        # the error return of a `?`
                if not any((path_def(x) or "").endswith("Result::Err") for x in walk_k(r, "Path")):
                    early.append(r)
        if loops and not early:
            rep.holds("R-PWD", key2, loc(loops[0]), "no success return precedes the manifest scan")
        else:
            rep.violation("R-PWD", key2, loc(early[0] if early else fn.raw), "%s can return success before scanning the manifest for encryption data" % fn.name)
        # Ods::new calls it with `?` before parse_content
        new = next((f for f in F.fns if f.impl_self == "ods::Ods" and f.impl_trait == "Reader" and f.name.endswith("::new")), None)
        key3 = "ods::Ods|R-PWD|sniff-first"
        if new is None:
            rep.anchor_missing("R-PWD", "Reader::new for ods::Ods")
        else:
            seq = []
            for n, anc in walk_anc(new.body):
                if n.get("k") == "Call" and (callee(n) or "") in ("ods::check_for_password_protected", "ods::parse_content"):
                    tryd = any(a.get("k") == "Match" and a.get("src") == "TryDesugar" for a in anc)
                    cond = any(a.get("k") in ("If", "Loop") or (a.get("k") == "Match" and a.get("src") != "TryDesugar") for a in anc)
                    seq.append((callee(n).rsplit("::", 1)[1], tryd, cond))
            names = [s[0] for s in seq]
            if names[:2] == ["check_for_password_protected", "parse_content"] and seq[0][1] and not seq[0][2]:
                rep.holds("R-PWD", key3, loc(new.raw), "check_for_password_protected(..)? precedes parse_content unconditionally")
            else:
                rep.violation("R-PWD", key3, loc(new.raw), "Ods::new must run check_for_password_protected(..)? unconditionally before parse_content (found %s)" % seq)
    # (1b) the sniff parses the container from its first byte: the last seek before Cfb::new is Start(0)
    for sn_name in ("xlsx::check_for_password_protected", "xlsb::check_for_password_protected"):
        sn = F.fn(sn_name)
        if sn is None:
            continue
        key = "%s|R-PWD|rewind" % sn_name
        cfbnew = [c for c in walk_k(sn.body, "Call") if (callee(c) or "").endswith("cfb::Cfb::new")]
        if not cfbnew:
            rep.anchor_missing("R-PWD", "Cfb::new call in %s" % sn_name)
            continue
        at = (cfbnew[0]["span"]["l"], cfbnew[0]["span"]["c"])
        seeks = [c for c in walk_k(sn.body, "MethodCall", "Call") if (callee_decl(c) or "") == "std::io::Seek::seek" and (c["span"]["l"], c["span"]["c"]) < at]
        last = max(seeks, key=lambda c: (c["span"]["l"], c["span"]["c"])) if seeks else None
        ok = False
        if last is not None:
            arg = (last.get("args") or [None])[-1]
            for c in walk_k(arg, "Call"):
                if (callee(c) or "").endswith("SeekFrom::Start") and c.get("args") and lit_value(c["args"][0]) == 0:
                    ok = True
        if ok:
            rep.holds("R-PWD", key, loc(last), "the reader is rewound to SeekFrom::Start(0) before the compound-file parse")
        else:
            rep.violation("R-PWD", key, loc(last or cfbnew[0]), "%s does not rewind the reader to offset 0 (SeekFrom::Start(0)) right before Cfb::new: Cfb::new parses from the current position and its error is swallowed, so a handle that is not at offset 0 makes an encrypted package look unencrypted (an unrelated Zip error instead of Password)" % sn_name)
    # (4) Password variants constructed nowhere else
    allowed = {"xlsx::check_for_password_protected", "xlsb::check_for_password_protected", "xls::Xls::parse_workbook", "ods::check_for_password_protected"}
    for f in F.user_fns():
        if f.impl_trait and ("fmt::" in f.impl_trait or "Error" in f.impl_trait):
            continue
        for n in walk_k(f.body, "Path"):
            d = path_def(n) or ""
            if d.endswith("Error::Password") and n.get("ty", "").find("fn(") < 0:
                key = "%s|R-PWD|ctor" % f.name
                # patterns are not Path exprs; this is a construction
                if f.name == "xls::Xls::parse_workbook":
                    # only the FILEPASS arm may build it
                    inside = False
                    for nn, anc in walk_anc(f.body):
                        if nn is n:
                            for a in anc:
                                if a.get("k") is None and "pat" in a and any(k == ("int", 0x2F) for k in pat_keys(a["pat"])[0]):
                                    inside = True
                    if inside:
                        rep.holds("R-PWD", key, loc(n), "Password built in the FILEPASS arm", nontrivial=False)
                    else:
                        rep.violation("R-PWD", key + "|outside-filepass", loc(n), "xls::Xls::parse_workbook builds XlsError::Password outside the FILEPASS (0x002F) arm: a workbook without a FILEPASS record (not encrypted) could be reported as password protected")
                elif f.name in allowed:
                    rep.holds("R-PWD", key, loc(n), "Password built at a designated detection site", nontrivial=False)
                else:
                    rep.violation("R-PWD", key, loc(n), "%s builds a Password error outside the four detection sites: an unencrypted workbook could be reported as password protected" % f.name)


def _guard_sig(g):
    """Readable structural signature of a guard expression."""
    g = unwrap(g)
    k = g.get("k")
    if k == "Binary":
        return "%s %s %s" % (_guard_sig(g["l"]), g["op"], _guard_sig(g["r"]))
    if k == "Call":
        return "%s(%s)" % ((callee(g) or "?").rsplit("::", 1)[-1], ", ".join(_guard_sig(a) for a in g["args"]))
    if k == "Lit":
        return repr(g["v"].get("v"))
    if k == "Field":
        return _guard_sig(g["e"]) + "." + g["name"]
    if k == "Path":
        return g.get("res", {}).get("local") or (path_def(g) or "?").rsplit("::", 1)[-1]
    if k == "MethodCall":
        return "%s.%s(..)" % (_guard_sig(g["recv"]), g["name"])
    if k == "Unary":
        return g["op"] + _guard_sig(g["e"])
    if k == "AddrOf":
        return _guard_sig(g["e"])
    if k == "Index":
        return "%s[%s]" % (_guard_sig(g["e"]), _guard_sig(g["idx"]))
    return k or "?"


# ----------------------------------------------------------------------------------------------
# R-CONT


def _index_of(e, base_fc, want):
    """Does e contain `<base>[want]` where want is an int (element) or ('from', k) (range-from)?"""
    for n in walk_k(e, "Index"):
        if field_chain(n["e"]) != base_fc:
            continue
        idx = unwrap(n["idx"])
        if isinstance(want, int) and lit_value(idx) == want:
            return True
        if isinstance(want, tuple) and idx.get("k") == "Struct" and (norm(idx["res"].get("ctor_of") or idx["res"].get("def")) or "").endswith("RangeFrom"):
            f = {x["name"]: lit_value(x["e"]) for x in idx["fields"]}
            if f.get("start") == want[1]:
                return True
    return False


def r_cont(ctx, rep):
    F = ctx.facts("default")
    fn = F.fn("xls::read_dbcs")
    if fn is None:
        rep.anchor_missing("R-CONT", "xls::read_dbcs")
    else:
        ifs = [i for i in walk_k(fn.body, "If") if any(m["name"] == "continue_record" for m in walk_k(i["cond"], "MethodCall"))]
        key = "xls::read_dbcs|R-CONT"
        if not ifs:
            rep.anchor_missing("R-CONT", "the continue_record() test in read_dbcs")
        else:
            i = ifs[0]
            rec = None
            for m in walk_k(i["cond"], "MethodCall"):
                if m["name"] == "continue_record":
                    rec = field_chain(m["recv"])
            data_fc = (rec[0], rec[1] + ["data"]) if rec else None
            flag_ok, adv_ok = False, False
            # the flag local: the bool handed to decode_to as Some(flag)
            flag_lids = set()
            for c in walk_k(fn.body, "MethodCall"):
                if c["name"] == "decode_to":
                    for p in walk_k(c["args"][-1], "Path"):
                        if "local" in p.get("res", {}):
                            flag_lids.add(p["res"]["lid"])
            for a in walk_k(i["then"], "Assign"):
                pl = path_local(a["l"])
                if pl and pl[1] in flag_lids and any(b["op"] == "&" and lit_value(b["r"]) == 1 for b in walk_k(a["r"], "Binary")):
                    if _index_of(a["r"], data_fc, 0):
                        flag_ok = True
                    else:
                        # `let flags = r.data[0]; r.data = &r.data[1..]; high_byte = flags & 1 != 0;`
                        for p_ in walk_k(a["r"], "Path"):
                            l_ = let_init(i["then"], p_)
                            if l_ is not None and _index_of(l_["init"], data_fc, 0):
                                adv = [x for x in walk_k(i["then"], "Assign") if field_chain(x["l"]) == data_fc]
                                if all((l_["span"]["l"], l_["span"]["c"]) < (x["span"]["l"], x["span"]["c"]) for x in adv):
                                    flag_ok = True
                if field_chain(a["l"]) == data_fc and _index_of(a["r"], data_fc, ("from", 1)):
                    adv_ok = True
            if flag_ok:
                rep.holds("R-CONT", key + "|flag", loc(i), "after continue_record() the compression flag is re-read from bit 0 of the fragment's first byte")
            else:
                rep.violation("R-CONT", key + "|flag", loc(i), "read_dbcs: after switching to a CONTINUE fragment inside a character run the 8/16-bit flag is not re-read from `data[0] & 1`: a string whose storage width changes at the break decodes to garbage and shifts every later string")
            if adv_ok:
                rep.holds("R-CONT", key + "|advance", loc(i), "the flag byte is consumed (data = &data[1..])")
            else:
                rep.violation("R-CONT", key + "|advance", loc(i), "read_dbcs: the one-byte flag at the start of a CONTINUE fragment is not skipped with `data = &data[1..]`: the flag byte would be decoded as a character")
    fn = F.fn("xls::read_rich_extended_string")
    key = "xls::read_rich_extended_string|R-CONT|order"
    if fn is None:
        rep.anchor_missing("R-CONT", "xls::read_rich_extended_string")
    else:
        body = unwrap(fn.body)
        seq = []
        inits = {}
        for s in body_stmts(fn.body):
            e = s.get("init") if s.get("k") == "Let" else s.get("e")
            if e is None:
                continue
            if s.get("k") == "Let":
                for nm, lid in pat_bindings(s["pat"]):
                    inits[lid] = nm
            top = unwrap(e)
            if top.get("k") == "Match" and top.get("src") == "TryDesugar":
                inner = [x for x in walk_k(top["scrut"], "Call", "MethodCall")]
                for x in inner:
                    c = callee(x) or ""
                    if c == "xls::read_dbcs":
                        seq.append(("dbcs", None))
                    elif x.get("name") == "skip" and c.endswith("Record::skip"):
                        arg = unwrap(x["args"][0])
                        l_ = let_init(fn.body, arg)
                        if l_ is not None and unwrap(l_["init"]).get("k") == "Binary":
                            arg = unwrap(l_["init"])      # `let run_bytes = c_run * 4; r.skip(run_bytes)?`
                        if arg.get("k") == "Binary" and arg["op"] == "*" and (lit_value(arg["r"]) == 4 or lit_value(arg["l"]) == 4):
                            seq.append(("skip", "runs*4:" + str(path_local(arg["l"]) and path_local(arg["l"])[0])))
                        elif path_local(arg):
                            seq.append(("skip", "ext:" + path_local(arg)[0]))
                        else:
                            seq.append(("skip", "?"))
        kinds = [s[0] for s in seq]
        # a success return in front of the skips (an "empty string" fast path) leaves the run / extended blocks unread
        skips_ = [x for x in walk_k(fn.body, "MethodCall") if x.get("name") == "skip" and (callee(x) or "").endswith("Record::skip")]
        last_skip = max((loc(x)[1] if isinstance(loc(x), tuple) else x["span"]["l"]) for x in skips_) if skips_ else 0
        early = []
        for r_ in walk_k(fn.body, "Ret"):
            v_ = unwrap(r_.get("e")) if r_.get("e") is not None else None
            if isinstance(v_, dict) and v_.get("k") == "Call" and (callee(v_) or "").endswith("Result::Ok") and r_["span"]["l"] < last_skip and not r_["span"].get("desugar"):
                early.append(r_)
        if early:
            rep.violation("R-CONT", key, loc(early[0]), "read_rich_extended_string returns Ok before it has skipped the rich-text runs and the extended data: a string that takes this exit (e.g. an empty string carrying formatting runs) leaves its trailing blocks in the stream and the next string header is read out of them")
        elif kinds == ["dbcs", "skip", "skip"] and seq[1][1].startswith("runs*4") and seq[2][1].startswith("ext"):
            rep.holds("R-CONT", key, loc(fn.raw), "every Ok path runs read_dbcs, then skip(cRun*4), then skip(cbExtRst), unconditionally and in that order")
        else:
            rep.violation("R-CONT", key, loc(fn.raw), "read_rich_extended_string must, unconditionally and in this order, decode the characters, skip the rich-text runs (cRun * 4 bytes) and skip the extended data (cbExtRst bytes); found %s.  A missing or reordered skip makes the next string start inside this string's trailing blocks" % seq)
    fn = F.fn("xls::Record::skip")
    key = "xls::Record::skip|R-CONT|no-flag"
    if fn is None:
        rep.anchor_missing("R-CONT", "xls::Record::skip")
    else:
        idx = [n for n in walk_k(fn.body, "Index")]
        # every assignment to self.data inside skip takes the remainder of split_at(min(len, data.len()))
        split_lids = set()
        for s_ in walk(fn.body):
            if s_.get("k") == "Let" and s_.get("init") is not None and any(m["name"] == "split_at" for m in walk_k(s_["init"], "MethodCall")):
                for nm, lid in pat_bindings(s_["pat"]):
                    split_lids.add(lid)
        # locals holding min(len, self.data.len()): `&self.data[step..]` with such a local is the same re-slicing
        min_lids = set()
        for s_ in walk_k(fn.body, "Let"):
            if s_.get("init") is not None and any((callee(c) or "").endswith("cmp::min") or c.get("name") == "min" for c in walk_k(s_["init"], "Call", "MethodCall")):
                for nm, lid in pat_bindings(s_["pat"]):
                    min_lids.add(lid)
        ok_idx = set()
        for a in walk_k(fn.body, "Assign"):
            if field_chain(a["l"]) == ("self", ["data"]):
                pl = path_local(a["r"])
                r_ = peel(a["r"])
                by_min = False
                if r_.get("k") == "Index" and field_chain(r_["e"]) == ("self", ["data"]):
                    ix = unwrap(r_["idx"])
                    st = [f["e"] for f in ix.get("fields", []) if f["name"] == "start"] if ix.get("k") == "Struct" else []
                    en = [f for f in ix.get("fields", []) if f["name"] == "end"] if ix.get("k") == "Struct" else [1]
                    if st and not en and path_local(st[0]) and path_local(st[0])[1] in min_lids:
                        by_min = True
                        ok_idx.add(id(r_))
                if not (pl and pl[1] in split_lids) and not by_min:
                    idx.append(a)
        idx = [n for n in idx if id(n) not in ok_idx]
        if not idx:
            rep.holds("R-CONT", key, loc(fn.raw), "skip crosses fragments without consuming a flag byte")
        else:
            rep.violation("R-CONT", key, loc(idx[0]), "Record::skip re-slices the fragment other than by the remainder of split_at(min(len, data.len())): rich-text-run and extended blocks carry no per-fragment flag byte, consuming one shifts every later string")
    fn = F.fn("xls::Record::continue_record")
    key = "xls::Record::continue_record|R-CONT|fifo"
    if fn is None:
        rep.anchor_missing("R-CONT", "xls::Record::continue_record")
    else:
        takes = [c for c in walk_k(fn.body, "MethodCall") if c["name"] in ("remove", "swap_remove", "pop", "pop_front", "pop_back", "drain", "last", "first", "split_off")]
        if len(takes) == 1 and ((takes[0]["name"] == "remove" and lit_value(takes[0]["args"][0]) == 0) or takes[0]["name"] == "pop_front"):
            rep.holds("R-CONT", key, loc(takes[0]), "CONTINUE fragments are consumed first-in first-out")
        else:
            rep.violation("R-CONT", key, loc(takes[0] if takes else fn.raw), "continue_record must hand out the CONTINUE fragments in file order (remove(0) / pop_front); `%s` changes the order once three or more fragments follow the record" % (takes[0]["name"] if takes else "nothing"))


# ----------------------------------------------------------------------------------------------
# R-CFBFLOW


def r_cfbflow(ctx, rep):
    F = ctx.facts("default")
    fn = F.fn("cfb::Cfb::get_stream")
    key = "cfb::Cfb::get_stream|R-CFBFLOW|cutoff"
    if fn is None:
        rep.anchor_missing("R-CFBFLOW", "cfb::Cfb::get_stream")
    else:
        hit = None
        for i in walk_k(fn.body, "If"):
            c = unwrap(i["cond"])
            if c.get("k") == "Binary" and c["op"] in ("<", "<=", ">", ">=") and i.get("els") is not None:
                hit = (i, c)
        if hit is None:
            rep.violation("R-CFBFLOW", key, loc(fn.raw), "get_stream does not choose between the mini stream and regular sectors by the stream size")
        else:
            i, c = hit
            lhs_ = c["l"]
            if path_local(peel(lhs_)) and isinstance(peel(lhs_), dict) and peel(lhs_).get("k") == "Path":
                # `let len = d.len;` / `let (start, len) = (d.start, d.len);`
                lid_ = path_local(peel(lhs_))[1]
                for l_ in walk_k(fn.body, "Let"):
                    if l_.get("init") is None:
                        continue
                    p_, i_ = l_["pat"], unwrap(l_["init"])
                    if p_.get("k") == "Binding" and p_.get("lid") == lid_:
                        lhs_ = i_
                    elif p_.get("k") == "Tuple" and isinstance(i_, dict) and i_.get("k") == "Tup" and len(p_.get("pats", [])) == len(i_.get("es", [])):
                        for q_, e_ in zip(p_["pats"], i_["es"]):
                            if q_.get("k") == "Binding" and q_.get("lid") == lid_:
                                lhs_ = e_
            lfc, rv = field_chain(lhs_), lit_value(c["r"])
            then_mini = any(f["name"].startswith("mini_") for f in walk_k(i["then"], "Field")) and not any(f["name"] in ("sectors", "fats") for f in walk_k(i["then"], "Field"))
            else_reg = any(f["name"] in ("sectors", "fats") for f in walk_k(i["els"], "Field")) and not any(f["name"].startswith("mini_") for f in walk_k(i["els"], "Field"))
            if lfc and lfc[1][-1:] == ["len"] and c["op"] == "<" and rv == 4096 and then_mini and else_reg:
                rep.holds("R-CFBFLOW", key, loc(i), "streams with len < 4096 come from the mini stream (mini FAT), all others from regular sectors (FAT)")
            else:
                rep.violation("R-CFBFLOW", key, loc(i), "get_stream: the mini-stream decision must be `len < 4096` (MS-CFB 2.2 mini stream cutoff) selecting mini_sectors/mini_fats, else sectors/fats; found `%s %s %s`, then-branch mini: %s, else-branch regular: %s" % (".".join(lfc[1]) if lfc else "?", c["op"], rv, then_mini, else_reg))
    fn = F.fn("cfb::Sectors::get_chain")
    key = "cfb::Sectors::get_chain|R-CFBFLOW|truncate"
    if fn is None:
        rep.anchor_missing("R-CFBFLOW", "cfb::Sectors::get_chain")
    else:
        ok = False
        plid = None
        for p in fn.params:
            for nm, lid in pat_bindings(p):
                if norm_ty(p.get("ty", "")) == "usize":
                    plid = lid
        body = unwrap(fn.body)
        for s in body_stmts(fn.body):
            e = unwrap(s.get("e") or {})
            if e.get("k") == "If":
                c = unwrap(e["cond"])
                tr = [m for m in walk_k(e["then"], "MethodCall") if m["name"] == "truncate" and path_local(m["args"][0]) and path_local(m["args"][0])[1] == plid]
                if tr and c.get("k") == "Binary" and c["op"] == ">" and path_local(c["l"]) and path_local(c["l"])[1] == plid and lit_value(c["r"]) == 0:
                    ok = True
            if e.get("k") == "MethodCall" and e["name"] == "truncate" and path_local(e["args"][0]) and path_local(e["args"][0])[1] == plid:
                ok = True
        if ok:
            rep.holds("R-CFBFLOW", key, loc(fn.raw), "the collected chain is truncated to the stream length on the Ok path (when len > 0)")
        else:
            rep.violation("R-CFBFLOW", key, loc(fn.raw), "get_chain does not truncate the concatenated sectors to the stream length at top level: the returned stream would carry the slack of its last sector")


# ----------------------------------------------------------------------------------------------
# R-TBL


def r_tbl(ctx, rep):
    F = ctx.facts("default")
    fn = F.fn("xlsx::Xlsx::read_table_metadata")
    if fn is None:
        rep.anchor_missing("R-TBL", "xlsx::Xlsx::read_table_metadata")
        return
    n = 0
    # adjustments of the data range by a count field: `dims.start.0 += <x>.header_row_count`, `dims.end.0 -= <x>.totals_row_count`,
    # with or without an enclosing `if <count> != 0`
    for a, anc in walk_anc(fn.body):
        if a.get("k") != "AssignOp":
            continue
        l, r = field_chain(a["l"]), field_chain(a["r"])
        if not l or not r or not r[1] or l[1][-2:] not in (["start", "0"], ["end", "0"]):
            continue
        n += 1
        key = "xlsx::Xlsx::read_table_metadata|R-TBL|%s" % r[1][-1]
        guard = None
        for i in anc:
            if i.get("k") == "If" and any(x is a for x in walk(i["then"])):
                c = unwrap(i["cond"])
                if c.get("k") == "Binary" and c["op"] in ("!=", ">") and lit_value(c["r"]) == 0 and field_chain(c["l"]) and field_chain(c["l"])[1]:
                    guard = field_chain(c["l"])
        want = "header" if l[1][-2] == "start" else "totals"
        if guard is not None and guard != r:
            rep.violation("R-TBL", key, loc(a), "read_table_metadata: the block guarded by `%s != 0` adjusts the table's data range by `%s` instead of `%s`: a table with a totals row but a different (or no) header row count keeps its totals row in the data range" % (guard[1][-1], r[1][-1], guard[1][-1]))
        elif want not in r[1][-1] or a.get("op") not in (("+", "+=") if want == "header" else ("-", "-=")):
            rep.violation("R-TBL", key, loc(a), "read_table_metadata adjusts the %s row of the table's range with `%s %s`: header rows are taken off the top (start.0 += header count), totals rows off the bottom (end.0 -= totals count)" % (l[1][-2], a.get("op"), r[1][-1]))
        else:
            rep.holds("R-TBL", key, loc(a), "%s.0 %s %s%s" % (l[1][-2], a.get("op"), r[1][-1], (" under `%s != 0`" % guard[1][-1]) if guard else ""))
    if n < 2:
        rep.anchor_missing("R-TBL", "guarded header/totals adjustments in read_table_metadata (found %d)" % n)
    # regions / tables are attributed to the sheet of the loop
    for fname, what in (("xlsx::Xlsx::read_merged_regions", "merged region"), ("xlsx::Xlsx::read_table_metadata", "table")):
        f = F.fn(fname)
        if f is None:
            rep.anchor_missing("R-TBL", fname)
            continue
        key = "%s|R-TBL|sheet-name" % fname
        loops = [l for l in walk_k(f.body, "Loop") if l.get("src") == "for"]
        ok = False
        for l in loops:
            # bindings introduced by the for pattern over self.sheets
            binds = set()
            for m in walk_k(l["body"], "Match"):
                for a in m["arms"]:
                    for nm, lid in pat_bindings(a["pat"]):
                        binds.add(lid)
                break
            for p in walk_k(l, "MethodCall"):
                if p["name"] == "push":
                    t = unwrap(p["args"][0])
                    parts = t["es"][:2] if t.get("k") == "Tup" else ([f["e"] for f in t.get("fields", [])] if t.get("k") == "Struct" else [])
                    for e in parts:
                        for q in walk_k(e, "Path"):
                            if q.get("res", {}).get("lid") in binds:
                                ok = True
        if ok:
            rep.holds("R-TBL", key, loc(f.raw), "each %s is pushed with the sheet name bound by the enclosing loop over self.sheets" % what)
        else:
            rep.violation("R-TBL", key, loc(f.raw), "%s does not attribute each %s to the sheet being scanned" % (fname, what))


# ----------------------------------------------------------------------------------------------
# R-RANGEPRE


def r_rangepre(ctx, rep, only=None):
    """Every reader-side call of Range::range(start, end) whose corners are option- or file-derived
    is dominated by a test that establishes start <= end (Range::new asserts it)."""
    F = ctx.facts("default")
    n = 0
    for fn in F.user_fns():
        if fn.file not in ("src/xlsx/mod.rs", "src/xlsb/mod.rs", "src/xls.rs", "src/ods.rs"):
            continue
        for c, anc in walk_anc(fn.body):
            if c.get("k") != "MethodCall" or c["name"] != "range" or not (callee(c) or "").endswith("Range::range"):
                continue
            n += 1
            key = "%s|R-RANGEPRE|%d" % (fn.name, sum(1 for i in rep.instances if i["rule"] == "R-RANGEPRE" and i["key"].startswith(fn.name + "|")))
            start, end = c["args"][0], c["args"][1]
            s_l = {p["res"]["lid"] for p in walk_k(start, "Path") if "local" in p.get("res", {})}
            e_l = {p["res"]["lid"] for p in walk_k(end, "Path") if "local" in p.get("res", {})}
            guard = None
            # enclosing ifs / earlier early-return ifs comparing something from start with something from end
            cands = [a["cond"] for a in anc if a.get("k") == "If" and any(x is c for x in walk(a["then"]))]
            for a in anc:
                if a.get("k") == "Block" or (a.get("k") == "BlockExpr"):
                    blk = a["block"] if a.get("k") == "BlockExpr" else a
                    for s in blk.get("stmts", []):
                        if any(x is c for x in walk(s)):
                            break
                        e = unwrap(s.get("e") or {})
                        if e.get("k") == "If" and always_leaves(e["then"], set()):
                            cands.append(e["cond"])
            entering = [a["cond"] for a in anc if a.get("k") == "If" and any(x is c for x in walk(a["then"]))]
            # the call may also sit in the else branch of `if start > end { empty } else { range(..) }`
            in_else = [a["cond"] for a in anc if a.get("k") == "If" and a.get("els") is not None and any(x is c for x in walk(a["els"]))]
            cands += in_else
            for cond in cands:
                for b in walk_k(cond, "Binary"):
                    if b["op"] in ("<", "<=", ">", ">="):
                        ls = {p["res"]["lid"] for p in walk_k(b["l"], "Path") if "local" in p.get("res", {})}
                        rs = {p["res"]["lid"] for p in walk_k(b["r"], "Path") if "local" in p.get("res", {})}
                        if (ls & s_l and rs & e_l) or (ls & e_l and rs & s_l):
                            guard = b
                            start_left = bool(ls & s_l)
                            is_enter = any(cond is e for e in entering)   # (an else branch is entered when the test fails, like the code after an early return)
                            # exact guard: enter iff start <= end ; leave iff start > end
                            want = ("<=" if start_left else ">=") if is_enter else (">" if start_left else "<")
                            guard_ok = (b["op"] == want)
            if guard is not None and not guard_ok:
                rep.violation("R-RANGEPRE", key + "|guard-op", loc(guard), "%s guards Range::range with `%s` where exactly `start <= end` is needed (the empty result must be returned iff the requested start lies beyond the end): with this operator a request whose start row equals the last row is answered with an empty range although that row has cells" % (fn.name, guard["op"]))
            elif guard is not None:
                rep.holds("R-RANGEPRE", key, loc(c), "start <= end is established by the test at %s" % loc(guard))
            else:
                rep.violation("R-RANGEPRE", key, loc(c), "%s calls Range::range(start, end) with corners taken from the header-row option / the file, and nothing establishes start <= end first: Range::new asserts it, so a header row below the last used row (or a table reference smaller than its header/totals rows) panics with 'invalid range bounds'" % fn.name)
    if n < 4:
        rep.anchor_missing("R-RANGEPRE", "Range::range call sites in the readers (found %d)" % n)


# ----------------------------------------------------------------------------------------------
# R-FMTPREC


def r_fmtprec(ctx, rep):
    """In every style loader the number formats *declared by the workbook* take precedence over the
    built-in id table: the built-in lookup is only reached where the declared lookup failed."""
    F = ctx.facts("default")
    n = 0
    for fname in ("xlsx::Xlsx::read_styles", "xlsb::Xlsb::read_styles", "xls::Xls::parse_workbook"):
        fn = F.fn(fname)
        if fn is None:
            rep.anchor_missing("R-FMTPREC", fname)
            continue
        builtin_calls = [(c, anc) for c, anc in walk_anc(fn.body) if c.get("k") == "Call" and (callee(c) or "").startswith("formats::builtin_format_by_")]
        if not builtin_calls:
            rep.anchor_missing("R-FMTPREC", "built-in format lookup in %s" % fname)
            continue
        for c, anc in builtin_calls:
            n += 1
            key = "%s|R-FMTPREC" % fname
            # the call must sit in the failure arm (None / catch-all) of a match over `<declared>.get(..)`,
            # or in an unwrap_or_else / or_else closure applied to such a lookup
            ok = False
            for i in range(len(anc) - 1, -1, -1):
                a = anc[i]
                if a.get("k") == "Match" and a.get("src") in ("Normal", None, "IfLet"):
                    sc = peel(a["scrut"])
                    if sc.get("k") == "MethodCall" and sc["name"] == "get" and _is_declared_table(sc["recv"]):
                        arm = next((x for x in a["arms"] if any(y is c for y in walk(x["body"]))), None)
                        if arm is not None:
                            ks, ca = pat_keys(arm["pat"])
                            if ca or any(k == ("path", "None") for k in ks):
                                ok = True
                        break
                    if any(x is c for x in walk(a["scrut"])):
                        # the built-in table is the *scrutinee*: it is consulted first
                        ok = False
                        break
                if a.get("k") == "MethodCall" and a["name"] in ("unwrap_or_else", "or_else", "map_or_else") and any(x is c for x in walk(a["args"])):
                    r = peel(a["recv"])
                    while r.get("k") == "MethodCall" and r["name"] in ("copied", "cloned", "map"):
                        r = peel(r["recv"])
                    if r.get("k") == "MethodCall" and r["name"] == "get" and _is_declared_table(r["recv"]):
                        ok = True
                    break
            if ok:
                rep.holds("R-FMTPREC", key, loc(c), "the built-in id table is consulted only when the workbook declares no format for the id")
            else:
                rep.violation("R-FMTPREC", key, loc(c), "%s consults the built-in id table before (or instead of) the formats declared by the workbook: a style whose id is re-declared by the file (e.g. id 14 as \"0.00\", or id 20 as \"[hh]:mm:ss\") is typed by the built-in meaning, not by the format it actually refers to" % fname)
    if n < 3:
        rep.anchor_missing("R-FMTPREC", "built-in format lookups in the three style loaders (found %d)" % n)


def _is_declared_table(e):
    t = norm_ty((peel(e).get("ty") or "") + (peel(e).get("aty") or ""))
    return "BTreeMap" in t or "HashMap" in t


# ----------------------------------------------------------------------------------------------
# R-ODSPARA


def r_odspara(ctx, rep):
    """ods: paragraphs of a string cell are joined by '\\n': the separator is pushed for every <text:p>
    start except the first, decided by a dedicated flag - not by properties of the text read so far."""
    F = ctx.facts("default")
    fn = F.fn("ods::get_datatype")
    if fn is None:
        rep.anchor_missing("R-ODSPARA", "ods::get_datatype")
        return
    key = "ods::get_datatype|R-ODSPARA"
    found = False
    for em in event_matches(fn):
        for arm in em["match"]["arms"]:
            if "text:p" not in guard_literals(arm) or _arm_event_variant(arm, em["wrapped"]) != "Start":
                continue
            found = True
            pushes = [(m, anc) for m, anc in walk_anc(arm["body"]) if m.get("k") == "MethodCall" and m["name"] == "push" and m["args"] and lit_value(m["args"][0]) == "\n"]
            if not pushes:
                rep.violation("R-ODSPARA", key, loc(arm), "the <text:p> arm never appends a newline: paragraphs of a cell would be concatenated without separator")
                continue
            m, anc = pushes[0]
            str_lid = path_local(m["recv"])[1] if path_local(m["recv"]) else None
            conds = [a["cond"] for a in anc if a.get("k") == "If"]
            flag_assigned = {path_local(a["l"])[1] for a in walk_k(arm["body"], "Assign") if path_local(a["l"]) and isinstance(lit_value(a["r"]), bool)}
            uses_flag = any(p.get("res", {}).get("lid") in flag_assigned for c in conds for p in walk_k(c, "Path"))
            uses_text = any(p.get("res", {}).get("lid") == str_lid for c in conds for p in walk_k(c, "Path"))
            if conds and uses_flag and not uses_text:
                rep.holds("R-ODSPARA", key, loc(m), "newline pushed on every <text:p> but the first, decided by a paragraph flag")
            elif not conds:
                rep.violation("R-ODSPARA", key, loc(m), "the <text:p> arm appends a newline unconditionally: a single-paragraph cell would start with a newline")
            else:
                rep.violation("R-ODSPARA", key, loc(m), "the <text:p> arm decides the paragraph separator from the text read so far (or without a first-paragraph flag): empty paragraphs are legal, so leading / repeated empty paragraphs would lose their line breaks")
    if not found:
        rep.anchor_missing("R-ODSPARA", "the <text:p> start arm of ods::get_datatype")


# ----------------------------------------------------------------------------------------------
# R-MINMAX


def r_minmax(ctx, rep):
    """Bounding-box accumulators: in a loop that maintains a running minimum and a running maximum
    of the same quantity, the maximum update must not be skipped when the minimum was updated
    (`if x < lo {..} else if x > hi {..}` loses the maximum of a strictly decreasing prefix)."""
    F = ctx.facts("default")
    n = 0
    for fn in F.user_fns():
        if fn.file not in ("src/lib.rs", "src/ods.rs", "src/xlsx/mod.rs", "src/xlsb/mod.rs", "src/xls.rs"):
            continue
        for lp in walk_k(fn.body, "Loop"):
            ups = []   # (if node, kind, accumulator lid, compared expr shape, nested_in_else_of)
            for i, anc in walk_anc(lp["body"]):
                if i.get("k") != "If":
                    continue
                c = unwrap(i["cond"])
                if c.get("k") != "Binary" or c["op"] not in ("<", ">", "<=", ">="):
                    continue
                acc = path_local(c["r"])
                if not acc:
                    continue
                assigns = [a for a in walk_k(i["then"], "Assign") if path_local(a["l"]) and path_local(a["l"])[1] == acc[1]]
                if not assigns or shape(assigns[0]["r"]) != shape(c["l"]):
                    continue
                kind = "min" if c["op"] in ("<", "<=") else "max"
                in_else_of = [a for a in anc if a.get("k") == "If" and a.get("els") is not None and any(x is i for x in walk(a["els"]))]
                ups.append((i, kind, acc, shape(c["l"]), in_else_of))
            mins = [u for u in ups if u[1] == "min"]
            maxs = [u for u in ups if u[1] == "max"]
            for mn in mins:
                for mx in maxs:
                    if mn[3] != mx[3]:
                        continue
                    n += 1
                    key = "%s|R-MINMAX|%s/%s" % (fn.name, mn[2][0], mx[2][0])
                    bad = any(e is mn[0] for e in mx[4]) or any(e is mx[0] for e in mn[4])
                    if bad:
                        rep.violation("R-MINMAX", key, loc(mx[0]), "%s updates the running maximum `%s` only when the running minimum `%s` was not updated (else-if): when the largest value is also a new minimum (e.g. the first cell is the right-most column) the bounding box is too small and cells are misplaced" % (fn.name, mx[2][0], mn[2][0]))
                    else:
                        rep.holds("R-MINMAX", key, loc(mn[0]), "running minimum `%s` and maximum `%s` are updated independently" % (mn[2][0], mx[2][0]))
    if n < 1:
        rep.anchor_missing("R-MINMAX", "a min/max bounding-box accumulation (Range::from_sparse)")


# ----------------------------------------------------------------------------------------------
# R-AUTODETECT


XLSX_MANDATORY = ("xl/_rels/workbook.xml.rels", "xl/workbook.xml")


def r_autodetect(ctx, rep):
    """Content-based detection tries Xls, Xlsx, Xlsb, Ods in that order and takes the first reader whose
    `new` succeeds, so every reader must reject the other formats' files.  Necessary condition decided
    here: opening a zip that lacks the format's mandatory part is an error (xlsx: the workbook part or
    its relationships; xlsb: xl/workbook.bin; ods: mimetype)."""
    F = ctx.facts("default")
    # xlsx
    hits = []
    for fn in F.fns_in("src/xlsx/mod.rs"):
        for m in walk_k(fn.body, "Match"):
            sc = peel(m["scrut"])
            if sc.get("k") != "Call" or (callee(sc) or "") != "xlsx::xml_reader":
                continue
            from .kit import const_value
            part = const_value(F, sc["args"][1]) if len(sc["args"]) > 1 else None
            if part not in XLSX_MANDATORY:
                continue
            for a in m["arms"]:
                ks, ca = pat_keys(a["pat"])
                # the `None` arm, or the catch-all next to a `Some(..)` arm (`let Some(xml) = xml_reader(..) else { .. }`)
                some_sibling = any((pat_variant(b["pat"]) or "").endswith("Option::Some") for b in m["arms"] if b is not a)
                if any(k == ("path", "None") for k in ks) or (ca and not ks and some_sibling):
                    errs = any((path_def(x) or "").endswith("Result::Err") for x in walk_k(a["body"], "Path"))
                    hits.append((part, errs and always_leaves(a["body"], set()), a))
    key = "xlsx|R-AUTODETECT|mandatory-part"
    if any(h[1] for h in hits):
        h = next(h for h in hits if h[1])
        rep.holds("R-AUTODETECT", key, loc(h[2]), "a zip without `%s` is rejected by Xlsx::new" % h[0])
    elif hits:
        rep.violation("R-AUTODETECT", key, loc(hits[0][2]), "Xlsx::new accepts a zip archive that has neither xl/workbook.xml nor xl/_rels/workbook.xml.rels (both lookups treat a missing part as success): format auto-detection tries Xlsx before Xlsb and Ods, so every xlsb/ods workbook would be returned as an empty Xlsx workbook")
    else:
        rep.anchor_missing("R-AUTODETECT", "xml_reader lookups of the mandatory xlsx parts")
    # xlsb: RecordIter::from_zip(.., "xl/workbook.bin")? propagated
    fn = F.fn("xlsb::Xlsb::read_workbook")
    key = "xlsb|R-AUTODETECT|mandatory-part"
    ok = False
    if fn:
        for c, anc in walk_anc(fn.body):
            if c.get("k") == "Call" and (callee(c) or "").endswith("RecordIter::from_zip") and len(c["args"]) > 1 and lit_value(c["args"][1]) == "xl/workbook.bin":
                if any(a.get("k") == "Match" and a.get("src") == "TryDesugar" for a in anc) and not any(a.get("k") == "Match" and a.get("src") != "TryDesugar" for a in anc):
                    ok = True
    if ok:
        rep.holds("R-AUTODETECT", key, loc(fn.raw), "a zip without xl/workbook.bin is rejected by Xlsb::new (from_zip(..)? propagates FileNotFound)")
    else:
        rep.violation("R-AUTODETECT", key, loc(fn.raw) if fn else "-", "Xlsb::new does not reject a zip without xl/workbook.bin")
    # ods: mimetype
    new = next((f for f in F.fns if f.impl_self == "ods::Ods" and f.impl_trait == "Reader" and f.name.endswith("::new")), None)
    key = "ods|R-AUTODETECT|mandatory-part"
    ok = False
    if new:
        for m in walk_k(new.body, "Match"):
            sc = peel(m["scrut"])
            if sc.get("k") == "MethodCall" and sc["name"] == "by_name" and lit_value(sc["args"][0]) == "mimetype":
                errarms = [a for a in m["arms"] if (pat_variant(a["pat"]) or "").endswith("Result::Err")]
                if errarms and all(always_leaves(a["body"], set()) for a in errarms):
                    ok = True
    if ok:
        rep.holds("R-AUTODETECT", key, loc(new.raw), "a zip without a mimetype entry is rejected by Ods::new")
    else:
        rep.violation("R-AUTODETECT", key, loc(new.raw) if new else "-", "Ods::new does not reject a zip without a mimetype entry")
