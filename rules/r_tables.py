"""Table rules: match tables extracted from typed HIR, compared against specification tables
(tables/*.json) and against each other."""
import json
import os

from .kit import (inl_params, used_lids, walk, walk_anc, walk_k, unwrap, peel, loc, callee, path_local, path_def, lit_value, pat_bindings,
                  pat_is_catchall, pat_variant, norm, norm_ty, field_chain)
from .runner import VERIF


def spec(name):
    with open(os.path.join(VERIF, "tables", name)) as fh:
        return json.load(fh)


# ----------------------------------------------------------------------------------------------
# match-table extraction


def pat_keys(p):
    """Literal keys a pattern matches: list of ('int', v) | ('str', s) | ('range', lo, hi) | ('path', def) ;
    returns (keys, catchall)."""
    k = p.get("k")
    if k in ("Wild",):
        return [], True
    if k == "Binding":
        if p.get("sub"):
            return pat_keys(p["sub"])
        return [], True
    if k in ("Ref", "Box", "Deref"):
        return pat_keys(p["pat"])
    if k == "Or":
        keys, ca = [], False
        for x in p["pats"]:
            k2, c2 = pat_keys(x)
            keys += k2
            ca = ca or c2
        return keys, ca
    if k == "PLit":
        e = p["e"]
        if "lit" in e:
            if e["lit"] == "int":
                return [("int", e["v"])], False
            if e["lit"] in ("str", "bstr"):
                return [("str", e["v"])], False
            if e["lit"] == "bool":
                return [("bool", "bool:true" if e["v"] else "bool:false")], False
            if e["lit"] == "char":
                return [("char", e["v"])], False
        elif e.get("k") == "Path":
            r = e["res"]
            if "cval" in r:
                return [("int", r["cval"])], False
            d = norm(r.get("ctor_of") or r.get("def"))
            if d and d.endswith("Option::None"):
                d = "None"
            return [("path", d)], False
        return [], False
    if k == "Range":
        lo = p.get("lo", {}).get("v") if p.get("lo") else None
        hi = p.get("hi", {}).get("v") if p.get("hi") else None
        if isinstance(hi, int) and not p.get("inclusive"):
            hi -= 1
        return [("range", lo, hi)], False
    if k == "TupleStruct":
        d = norm(p["res"].get("ctor_of") or p["res"].get("def")) or ""
        # Some(x) / QName(x) / Ok(x): look through single-field wrappers
        if len(p["pats"]) == 1 and (d.endswith("Option::Some") or d.endswith("::QName") or d.endswith("Result::Ok")):
            return pat_keys(p["pats"][0])
        if d.endswith("Option::None"):
            return [("path", "None")], False
        return [("path", d)], False
    if k == "Struct":
        return [("path", norm(p["res"].get("ctor_of") or p["res"].get("def")))], False
    return [], False


def key_matches(key, value):
    if key[0] == "range":
        lo, hi = key[1], key[2]
        return isinstance(value, int) and (lo is None or value >= lo) and (hi is None or value <= hi)
    return key[1] == value


def eval_match(m, value):
    """Index of the first unguarded arm whose pattern matches `value` (int or str), else None.
    Guarded arms are skipped (conservative: reported by callers if relevant)."""
    for i, arm in enumerate(m["arms"]):
        keys, ca = pat_keys(arm["pat"])
        if arm.get("guard") is not None:
            continue
        if ca or any(key_matches(k, value) for k in keys):
            return i
    return None


def variants_built(e, prefix):
    """Variant names of enum `prefix` (e.g. 'CellErrorType') constructed anywhere in expression e."""
    out = []
    for n in walk(e):
        k = n.get("k")
        d = None
        if k == "Path":
            d = path_def(n)
        elif k == "Struct":
            d = norm(n["res"].get("ctor_of") or n["res"].get("def"))
        if d and (d.startswith(prefix + "::") or ("::" + prefix + "::") in d):
            out.append(d.rsplit("::", 1)[1])
    return out


def str_lits(e):
    out = []
    for n in walk_k(e, "Lit"):
        v = n["v"]
        if isinstance(v, dict) and v.get("lit") in ("str", "bstr"):
            out.append(v.get("v", ""))
    return out


def flat_table(m, classify, inherited=None, depth=0):
    """[(key, result, arm)] for every literal key of match `m`; nested matches over the same kind of
    key refine an outer arm's keys (a catch-all inner arm receives the outer keys not named by
    earlier inner arms).  classify(body) -> hashable result or None."""
    rows = []
    seen = []
    for arm in m["arms"]:
        keys, ca = pat_keys(arm["pat"])
        if ca and inherited is not None:
            keys = keys + [k for k in inherited if k not in seen and k not in keys]
        seen += keys
        inner = None
        body = unwrap(arm["body"])
        if depth < 2:
            for n in walk_k(body, "Match"):
                if n.get("src") not in ("Normal", None, "IfLet"):
                    continue
                ik = [kk for a in n["arms"] for kk in pat_keys(a["pat"])[0]]
                if ik and keys and {k[0] for k in ik} & {k[0] for k in keys} and _same_place(n["scrut"], m["scrut"]):
                    inner = n
                    break
        if inner is not None:
            rows += flat_table(inner, classify, inherited=keys, depth=depth + 1)
        else:
            res = classify(arm["body"])
            for k in keys:
                rows.append((k, res, arm))
            if ca and inherited is None:
                rows.append((("default",), res, arm))
    return rows


def _same_place(a, b):
    fa, fb = field_chain(a), field_chain(b)
    return fa is not None and fa == fb


def scrut_ty(m):
    return norm_ty(unwrap(m["scrut"]).get("ty") or "")


# ----------------------------------------------------------------------------------------------
# R-TAB-ERR


def r_tab_err(ctx, rep):
    S = spec("berr.json")
    code2var = {int(k, 16): v for k, v in S["code_to_variant"].items()}
    code2lit = {int(k, 16): v for k, v in S["code_to_literal"].items()}
    lit2var = S["literal_to_variant"]
    F = ctx.facts("default")
    n_int = n_str = n_lit = 0
    all_variants = [v["name"] for v in F.adts["CellErrorType"]["variants"]] if "CellErrorType" in F.adts else []
    if not all_variants:
        rep.anchor_missing("R-TAB-ERR", "enum CellErrorType")
        return
    for fn in F.user_fns():
        idx = 0
        for m in walk_k(fn.body, "Match"):
            if m.get("src") not in ("Normal", None, "IfLet"):
                continue
            rows = flat_table(m, lambda b: tuple(sorted(set(variants_built(b, "CellErrorType")))))
            rows = [(k, r, a) for k, r, a in rows if k[0] in ("int", "str")]
            hit = [(k, r, a) for k, r, a in rows if len(r) == 1]
            if len(hit) >= 4:
                kinds = {k[0] for k, _, _ in hit}
                base = "%s|R-TAB-ERR|%s#%d" % (fn.name, "/".join(sorted(kinds)), idx)
                idx += 1
                if kinds == {"int"}:
                    n_int += 1
                    got = {k[1]: r[0] for k, r, a in hit}
                    for code, var in sorted(code2var.items()):
                        key = "%s|0x%02X" % (base, code)
                        if code not in got:
                            rep.violation("R-TAB-ERR", key, loc(m), "%s: error code 0x%02X (%s) has no arm; MS-XLS 2.5.10 BErr maps it to CellErrorType::%s" % (fn.name, code, code2lit[code], var))
                        elif got[code] != var:
                            rep.violation("R-TAB-ERR", key, loc(m), "%s maps error code 0x%02X to CellErrorType::%s; MS-XLS 2.5.10 BErr says %s (%s)" % (fn.name, code, got[code], var, code2lit[code]))
                        else:
                            rep.holds("R-TAB-ERR", key, loc(m), "0x%02X -> %s" % (code, var))
                    for code, var in got.items():
                        if code not in code2var:
                            rep.violation("R-TAB-ERR", "%s|0x%02X" % (base, code), loc(m), "%s maps the undefined error code 0x%02X to CellErrorType::%s" % (fn.name, code, var))
                elif kinds == {"str"}:
                    n_str += 1
                    got = {k[1]: r[0] for k, r, a in hit}
                    for lit, var in sorted(lit2var.items()):
                        key = "%s|%s" % (base, lit)
                        if lit not in got:
                            rep.violation("R-TAB-ERR", key, loc(m), "%s has no arm for the error literal %s (ECMA-376 18.17.3): a cell of type `e` holding it makes the whole sheet unreadable instead of yielding CellErrorType::%s" % (fn.name, lit, var))
                        elif got[lit] != var:
                            rep.violation("R-TAB-ERR", key, loc(m), "%s maps %s to CellErrorType::%s, expected %s" % (fn.name, lit, got[lit], var))
                        else:
                            rep.holds("R-TAB-ERR", key, loc(m), "%s -> %s" % (lit, var))
            # error literal tables inside formula decoders: int code -> "#..." string pushed
            rows2 = flat_table(m, lambda b: tuple(s for s in str_lits(b) if s.startswith("#")))
            hit2 = [(k, r, a) for k, r, a in rows2 if k[0] == "int" and len(r) == 1]
            if len({k[1] for k, r, a in hit2} & set(code2lit)) >= 4 and not hit:
                n_lit += 1
                base = "%s|R-TAB-ERR|literal#%d" % (fn.name, idx)
                idx += 1
                got = {k[1]: r[0] for k, r, a in hit2}
                for code, lit in sorted(code2lit.items()):
                    key = "%s|0x%02X" % (base, code)
                    if code not in got:
                        rep.violation("R-TAB-ERR", key, loc(m), "%s: PtgErr code 0x%02X (%s) has no arm" % (fn.name, code, lit))
                    elif got[code] != lit:
                        rep.violation("R-TAB-ERR", key, loc(m), "%s renders PtgErr code 0x%02X as %s; MS-XLS 2.5.10 says %s" % (fn.name, code, got[code], lit))
                    else:
                        rep.holds("R-TAB-ERR", key, loc(m), "0x%02X -> %s" % (code, lit))
    if n_int < 2:
        rep.anchor_missing("R-TAB-ERR", "two u8 -> CellErrorType tables (xls, xlsb); found %d" % n_int)
    if n_str < 1:
        rep.anchor_missing("R-TAB-ERR", "the &str -> CellErrorType table (xlsx)")
    if n_lit < 2:
        rep.anchor_missing("R-TAB-ERR", "two PtgErr code -> literal tables (xls, xlsb formula decoders); found %d" % n_lit)


# ----------------------------------------------------------------------------------------------
# R-TAB-T   xlsx cell `t` attribute -> DataRef variant


_NUM_CLOSURES = set()


def _classify_dataref(b):
    vs = set(variants_built(b, "DataRef"))
    calls = {callee(n) for n in walk_k(b, "Call", "MethodCall")}
    if any(c and c.endswith("format_excel_f64_ref") for c in calls) or any(
            path_def(n) and path_def(n).endswith("format_excel_f64_ref") for n in walk_k(b, "Path")) or any(
            path_local(n) and path_local(n)[1] in _NUM_CLOSURES for n in walk_k(b, "Path")):
        vs.add("<number>")
    errs = [d for d in (variants_built(b, "XlsxError")) ]
    if errs and not vs:
        vs.add("<error>")
    return tuple(sorted(vs))


def r_tab_t(ctx, rep):
    S = spec("xlsx_t.json")
    F = ctx.facts("default")
    found = 0
    for fn in F.fns_in("src/xlsx/cells_reader.rs", "src/xlsx/mod.rs"):
        # a local closure wrapping the number constructor (`let as_number = |n| format_excel_f64_ref(n, ..)`)
        _NUM_CLOSURES.clear()
        for l in walk_k(fn.body, "Let"):
            i = unwrap(l["init"]) if l.get("init") is not None else None
            if isinstance(i, dict) and i.get("k") == "Closure" and any((callee(c) or "").endswith("format_excel_f64_ref") for c in walk_k(i, "Call", "MethodCall")):
                _NUM_CLOSURES.update(lid for _, lid in pat_bindings(l["pat"]))
        for m in walk_k(fn.body, "Match"):
            rows = [(k, r, a) for k, r, a in flat_table(m, _classify_dataref) if k[0] in ("str", "path")]
            keys = {k[1] for k, r, a in rows}
            if not {"s", "b", "e"} <= keys:
                continue
            found += 1
            got = {}
            for k, r, a in rows:
                got.setdefault(k[1], set()).update(r)
            for t, exp in sorted(S["map"].items()):
                key = "%s|R-TAB-T|%s" % (fn.name, t)
                if t not in got:
                    rep.violation("R-TAB-T", key, loc(m), "%s: cell type t=\"%s\" has no arm (expected %s)" % (fn.name, t, exp["must"]))
                    continue
                g = got[t]
                must = set(exp["must"])
                allowed = must | set(exp.get("may", []))
                if not must <= g:
                    rep.violation("R-TAB-T", key, loc(m), "%s: cell type t=\"%s\" builds %s; the documented mapping requires %s" % (fn.name, t, sorted(g), sorted(must)))
                elif not g <= allowed:
                    rep.violation("R-TAB-T", key, loc(m), "%s: cell type t=\"%s\" can also build %s, outside the documented mapping (%s)" % (fn.name, t, sorted(g - allowed), sorted(allowed)))
                else:
                    rep.holds("R-TAB-T", key, loc(m), "t=%s -> %s" % (t, sorted(g)))
    if found == 0:
        rep.anchor_missing("R-TAB-T", "the match on the xlsx cell `t` attribute (arms s, b, e)")


# ----------------------------------------------------------------------------------------------
# R-TAB-VIS / R-TAB-TYP


def _tab_generic(ctx, rep, rule, enum, spec_tables, files=None):
    F = ctx.facts("default")
    seen = {name: 0 for name in spec_tables}
    for fn in F.user_fns():
        if files and fn.file not in files:
            continue
        idx = 0
        cands = [m for m in walk_k(fn.body, "Match") if m.get("src") in ("Normal", None, "IfLet")]
        cands += [i for i in walk_k(fn.body, "If") if i.get("els") is not None]
        cands.sort(key=lambda n: (n["span"]["l"], n["span"]["c"]))
        for m in cands:
            if m.get("k") == "If":
                # `if flag { V1 } else { V2 }` is the two-row table of `match flag { true => V1, false => V2 }`
                t, e = tuple(sorted(set(variants_built(m["then"], enum)))), tuple(sorted(set(variants_built(m["els"], enum))))
                cu = unwrap(m["cond"])
                neg = cu.get("k") == "Unary" and cu.get("op") == "!"
                if len(t) != 1 or len(e) != 1 or cu.get("k") == "Binary":
                    continue
                rows = [(("bool", "bool:false" if neg else "bool:true"), t, m), (("bool", "bool:true" if neg else "bool:false"), e, m)]
                m = dict(m, scrut=m["cond"])
            else:
                rows = flat_table(m, lambda b: tuple(sorted(set(variants_built(b, enum)))))
            rows = [(k, r, a) for k, r, a in rows if k[0] in ("int", "str", "bool") and len(r) == 1]
            if len(rows) < 2:
                continue
            got = {k[1]: r[0] for k, r, a in rows}
            # choose the spec table by key overlap
            best = None
            for name, tab in spec_tables.items():
                tkeys = {_conv(k) for k in tab["map"].keys()}
                ov = len(tkeys & set(got.keys()))
                if ov >= 2 and (best is None or ov > best[1]):
                    best = (name, ov)
            if best is None:
                continue
            name = best[0]
            tab = spec_tables[name]
            seen[name] += 1
            base = "%s|%s|%s#%d" % (fn.name, rule, name, idx)
            idx += 1
            if "scrut_mask" in tab:
                masks = [lit_value(b["r"]) for b in walk_k(m["scrut"], "Binary") if b["op"] == "&"]
                okm = all(mk is not None and (mk & tab["scrut_mask"]) == tab["scrut_mask"] for mk in masks)
                if okm:
                    rep.holds(rule, base + "|mask", loc(m), "the field is matched over all of its %d significant bits" % bin(tab["scrut_mask"]).count("1"))
                else:
                    rep.violation(rule, base + "|mask", loc(m), "%s masks the %s field with %s before matching; the field has significant bits 0x%X (%s), so distinct values are folded together (e.g. 6 -> 2)" % (fn.name, name, [hex(x) if x is not None else "?" for x in masks], tab["scrut_mask"], tab["source"]))
            for k, var in sorted(tab["map"].items()):
                kk = _conv(k)
                key = "%s|%s" % (base, k)
                if kk not in got:
                    if tab.get("optional") and k in tab["optional"]:
                        continue
                    rep.violation(rule, key, loc(m), "%s: %s value %r has no arm (%s says %s::%s)" % (fn.name, name, kk, tab["source"], enum, var))
                elif got[kk] != var:
                    rep.violation(rule, key, loc(m), "%s maps %s value %r to %s::%s; %s says %s" % (fn.name, name, kk, enum, got[kk], tab["source"], var))
                else:
                    rep.holds(rule, key, loc(m), "%r -> %s" % (kk, var))
            for kk, var in got.items():
                if kk not in {_conv(k) for k in tab["map"].keys()}:
                    rep.violation(rule, "%s|extra|%r" % (base, kk), loc(m), "%s maps the undefined %s value %r to %s::%s" % (fn.name, name, kk, enum, var))
    for name, tab in spec_tables.items():
        if seen[name] < tab.get("min_tables", 1):
            rep.anchor_missing(rule, "%s table -> %s (found %d, expected >= %d)" % (name, enum, seen[name], tab.get("min_tables", 1)))


def _conv(k):
    if isinstance(k, str) and k.startswith("int:"):
        return int(k[4:])
    return k


def r_tab_vis(ctx, rep):
    _tab_generic(ctx, rep, "R-TAB-VIS", "SheetVisible", spec("sheet_visible.json"))


def r_tab_typ(ctx, rep):
    _tab_generic(ctx, rep, "R-TAB-TYP", "SheetType", spec("sheet_type.json"))


# ----------------------------------------------------------------------------------------------
# R-TAB-ODS


def r_tab_ods(ctx, rep):
    S = spec("ods_value.json")
    F = ctx.facts("default")
    found = 0
    for fn in F.fns_in("src/ods.rs"):
        for m in walk_k(fn.body, "Match"):
            rows = flat_table(m, lambda b: tuple(sorted(set(variants_built(b, "Data")))))
            rows = [(k, r, a) for k, r, a in rows if k[0] == "str" and k[1].startswith("office:")]
            if len(rows) < 3:
                continue
            found += 1
            got = {}
            for k, r, a in rows:
                got.setdefault(k[1], set()).update(r)
            for attr, var in sorted(S["map"].items()):
                key = "%s|R-TAB-ODS|%s" % (fn.name, attr)
                if attr not in got:
                    rep.violation("R-TAB-ODS", key, loc(m), "%s: attribute %s has no arm (ODF 1.2 19.385ff: -> Data::%s)" % (fn.name, attr, var))
                elif got[attr] != {var}:
                    rep.violation("R-TAB-ODS", key, loc(m), "%s: attribute %s builds Data::%s, expected exactly Data::%s" % (fn.name, attr, sorted(got[attr]), var))
                else:
                    rep.holds("R-TAB-ODS", key, loc(m), "%s -> Data::%s" % (attr, var))
    if found == 0:
        rep.anchor_missing("R-TAB-ODS", "the match on office:* value attributes in src/ods.rs")


# ----------------------------------------------------------------------------------------------
# R-TAB-OP


def r_tab_op(ctx, rep):
    S = spec("ptg_ops.json")
    ops = {int(k, 16): v for k, v in S["map"].items()}
    F = ctx.facts("default")
    found = []
    for fn in F.user_fns():
        for m in walk_k(fn.body, "Match"):
            rows = []
            for arm in m["arms"]:
                keys, ca = pat_keys(arm["pat"])
                b = unwrap(arm["body"])
                if isinstance(b, dict) and b.get("k") == "Lit" and isinstance(b["v"], dict) and b["v"].get("lit") == "str":
                    for k in keys:
                        if k[0] == "int":
                            rows.append((k[1], b["v"]["v"]))
            if len(rows) >= 10 and all(3 <= k <= 0x11 for k, _ in rows):
                found.append(fn)
                got = dict(rows)
                for code, op in sorted(ops.items()):
                    key = "%s|R-TAB-OP|0x%02X" % (fn.name, code)
                    if code not in got:
                        rep.violation("R-TAB-OP", key, loc(m), "%s: operator token 0x%02X (%r) has no arm" % (fn.name, code, op))
                    elif got[code] != op:
                        rep.violation("R-TAB-OP", key, loc(m), "%s renders operator token 0x%02X as %r; MS-XLS 2.5.198 says %r" % (fn.name, code, got[code], op))
                    else:
                        rep.holds("R-TAB-OP", key, loc(m), "0x%02X -> %r" % (code, op))
    # lookup-table form: `OPS[(ptg - FIRST) as usize]` with OPS a constant array of string literals
    consts = {norm(c["def"]): c for c in F.consts if c.get("body") is not None}
    for fn in F.user_fns():
        if fn in found:
            continue
        for ix in walk_k(fn.body, "Index"):
            base = path_def(peel(ix["e"]))
            c = consts.get(base) if base else None
            arr = unwrap(c["body"]) if c else None
            if not (isinstance(arr, dict) and arr.get("k") == "Array" and len(arr.get("es", [])) >= 10):
                continue
            strs = [lit_value(e) for e in arr["es"]]
            if not all(isinstance(x, str) for x in strs):
                continue
            idx = unwrap(ix["idx"])
            while isinstance(idx, dict) and idx.get("k") == "Cast":
                idx = unwrap(idx["e"])
            first = None
            if isinstance(idx, dict) and idx.get("k") == "Binary" and idx["op"] == "-" and path_local(idx["l"]) and isinstance(lit_value(idx["r"]), int):
                first = lit_value(idx["r"])
            elif isinstance(idx, dict) and path_local(idx):
                first = 0
            if first is None:
                continue
            got = {first + i: v for i, v in enumerate(strs)}
            if not all(3 <= k <= 0x11 for k in got):
                continue
            found.append(fn)
            for code, op in sorted(ops.items()):
                key = "%s|R-TAB-OP|0x%02X" % (fn.name, code)
                if code not in got:
                    rep.violation("R-TAB-OP", key, loc(ix), "%s: operator token 0x%02X (%r) has no entry in %s" % (fn.name, code, op, base))
                elif got[code] != op:
                    rep.violation("R-TAB-OP", key, loc(ix), "%s renders operator token 0x%02X as %r (entry %d of %s); MS-XLS 2.5.198 says %r" % (fn.name, code, got[code], code - first, base, op))
                else:
                    rep.holds("R-TAB-OP", key, loc(ix), "0x%02X -> %r (%s[%d])" % (code, op, base.rsplit("::", 1)[-1], code - first))
            break
    if len(found) < 2:
        rep.anchor_missing("R-TAB-OP", "two Ptg operator tables (xls and xlsb parse_formula); found %d" % len(found))


# ----------------------------------------------------------------------------------------------
# R-TAB-FMT / R-TAB-FMTKIND


def _find_fmt_tables(F):
    by_id, by_code = None, None
    for fn in F.user_fns():
        if fn.file != "src/formats.rs":
            continue
        ms = [m for m in walk_k(fn.body, "Match") if set(variants_built(m, "CellFormat")) >= {"DateTime", "TimeDelta"}]
        if len(ms) != 1:
            continue
        m = ms[0]
        kinds = {k[0] for a in m["arms"] for k in pat_keys(a["pat"])[0]}
        if kinds == {"str"} and by_id is None:
            by_id = (fn, m)
        elif kinds <= {"int", "range"} and kinds and by_code is None:
            by_code = (fn, m)
    return by_id, by_code


def _arm_fmt(m, i):
    if i is None:
        return None
    v = set(variants_built(m["arms"][i]["body"], "CellFormat"))
    return sorted(v)[0] if len(v) == 1 else tuple(sorted(v))


def r_tab_fmt(ctx, rep):
    S = spec("builtin_formats.json")
    F = ctx.facts("default")
    by_id, by_code = _find_fmt_tables(F)
    if not by_id:
        rep.anchor_missing("R-TAB-FMT", "byte-string id -> CellFormat table in src/formats.rs")
    if not by_code:
        rep.anchor_missing("R-TAB-FMT", "integer code -> CellFormat table in src/formats.rs")
    if not by_id or not by_code:
        return
    exp = {}
    for i in S["datetime"]:
        exp[i] = "DateTime"
    for i in S["timedelta"]:
        exp[i] = "TimeDelta"
    for i in S["other"]:
        exp[i] = "Other"
    for i in range(0, 164):
        a = _arm_fmt(by_id[1], eval_match(by_id[1], str(i)))
        b = _arm_fmt(by_code[1], eval_match(by_code[1], i))
        key = "formats|R-TAB-FMT|id%d" % i
        if a != b:
            rep.violation("R-TAB-FMT", key, loc(by_id[1]), "built-in number format %d: %s says %s but %s says %s (xlsx and xls/xlsb would type the same cell differently)" % (i, by_id[0].name, a, by_code[0].name, b))
        elif i in exp and a != exp[i]:
            rep.violation("R-TAB-FMT", key, loc(by_id[1]), "built-in number format %d is classified %s by both tables; ECMA-376 18.8.30 makes it %s" % (i, a, exp[i]))
        else:
            rep.holds("R-TAB-FMT", key, loc(by_id[1]), "id %d -> %s in both tables" % (i, a), nontrivial=(i in exp))


def r_tab_fmtkind(ctx, rep):
    """format_excel_*: CellFormat::DateTime -> ExcelDateTimeType::DateTime, TimeDelta -> TimeDelta,
    anything else -> a plain number variant."""
    F = ctx.facts("default")
    n = 0
    for fn in F.fns_in("src/formats.rs"):
        for m in walk_k(fn.body, "Match"):
            arms = []
            for arm in m["arms"]:
                keys, ca = pat_keys(arm["pat"])
                fmts = [k[1].rsplit("::", 1)[1] for k in keys if k[0] == "path" and "CellFormat::" in (k[1] or "")]
                arms.append((fmts, ca, arm))
            if not any(f for f, _, _ in arms):
                continue
            if not any(variants_built(a["body"], "ExcelDateTimeType") for _, _, a in arms):
                continue
            n += 1
            for want in ("DateTime", "TimeDelta"):
                key = "%s|R-TAB-FMTKIND|%s" % (fn.name, want)
                arm = next((a for f, ca, a in arms if want in f), None)
                if arm is None:
                    rep.violation("R-TAB-FMTKIND", key, loc(m), "%s has no arm for CellFormat::%s: numbers styled with %s formats would be returned as plain numbers" % (fn.name, want, "elapsed-time" if want == "TimeDelta" else "date/time"))
                    continue
                kinds = set(variants_built(arm["body"], "ExcelDateTimeType"))
                fm = [f for f, ca, a in arms if a is arm][0]
                if kinds != {want} or set(fm) != {want}:
                    rep.violation("R-TAB-FMTKIND", key, loc(arm), "%s: the arm for CellFormat::%s (pattern %s) builds ExcelDateTimeType::%s; the duration flavour must follow the format kind" % (fn.name, want, "|".join(fm), sorted(kinds)))
                else:
                    dt = [v for v in variants_built(arm["body"], "Data") + variants_built(arm["body"], "DataRef") if v != "DateTime"]
                    if dt:
                        rep.violation("R-TAB-FMTKIND", key, loc(arm), "%s: the arm for CellFormat::%s builds %s instead of a DateTime cell" % (fn.name, want, dt))
                    else:
                        rep.holds("R-TAB-FMTKIND", key, loc(arm), "CellFormat::%s -> DateTime(ExcelDateTimeType::%s)" % (want, want))
            # default arm: plain number
            # every arm that takes neither DateTime nor TimeDelta (a catch-all, `Other`, `None`, ...)
            others = [a for f, ca, a in arms if not ({"DateTime", "TimeDelta"} & set(f))]
            key = "%s|R-TAB-FMTKIND|default" % fn.name
            if not others or any(variants_built(d["body"], "ExcelDateTimeType") for d in others):
                rep.violation("R-TAB-FMTKIND", key, loc(m), "%s: the arm(s) for every other format must return the plain number" % fn.name)
            else:
                rep.holds("R-TAB-FMTKIND", key, loc(others[0]), "other formats -> plain number")
    if n < 2:
        rep.anchor_missing("R-TAB-FMTKIND", "format_excel_* CellFormat matches in src/formats.rs (found %d)" % n)


# ----------------------------------------------------------------------------------------------
# R-TAB-REC


def r_tab_rec(ctx, rep):
    S = spec("xls_cell_records.json")
    need = {int(k, 16): v for k, v in S["records"].items()}
    F = ctx.facts("default")
    best = None
    for fn in F.fns_in("src/xls.rs"):
        for m in walk_k(fn.body, "Match"):
            ints = {k[1] for a in m["arms"] for k in pat_keys(a["pat"])[0] if k[0] == "int"}
            ov = len(ints & set(need))
            if ov >= 4 and (best is None or ov > best[2]):
                best = (fn, m, ov)
    if best is None:
        rep.anchor_missing("R-TAB-REC", "the xls sheet-substream record dispatch (a match with NUMBER/RK/MULRK/LABELSST arms)")
        return
    fn, m, _ = best
    # the cell vector: local whose type is Vec<Cell<Data>>
    cell_lids = set()
    for n in walk_k(fn.body, "Binding"):
        if norm_ty(n.get("ty", "")).replace(" ", "") in ("alloc::vec::Vec<Cell<datatype::Data>>",):
            cell_lids.add(n["lid"])
    for code, name in sorted(need.items()):
        key = "%s|R-TAB-REC|0x%04X" % (fn.name, code)
        i = eval_match(m, code)
        arm = m["arms"][i] if i is not None else None
        keys = pat_keys(arm["pat"])[0] if arm else []
        if arm is None or not any(key_matches(k, code) for k in keys):
            rep.violation("R-TAB-REC", key, loc(m), "%s: record 0x%04X (%s) has no arm in the sheet record dispatch: every such cell would be dropped" % (fn.name, code, name))
            continue
        uses = any(n.get("res", {}).get("lid") in cell_lids for n in walk_k(arm["body"], "Path"))
        if uses:
            rep.holds("R-TAB-REC", key, loc(arm), "%s arm feeds the cell vector" % name)
        else:
            rep.violation("R-TAB-REC", key, loc(arm), "%s: the arm for record 0x%04X (%s) never touches the cell vector" % (fn.name, code, name))


# ----------------------------------------------------------------------------------------------
# R-TAB-FROM


def r_tab_from(ctx, rep):
    F = ctx.facts("default")
    fns = [f for f in F.fns if f.impl_trait and f.impl_trait.endswith("convert::From") and f.impl_self == "datatype::Data" and "DataRef" in f.raw.get("impl_trait_full", "")]
    if not fns:
        rep.anchor_missing("R-TAB-FROM", "impl From<DataRef> for Data")
        return
    fn = fns[0]
    ms = [m for m in walk_k(fn.body, "Match")]
    if not ms:
        rep.anchor_missing("R-TAB-FROM", "match in From<DataRef> for Data")
        return
    m = ms[0]
    variants = [v["name"] for v in F.adts["datatype::DataRef"]["variants"]]
    for v in variants:
        want = "String" if v == "SharedString" else v
        key = "%s|R-TAB-FROM|%s" % (fn.name, v)
        arm = None
        for a in m["arms"]:
            ks = [k[1] for k in pat_keys(a["pat"])[0] if k[0] == "path"]
            if any(k and k.endswith("DataRef::" + v) for k in ks):
                arm = a
                break
        if arm is None:
            rep.violation("R-TAB-FROM", key, loc(m), "From<DataRef> for Data has no explicit arm for DataRef::%s" % v)
            continue
        built = set(variants_built(arm["body"], "Data"))
        if built != {want}:
            rep.violation("R-TAB-FROM", key, loc(arm), "From<DataRef> for Data converts DataRef::%s into Data::%s; worksheet_range would disagree with worksheet_range_ref (expected Data::%s)" % (v, sorted(built), want))
            continue
        # payload preserved: bound name is used in the body
        lids = {lid for _, lid in pat_bindings(arm["pat"])}
        used = {n.get("res", {}).get("lid") for n in walk_k(arm["body"], "Path")}
        if lids and not (lids & used):
            rep.violation("R-TAB-FROM", key, loc(arm), "From<DataRef> for Data drops the payload of DataRef::%s" % v)
        else:
            rep.holds("R-TAB-FROM", key, loc(arm), "DataRef::%s -> Data::%s, payload forwarded" % (v, want))


# ----------------------------------------------------------------------------------------------
# R-TAB-DE


def r_tab_de(ctx, rep):
    F = ctx.facts("default")
    fns = [f for f in F.fns if f.impl_self == "de::DataDeserializer" and f.impl_trait and f.impl_trait.endswith("de::Deserializer")]
    if len(fns) < 10:
        rep.anchor_missing("R-TAB-DE", "impl Deserializer for DataDeserializer (found %d methods)" % len(fns))
        return
    n = 0
    for fn in fns:
        mname = fn.name.rsplit("::", 1)[-1]
        self_lid = None
        for p in fn.params:
            for nm, lid in pat_bindings(p):
                if nm == "self":
                    self_lid = lid
        from .kit import matches_as_match
        syn = matches_as_match(fn.body)          # `if matches!(self.data_type, Data::Empty) { .. } else { .. }`
        hidden = {id(inner) for _, inner in syn}
        for m in [x for x in walk_k(fn.body, "Match") if id(x) not in hidden] + [x for x, _ in syn]:
            fc = field_chain(m["scrut"])
            if not fc or fc[0] != "self" or fc[1][:1] != ["data_type"]:
                continue
            n += 1
            key = "%s|R-TAB-DE|error" % fn.name
            # arm covering Data::Error
            arm = None
            explicit = False
            for a in m["arms"]:
                ks, ca = pat_keys(a["pat"])
                if any(k[0] == "path" and (k[1] or "").endswith("Data::Error") for k in ks):
                    arm, explicit = a, True
                    break
                if ca and a.get("guard") is None:
                    arm = a
                    break
                if ca and a.get("guard") is not None:
                    continue
            if arm is None:
                rep.violation("R-TAB-DE", key, loc(m), "%s: no arm covers Data::Error" % fn.name)
                continue
            if explicit:
                ok = False
                for s in walk_k(arm["body"], "Struct"):
                    d = norm(s["res"].get("ctor_of") or s["res"].get("def")) or ""
                    if d.endswith("DeError::CellError"):
                        posf = [f for f in s["fields"] if f["name"] == "pos"]
                        errf = [f for f in s["fields"] if f["name"] == "err"]
                        if posf and field_chain(posf[0]["e"]) == ("self", ["pos"]) and errf:
                            lids = {lid for _, lid in pat_bindings(arm["pat"])}
                            used = used_lids(errf[0]["e"], inl_params(arm["body"]))
                            ok = bool(lids & used)
                if ok:
                    rep.holds("R-TAB-DE", key, loc(arm), "Data::Error -> DeError::CellError{err: <the cell's error>, pos: self.pos}")
                else:
                    rep.violation("R-TAB-DE", key, loc(arm), "%s: the Data::Error arm does not build DeError::CellError { err: <that cell's error kind>, pos: self.pos }: an error cell would fail with the wrong kind/position or be converted silently" % fn.name)
            else:
                # catch-all: must forward `self` unchanged to the visitor / another method
                fwd = False
                for c in walk_k(arm["body"], "Call", "MethodCall"):
                    args = c["args"] + ([c["recv"]] if c["k"] == "MethodCall" else [])
                    for a in args:
                        pl = path_local(a)
                        if pl and pl[1] == self_lid:
                            fwd = True
                if fwd:
                    rep.holds("R-TAB-DE", key, loc(arm), "Data::Error falls to an arm that forwards `self` unchanged (the re-entered method decides)")
                else:
                    errs = variants_built(arm["body"], "DeError")
                    rep.violation("R-TAB-DE", key, loc(arm), "%s: Data::Error is handled by the catch-all arm, which builds %s instead of DeError::CellError with the cell's kind and position" % (fn.name, errs or "no error"))
            # Empty conversions stated by the property
            exp = {"deserialize_option": "visit_none", "deserialize_bool": "visit_bool", "deserialize_str": "visit_str"}.get(mname)
            if exp:
                key2 = "%s|R-TAB-DE|empty" % fn.name
                earm = None
                for a in m["arms"]:
                    ks, ca = pat_keys(a["pat"])
                    if any(k[0] == "path" and (k[1] or "").endswith("Data::Empty") for k in ks):
                        earm = a
                        break
                good = False
                if earm is not None:
                    for c in walk_k(earm["body"], "MethodCall"):
                        if c["name"] == exp:
                            if exp == "visit_none":
                                good = True
                            elif exp == "visit_bool":
                                good = lit_value(c["args"][0]) is False
                            elif exp == "visit_str":
                                good = lit_value(c["args"][0]) == ""
                if good:
                    rep.holds("R-TAB-DE", key2, loc(earm), "Data::Empty -> %s" % exp)
                else:
                    rep.violation("R-TAB-DE", key2, loc(earm or m), "%s: Data::Empty must convert through %s%s" % (fn.name, exp, {"visit_bool": "(false)", "visit_str": "(\"\")"}.get(exp, "")))
    if n < 6:
        rep.anchor_missing("R-TAB-DE", "matches on self.data_type in DataDeserializer (found %d)" % n)


# ----------------------------------------------------------------------------------------------
# R-TAB-CFB


def _local_inits(fn):
    """lid -> init expression for `let <binding> = init` statements."""
    out = {}
    for n in walk(fn.body):
        if n.get("k") == "Let" and n.get("init") is not None:
            p = n["pat"]
            if p.get("k") == "Binding":
                out[p["lid"]] = n["init"]
    return out


def _buf_ranges(e):
    """(lo, hi) constant ranges used to index a buffer inside expression e (a..b, a.., ..b)."""
    out = []
    for n in walk_k(e, "Index"):
        idx = unwrap(n["idx"])
        if idx.get("k") == "Struct":
            d = norm(idx["res"].get("ctor_of") or idx["res"].get("def")) or ""
            f = {x["name"]: lit_value(x["e"]) for x in idx["fields"]}
            if d.endswith("ops::range::Range"):
                out.append((f.get("start"), f.get("end")))
            elif d.endswith("RangeFrom"):
                out.append((f.get("start"), None))
            elif d.endswith("RangeTo"):
                out.append((0, f.get("end")))
        elif lit_value(idx) is not None:
            out.append((lit_value(idx), lit_value(idx) + 1))
    for n in walk_k(e, "MethodCall"):
        if n["name"] == "get" and n["args"]:
            idx = unwrap(n["args"][0])
            if idx.get("k") == "Struct":
                f = {x["name"]: lit_value(x["e"]) for x in idx["fields"]}
                out.append((f.get("start"), f.get("end")))
    return out


def _reader_width(e):
    for n in walk_k(e, "Call"):
        c = callee(n) or ""
        for w, names in ((2, ("read_u16", "read_i16")), (4, ("read_u32", "read_i32", "read_usize")), (8, ("read_u64", "read_f64"))):
            if any(c.endswith("utils::" + x) for x in names):
                return w
    return None


def r_tab_cfb(ctx, rep):
    S = spec("cfb_layout.json")
    F = ctx.facts("default")
    for struct, fnname in (("Header", "cfb::Header::from_reader"), ("Directory", "cfb::Directory::from_slice")):
        fn = F.fn(fnname)
        if fn is None:
            rep.anchor_missing("R-TAB-CFB", fnname)
            continue
        inits = _local_inits(fn)
        lit = None
        for s in walk_k(fn.body, "Struct"):
            d = norm(s["res"].get("ctor_of") or s["res"].get("def")) or ""
            if d.endswith("cfb::" + struct):
                lit = s
        if lit is None:
            rep.anchor_missing("R-TAB-CFB", "struct literal cfb::%s in %s" % (struct, fnname))
            continue
        fields = {f["name"]: f["e"] for f in lit["fields"]}
        fields.update({f["name"].lstrip("_"): f["e"] for f in lit["fields"] if f["name"].startswith("_")})   # `_unused` renames
        for fname, ex in sorted(S[struct].items()):
            key = "%s|R-TAB-CFB|%s" % (fnname, fname)
            if fname not in fields:
                rep.anchor_missing("R-TAB-CFB", "field %s of cfb::%s" % (fname, struct))
                continue
            e = fields[fname]
            pl = path_local(e)
            seen = set()
            while pl and pl[1] in inits and pl[1] not in seen:
                seen.add(pl[1])
                e = inits[pl[1]]
                pl = path_local(e)
            ranges = _buf_ranges(e)
            want = [tuple(x) for x in ex["ranges"]]
            got = sorted({(a, b) for a, b in ranges})
            ok = bool(got) and all(any(_range_ok(g, w) for w in want) for g in got) and all(any(_range_ok(g, w) for g in got) for w in want)
            if ok:
                rep.holds("R-TAB-CFB", key, loc(e), "%s.%s read from bytes %s (%s)" % (struct, fname, got, ex["what"]))
            else:
                rep.violation("R-TAB-CFB", key, loc(e), "%s reads %s.%s from byte range(s) %s; MS-CFB places %s at %s" % (fnname, struct, fname, got, ex["what"], want))
    # sector shift table 9 -> 512, 0xC -> 4096
    fn = F.fn("cfb::Header::from_reader")
    if fn:
        done = False
        for m in walk_k(fn.body, "Match"):
            rows = []
            for arm in m["arms"]:
                keys, ca = pat_keys(arm["pat"])
                v = None
                b = unwrap(arm["body"])
                def val(x):
                    x = unwrap(x)
                    # `Ok(512)` / `Some(512)` when the table moved into a helper that returns a Result
                    if isinstance(x, dict) and x.get("k") == "Call" and (callee(x) or "").rsplit("::", 1)[-1] in ("Ok", "Some") and len(x.get("args", [])) == 1:
                        return lit_value(x["args"][0])
                    return lit_value(x)
                if b.get("k") == "BlockExpr" and b["block"].get("expr") is not None:
                    v = val(b["block"]["expr"])
                else:
                    v = val(b)
                for k in keys:
                    if k[0] == "int":
                        rows.append((k[1], v))
            got = dict(rows)
            if 9 in got or 12 in got:
                done = True
                for shift, size in ((9, 512), (12, 4096)):
                    key = "cfb::Header::from_reader|R-TAB-CFB|shift%d" % shift
                    if got.get(shift) == size:
                        rep.holds("R-TAB-CFB", key, loc(m), "sector shift %d -> %d bytes" % (shift, size))
                    else:
                        rep.violation("R-TAB-CFB", key, loc(m), "sector shift %d maps to %s, MS-CFB 2.2 says %d" % (shift, got.get(shift), size))
        if not done:
            rep.anchor_missing("R-TAB-CFB", "sector-shift match in Header::from_reader")


def _range_ok(g, w):
    return g[0] == w[0] and (g[1] == w[1] or (g[1] is None and w[1] is None) or (g[1] is None and w[2] if len(w) > 2 else False))
