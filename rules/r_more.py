"""Further structural rules added after the first rounds of seeded changes.

R-RK        RK decoding: divide-by-100 flag is a division by the literal 100; the 30-bit integer is
            obtained by an arithmetic shift of a *signed* 32-bit value
R-ODSREP    ods: only number-columns-repeated / number-rows-repeated feed the repeat counts
R-ODSFLAT   ods: the table loop consumes reader events only for rows (wrappers are descended into)
R-CFBDIR    cfb: every 128-byte directory entry is decoded (no truncating adaptor)
R-TAB-1904  date-system flag literals
R-UNESC     text-valued XML attributes are unescaped
R-ACCUM     per-sheet accumulators are appended to, never reassigned, inside the record loop
R-TBLFRESH  table attribute defaults are re-established for every table
R-COUNTHINT declared counts (count / uniqueCount) never steer loop exits
"""
from .kit import (walk, walk_anc, walk_k, unwrap, peel, loc, callee, path_local, path_def, lit_value, pat_bindings,
                  pat_variant, norm, norm_ty, field_chain, shape, always_leaves, in_macro)
from .r_tables import pat_keys, variants_built, str_lits
from .r_xml import event_matches, guard_literals, _arm_event_variant
from . import r_flow


def r_rk(ctx, rep):
    F = ctx.facts("default")
    n = 0
    for fname in ("xls::rk_num", "xlsb::cells_reader::XlsbCellsReader::next_cell"):
        fn = F.fn(fname)
        if fn is None:
            rep.anchor_missing("R-RK", fname)
            continue
        # the d100 flag: a bool local initialised from `(x & 1) != 0`
        flags = {}
        for s in walk(fn.body):
            if s.get("k") == "Let" and s.get("init") is not None and s["pat"].get("k") == "Binding":
                init = unwrap(s["init"])
                if init.get("k") == "Binary" and init["op"] == "!=":
                    inner = peel(init["l"])
                    if inner.get("k") == "Binary" and inner["op"] == "&" and lit_value(inner["r"]) in (1, 2):
                        flags[s["pat"]["lid"]] = lit_value(inner["r"])
        d100 = {lid for lid, bit in flags.items() if bit == 1}
        if not d100:
            rep.anchor_missing("R-RK", "the divide-by-100 flag (x & 1 != 0) in %s" % fname)
            continue
        # every `if d100` selects between `v / 100` and `v`
        k = 0
        for i in walk_k(fn.body, "If"):
            c = peel(i["cond"])
            conds = [c] + ([peel(c["l"])] if c.get("k") == "Binary" and c["op"] == "&&" else [])
            if not any(path_local(x) and path_local(x)[1] in d100 for x in conds):
                continue
            k += 1
            n += 1
            key = "%s|R-RK|div100#%d" % (fname, k)
            divs = [b for b in walk_k(i["then"], "Binary") if b["op"] == "/"]
            others = [b for b in walk_k(i["then"], "Binary") if b["op"] in ("*",) and lit_value(b["r"]) not in (None,) and isinstance(lit_value(b["r"]), (str, float)) ]
            ok = any(_is_100(b["r"]) for b in divs)
            if ok:
                rep.holds("R-RK", key, loc(i), "the divide-by-100 flag selects `value / 100`")
            else:
                rep.violation("R-RK", key, loc(i), "%s: under the RK divide-by-100 flag the value is not divided by the literal 100 (found %s): NUMBER, RK and MULRK encodings of the same number would no longer be numerically equal" % (fname, [b["op"] + " " + str(_num(b["r"])) for b in walk_k(i["then"], "Binary")][:3]))
        # `match (is_int, d100) { (true, true) => .. / 100.0, .. }`: the arms that take the flag as `true` divide, the others do not
        for m in walk_k(fn.body, "Match"):
            sc = unwrap(m["scrut"])
            if not (isinstance(sc, dict) and sc.get("k") == "Tup"):
                continue
            pos = [j for j, x in enumerate(sc.get("es", [])) if path_local(x) and path_local(x)[1] in d100]
            if not pos:
                continue
            j = pos[0]
            k += 1
            n += 1
            key = "%s|R-RK|div100#%d" % (fname, k)
            wrong = None
            for a in m["arms"]:
                pats = a["pat"].get("pats") if a["pat"].get("k") == "Tuple" else None
                if not pats or j >= len(pats):
                    continue
                want = lit_value(pats[j]) if pats[j].get("k") in ("Lit", "Expr") else (pats[j].get("v") if isinstance(pats[j].get("v"), bool) else None)
                if want is None:
                    from .kit import pat_literals
                    lits = pat_literals(pats[j])[0]
                    want = lits[0] if len(lits) == 1 and isinstance(lits[0], bool) else None
                divides = any(b["op"] == "/" and _is_100(b["r"]) for b in walk_k(a["body"], "Binary"))
                if want is True and not divides:
                    wrong = (a, "an arm taken when the flag is set does not divide by 100")
                if want is False and divides:
                    wrong = (a, "an arm taken when the flag is clear divides by 100")
            if wrong:
                rep.violation("R-RK", key, loc(wrong[0]), "%s: %s: NUMBER, RK and MULRK encodings of the same number would no longer be numerically equal" % (fname, wrong[1]))
            else:
                rep.holds("R-RK", key, loc(m), "the arms of the (.., d100) match divide by 100 exactly when the flag is set")
        if k == 0:
            rep.anchor_missing("R-RK", "uses of the divide-by-100 flag in %s" % fname)
        # `>> 2` on a signed 32-bit value
        shifts = [b for b in walk_k(fn.body, "Binary") if b["op"] == ">>" and lit_value(b["r"]) == 2]
        key = "%s|R-RK|signed-shift" % fname
        if not shifts:
            rep.violation("R-RK", key, loc(fn.raw), "%s: the 30-bit RK integer is not extracted with `>> 2`" % fname)
        else:
            n += 1
            ty = norm_ty(unwrap(shifts[0]["l"]).get("ty", ""))
            if ty == "i32":
                rep.holds("R-RK", key, loc(shifts[0]), "RK integer = (signed 32-bit value) >> 2 (arithmetic shift keeps the sign)")
            else:
                rep.violation("R-RK", key, loc(shifts[0]), "%s shifts a `%s` right by 2: RK integers are signed 30-bit values, an unsigned (logical) shift turns every negative integer into v + 2^30" % (fname, ty))
    if n < 4:
        rep.anchor_missing("R-RK", "RK decoding sites (found %d)" % n)


def _num(e):
    e = peel(e)
    if e.get("k") == "Lit":
        v = e["v"].get("v")
        try:
            return float(v)
        except (TypeError, ValueError):
            return v
    return lit_value(e)


def _is_100(e):
    v = _num(e)
    return v in (100, 100.0)


# ----------------------------------------------------------------------------------------------


def r_odsrep(ctx, rep):
    F = ctx.facts("default")
    want = {"ods::read_row": "table:number-columns-repeated", "ods::read_table": "table:number-rows-repeated"}
    for fname, lit in want.items():
        fn = F.fn(fname)
        if fn is None:
            rep.anchor_missing("R-ODSREP", fname)
            continue
        key = "%s|R-ODSREP" % fname
        # attribute-name literals whose value is parsed as a number in this function (outside value decoding)
        lits = set()
        for c in walk_k(fn.body, "MethodCall"):
            if c["name"] == "try_get_attribute" and c["args"]:
                v = lit_value(c["args"][0])
                if isinstance(v, str):
                    lits.add(v)
        for b in walk_k(fn.body, "Binary"):
            if b["op"] == "==" and any(f.get("name") == "key" for f in walk_k(b["l"], "Field")):
                for s in str_lits(b["r"]):
                    lits.add(s)
        for i in walk_k(fn.body, "If"):
            for b in walk_k(i["cond"], "Binary"):
                if b["op"] in ("||",):
                    pass
        rep_lits = {l for l in lits if "repeated" in l or "spanned" in l or "number-" in l}
        # the parsed count is used as written: a clamp (min / clamp / saturating) silently shortens long runs, so the
        # same grid stored as one run or as several reads differently
        clamps = [c for c in walk_k(fn.body, "MethodCall") if c["name"] in ("min", "clamp") and any(x.get("k") == "MethodCall" and x.get("name") == "parse" for x in walk(c["recv"]))]
        if clamps:
            rep.violation("R-ODSREP", key + "|clamp", loc(clamps[0]), "%s clamps the parsed repeat count (`%s`): a run longer than the clamp is shortened, which displaces every later cell of the row and drops repeated values" % (fname, clamps[0]["name"]))
        if rep_lits == {lit}:
            rep.holds("R-ODSREP", key, loc(fn.raw), "only `%s` feeds the repeat count" % lit)
        else:
            rep.violation("R-ODSREP", key, loc(fn.raw), "%s derives a repeat count from %s; only `%s` repeats cells/rows (a spanned cell is already followed by its covered cells, counting the span again shifts every later column)" % (fname, sorted(rep_lits) or "no attribute", lit))


def r_odsflat(ctx, rep):
    F = ctx.facts("default")
    fn = F.fn("ods::read_table")
    if fn is None:
        rep.anchor_missing("R-ODSFLAT", "ods::read_table")
        return
    ems = event_matches(fn)
    if not ems:
        rep.anchor_missing("R-ODSFLAT", "event loop of ods::read_table")
        return
    em = ems[0]
    reader_lids = {lid for p in fn.params for nm, lid in pat_bindings(p) if "Reader" in norm_ty(p.get("ty", ""))}
    for i, arm in enumerate(em["match"]["arms"]):
        gl = guard_literals(arm)
        ev = _arm_event_variant(arm, em["wrapped"])
        if "table:table-row" in gl and ev == "Start":
            continue
        touches = [c for c in walk_k(arm["body"], "MethodCall", "Call") if any(path_local(a) and path_local(a)[1] in reader_lids for a in ((c.get("args") or []) + ([c["recv"]] if c.get("k") == "MethodCall" else []))) and (c.get("name") not in ("decoder",))]
        key = "ods::read_table|R-ODSFLAT|arm%d" % i
        if touches:
            rep.violation("R-ODSFLAT", key, loc(touches[0]), "read_table: an arm other than the <table:table-row> arm consumes reader events (`%s`): rows nested in wrapper elements (table:table-header-rows, table:table-row-group, table:table-rows) would be swallowed with their wrapper and every later row would move up" % (touches[0].get("name") or callee(touches[0])))
        else:
            rep.holds("R-ODSFLAT", key, loc(arm), "arm leaves the reader untouched (wrapper elements are descended into)", nontrivial=(ev == "Start" or ev is None))


# ----------------------------------------------------------------------------------------------


def r_cfbdir(ctx, rep):
    F = ctx.facts("default")
    fn = F.fn("cfb::Cfb::new")
    if fn is None:
        rep.anchor_missing("R-CFBDIR", "cfb::Cfb::new")
        return
    key = "cfb::Cfb::new|R-CFBDIR"
    chain = None
    for c in walk_k(fn.body, "MethodCall"):
        if c["name"] == "collect":
            names = []
            r = c
            while isinstance(r, dict) and r.get("k") == "MethodCall":
                names.append(r["name"])
                last = r
                r = peel(r["recv"])
            if "chunks" in names and any((callee(x) or "").endswith("Directory::from_slice") or (path_def(x) or "").endswith("Directory::from_slice") for x in walk(c)):
                chain = (c, names, last)
    if chain is None:
        rep.anchor_missing("R-CFBDIR", "the chunks(128).map(Directory::from_slice).collect() chain")
        return
    c, names, last = chain
    bad = [n for n in names if n in ("take_while", "take", "skip", "skip_while", "step_by", "filter", "filter_map", "rev", "map_while", "scan")]
    size = lit_value(last["args"][0]) if last["name"] == "chunks" and last["args"] else None
    if bad:
        rep.violation("R-CFBDIR", key, loc(c), "Cfb::new builds the directory through `%s`: unallocated entries may sit anywhere in the directory array (a deleted stream leaves a hole), so dropping or re-ordering entries by position hides the streams behind them" % bad[0])
    elif size != 128:
        rep.violation("R-CFBDIR", key, loc(c), "directory entries are %s bytes in the code, MS-CFB 2.6 says 128" % size)
    else:
        rep.holds("R-CFBDIR", key, loc(c), "every 128-byte directory entry is decoded, in order")


# ----------------------------------------------------------------------------------------------


def r_tab_1904(ctx, rep):
    F = ctx.facts("default")
    # xlsx: date1904 is an xsd:boolean -> "1" and "true" are both true
    fn = F.fn("xlsx::Xlsx::read_workbook")
    key = "xlsx::Xlsx::read_workbook|R-TAB-1904"
    if fn is None:
        rep.anchor_missing("R-TAB-1904", "xlsx::Xlsx::read_workbook")
    else:
        hit = False
        for em in event_matches(fn):
            for arm in em["match"]["arms"]:
                if "workbookPr" in guard_literals(arm):
                    hit = True
                    lits = set(str_lits(arm["body"]))
                    assigns = [a for a in walk_k(arm["body"], "Assign") if field_chain(a["l"]) == ("self", ["is_1904"])]
                    if {"1", "true"} <= lits and assigns:
                        rep.holds("R-TAB-1904", key, loc(arm), "date1904 is true for both xsd:boolean spellings \"1\" and \"true\"")
                    else:
                        rep.violation("R-TAB-1904", key, loc(arm), "the workbookPr arm does not accept both xsd:boolean spellings of date1904 (\"1\" and \"true\"; found literals %s): Excel writes date1904=\"1\", so the 1904 date system would be lost" % sorted(lits))
                    # the arm is selected by local name, so extension elements (x15:workbookPr in extLst) reach it
                    # too: an element without the attribute must leave the flag alone
                    resets = []
                    for a in assigns:
                        for n, anc in walk_anc(a["r"]):
                            if n.get("k") == "Lit" and lit_value(n) is False:
                                par = [x for x in anc if x.get("k") not in ("DropTemps", "Use", "BlockExpr", "Block")]
                                # an argument (`unwrap_or(false)`, a comparison operand) is not a branch value
                                if not par or par[-1].get("k") in ("Match", "If") or par[-1].get("k") is None or par[-1] is a:
                                    resets.append(n)
                        if lit_value(a["r"]) is False:
                            resets.append(a["r"])
                    if resets:
                        rep.violation("R-TAB-1904", key + "|absent-resets", loc(resets[0]), "the workbookPr arm assigns a constant false to is_1904 (the attribute-absent case): `<x15:workbookPr/>` inside extLst, which Excel writes after the real workbookPr, would reset the 1904 date system")
                    elif assigns:
                        rep.holds("R-TAB-1904", key + "|absent-resets", loc(arm), "is_1904 is only assigned from a present date1904 attribute")
        if not hit:
            rep.anchor_missing("R-TAB-1904", "the workbookPr arm of xlsx read_workbook")
    # xlsb: BrtWbProp bit 0 ; xls: Date1904 record == 1
    fn = F.fn("xlsb::Xlsb::read_workbook")
    key = "xlsb::Xlsb::read_workbook|R-TAB-1904"
    if fn:
        ok = False
        from .kit import with_new_callees
        for body_ in with_new_callees(F, fn):
            for a in walk_k(body_, "Assign"):
                fc_ = field_chain(a["l"])
                # `self.is_1904 = ..`, or `*parts.is_1904 = ..` through a context struct holding `&mut self.is_1904`
                if fc_ and fc_[1] and fc_[1][-1] == "is_1904":
                    for b in walk_k(a["r"], "Binary"):
                        if b["op"] == "&" and lit_value(b["r"]) == 1:
                            ok = True
        if ok:
            rep.holds("R-TAB-1904", key, loc(fn.raw), "BrtWbProp bit 0 (f1904)")
        else:
            rep.violation("R-TAB-1904", key, loc(fn.raw), "is_1904 is not taken from bit 0 of BrtWbProp (MS-XLSB 2.4.822 f1904)")
    fn = F.fn("xls::Xls::parse_workbook")
    key = "xls::Xls::parse_workbook|R-TAB-1904"
    if fn:
        ok = False
        for m in walk_k(fn.body, "Match"):
            for arm in m["arms"]:
                ks, _ = pat_keys(arm["pat"])
                from .kit import pat_literals
                if ("int", 0x22) in ks or 0x22 in [v for v in pat_literals(arm["pat"])[0] if isinstance(v, int)]:     # literal or named constant
                    sets = [a for a in walk_k(arm["body"], "Assign") if field_chain(a["l"]) == ("self", ["is_1904"]) and lit_value(a["r"]) is True]
                    where = [arm["body"]] + ([arm["guard"]] if arm.get("guard") is not None else [])      # `0x0022 if read_u16(..) == 1 => ..`
                    conds = [b for w_ in where for b in walk_k(w_, "Binary") if b["op"] in ("==", "!=") and lit_value(b["r"]) in (0, 1)]
                    ok = ok or bool(sets and conds)
        if ok:
            rep.holds("R-TAB-1904", key, loc(fn.raw), "Date1904 record (0x0022) value 1 sets the flag")
        else:
            rep.violation("R-TAB-1904", key, loc(fn.raw), "the Date1904 record (0x0022) does not set is_1904")


# ----------------------------------------------------------------------------------------------

TEXT_ATTRS = {
    # attribute name literal -> why it is text
    "name": "sheet / defined-name / column name", "formatCode": "number format code",
    "table:name": "sheet or defined-name name", "table:formula": "formula text", "office:string-value": "cell text",
    "office:date-value": "ISO date text", "office:time-value": "ISO duration text",
    "table:cell-range-address": "defined-name reference", "table:expression": "defined-name expression",
    "style:name": "style name", "table:style-name": "style name",
}
# not listed: `displayName` (table names cannot contain characters that need escaping) and relationship
# `Target` (a part name; `&` does not occur in part names written by any producer): no input demonstrates
# a difference, so no claim is made for them.


def _value_conversions(e):
    """names of the conversion calls applied to an attribute value inside expression e"""
    out = []
    for c in walk_k(e, "MethodCall"):
        if c["name"] in ("decode_and_unescape_value", "unescape_value", "decode", "unescape", "from_utf8", "to_vec", "extend_from_slice"):
            out.append(c["name"])
    for c in walk_k(e, "Call"):
        if (callee(c) or "").endswith("from_utf8"):
            out.append("from_utf8")
    return out


def r_unesc(ctx, rep, files=("src/xlsx/mod.rs", "src/xlsx/cells_reader.rs", "src/ods.rs", "src/xlsb/mod.rs")):
    F = ctx.facts("default")
    n = 0
    for fn in F.user_fns():
        if fn.file not in files:
            continue
        seen = {}
        # (1) match arms over attribute keys: `Attribute { key: QName(b"..."), .. } => value conversion`
        for m in walk_k(fn.body, "Match"):
            for arm in m["arms"]:
                ks, _ = pat_keys(arm["pat"])
                names = [k[1] for k in ks if k[0] == "str" and k[1] in TEXT_ATTRS]
                # nested QName(b"a" | b"b") inside struct patterns
                for p in walk_k(arm["pat"], "PLit"):
                    e = p["e"]
                    if e.get("lit") in ("str", "bstr") and e.get("v") in TEXT_ATTRS and e["v"] not in names:
                        names.append(e["v"])
                if not names:
                    continue
                conv = _value_conversions(arm["body"])
                if not conv:
                    continue
                for nm in names:
                    seen.setdefault(nm, []).append((arm, conv))
        # (2) find(|a| a.key == QName(b"name")) ... then conversion on the found attribute
        for c in walk_k(fn.body, "MethodCall"):
            if c["name"] in ("find", "try_get_attribute"):
                lits = [s for s in str_lits(c) if s in TEXT_ATTRS]
                if not lits:
                    continue
                # conversions applied in the enclosing statement / if-let body
                pass
        for i in walk_k(fn.body, "If", "Match", "Let"):
            src = i.get("cond") if i.get("k") == "If" else (i.get("scrut") if i.get("k") == "Match" else i.get("init"))
            if src is None:
                continue
            finds = [c for c in walk_k(src, "MethodCall") if c["name"] in ("find", "try_get_attribute") and [s for s in str_lits(c) if s in TEXT_ATTRS]]
            if not finds:
                continue
            body = i.get("then") if i.get("k") == "If" else i
            conv = _value_conversions(body)
            if conv:
                for f in finds:
                    for nm in [s for s in str_lits(f) if s in TEXT_ATTRS]:
                        seen.setdefault(nm, []).append((i, conv))
        for i in walk_k(fn.body, "If"):
            names = []
            for b in walk_k(i["cond"], "Binary"):
                if b["op"] == "==" and any(f.get("name") == "key" for f in walk_k(b, "Field")):
                    names += [s_ for s_ in str_lits(b) if s_ in TEXT_ATTRS]
            conv = _value_conversions(i["then"])
            if names and conv:
                for nm in names:
                    seen.setdefault(nm, []).append((i, conv))
        for i in walk_k(fn.body, "Match"):
            if i.get("src") != "IfLet":
                continue
            names = [e_["e"]["v"] for e_ in walk_k(i["arms"][0]["pat"], "PLit") if e_["e"].get("lit") in ("str", "bstr") and e_["e"].get("v") in TEXT_ATTRS]
            conv = _value_conversions(i["arms"][0]["body"])
            if names and conv:
                for nm in names:
                    seen.setdefault(nm, []).append((i, conv))
        for nm, uses in sorted(seen.items()):
            uses.sort(key=lambda u: 0 if not any(c in ("decode_and_unescape_value", "unescape_value", "unescape") for c in u[1]) else 1)
            arm, conv = uses[0]
            n += 1
            key = "%s|R-UNESC|%s" % (fn.name, nm)
            if any(c in ("decode_and_unescape_value", "unescape_value", "unescape") for c in conv):
                rep.holds("R-UNESC", key, loc(arm), "attribute `%s` (%s) is unescaped" % (nm, TEXT_ATTRS[nm]))
            elif set(conv) <= {"to_vec", "extend_from_slice"}:
                rep.holds("R-UNESC", key, loc(arm), "attribute `%s` is kept as raw bytes (a lookup key, compared with raw bytes)" % nm, nontrivial=False)
            else:
                rep.violation("R-UNESC", key, loc(arm), "%s converts the text attribute `%s` (%s) with `%s` only: XML entities in the attribute value (&amp; &quot; &apos; &lt; &#10;) are not decoded, so the reported text contains the markup%s" % (
                    fn.name, nm, TEXT_ATTRS[nm], "/".join(sorted(set(conv))), "; for a number format the `;` of `&quot;` even ends the format scan, so a date format with a quoted literal is typed as a plain number" if nm == "formatCode" else ""))
    if n < 8:
        rep.anchor_missing("R-UNESC", "text attribute conversions (found %d)" % n)


# ----------------------------------------------------------------------------------------------


def r_accum(ctx, rep):
    """xls: cells / formulas / merge_cells of a sheet are appended to inside the record loop."""
    F = ctx.facts("default")
    fn = F.fn("xls::Xls::parse_workbook")
    if fn is None:
        rep.anchor_missing("R-ACCUM", "xls::Xls::parse_workbook")
        return
    # locals that end up in SheetData { range: from_sparse(cells), formula: from_sparse(formulas), merge_cells }
    accs = {}
    for s in walk_k(fn.body, "Struct"):
        d = norm(s["res"].get("ctor_of") or s["res"].get("def")) or ""
        if d.endswith("SheetData"):
            for f in s["fields"]:
                if "e" not in f:
                    continue
                for p in walk_k(f["e"], "Path"):
                    if "local" in p.get("res", {}):
                        accs[p["res"]["lid"]] = p["res"]["local"]
    inits = {}
    for x in walk(fn.body):
        if x.get("k") == "Let" and x.get("init") is not None:
            for nm, lid in pat_bindings(x["pat"]):
                inits[lid] = x["init"]
    # range/formula locals come from from_sparse(cells): follow one level
    for lid in list(accs):
        if lid in inits:
            for p in walk_k(inits[lid], "Path"):
                if "local" in p.get("res", {}):
                    accs[p["res"]["lid"]] = p["res"]["local"]
    vec_accs = {}
    for b in walk_k(fn.body, "Binding"):
        if b["lid"] in accs and norm_ty(b.get("ty", "")).startswith("alloc::vec::Vec<"):
            vec_accs[b["lid"]] = b["name"]
    if len(vec_accs) < 3:
        rep.anchor_missing("R-ACCUM", "per-sheet accumulators feeding SheetData (found %s)" % sorted(vec_accs.values()))
        return
    for lid, nm in sorted(vec_accs.items(), key=lambda x: x[1]):
        key = "xls::Xls::parse_workbook|R-ACCUM|%s" % nm
        bad = []
        for a, anc in walk_anc(fn.body):
            if a.get("k") == "Assign" and path_local(a["l"]) and path_local(a["l"])[1] == lid:
                if any(x.get("k") == "Loop" for x in anc[-12:]) and any(x.get("k") is None and "pat" in x and any(k[0] == "int" for k in pat_keys(x["pat"])[0]) for x in anc):
                    bad.append(a)
        for c in walk_k(fn.body, "MethodCall"):
            if c["name"] in ("clear", "truncate", "drain", "pop", "remove", "swap_remove") and path_local(c["recv"]) and path_local(c["recv"])[1] == lid:
                bad.append(c)
        if bad:
            rep.violation("R-ACCUM", key, loc(bad[0]), "parse_workbook replaces or shrinks the per-sheet accumulator `%s` inside the record dispatch: a sheet whose data spans several records of this kind (e.g. more than 1026 merged regions need several MergeCells records) keeps only the last record's entries" % nm)
        else:
            rep.holds("R-ACCUM", key, loc(fn.raw), "`%s` is only appended to inside the record loop" % nm)


def r_tblfresh(ctx, rep):
    F = ctx.facts("default")
    fn = F.fn("xlsx::Xlsx::read_table_metadata")
    if fn is None:
        rep.anchor_missing("R-TBLFRESH", "xlsx::Xlsx::read_table_metadata")
        return
    key = "xlsx::Xlsx::read_table_metadata|R-TBLFRESH"
    lets = []
    for s, anc in walk_anc(fn.body):
        if s.get("k") == "Let" and s.get("init") is not None and any((callee(c) or "").endswith("InnerTableMetadata::new") for c in walk_k(s["init"], "Call")):
            lets.append((s, anc))
    if not lets:
        rep.anchor_missing("R-TBLFRESH", "the InnerTableMetadata::new() initialisation")
        return
    s, anc = lets[0]
    lid = s["pat"].get("lid")
    # the push that records the table must be in the same innermost for-loop as the initialisation
    push = None
    for c, a2 in walk_anc(fn.body):
        if c.get("k") == "MethodCall" and c["name"] == "push" and any(p.get("res", {}).get("lid") == lid for p in walk_k(c, "Path")):
            push = (c, a2)
    if push is None:
        rep.anchor_missing("R-TBLFRESH", "the push recording a table")
        return
    loops_init = [x for x in anc if x.get("k") == "Loop" and x.get("src") == "for"]
    loops_push = [x for x in push[1] if x.get("k") == "Loop" and x.get("src") == "for"]
    if loops_push and loops_init and loops_init[-1] is loops_push[-1]:
        rep.holds("R-TBLFRESH", key, loc(s), "header/totals/insert-row defaults are re-initialised for every table (same for-loop as the push)")
    else:
        rep.violation("R-TBLFRESH", key, loc(s), "read_table_metadata initialises the table attribute defaults (headerRowCount=1, totalsRowCount=0, insertRow=false) outside the per-table loop: a table that relies on the defaults inherits the previous table's values, so its data range gains its header row or loses its last row")


def r_counthint(ctx, rep):
    """xlsx: the `count` / `uniqueCount` attributes are hints; the merge-cell readers leave their loops
    only at the closing tag / end of input / error."""
    F = ctx.facts("default")
    n = 0
    for fname in ("xlsx::read_merge_cells", "xlsx::Xlsx::read_merged_regions", "xlsx::Xlsx::worksheet_merge_cells", "xlsx::Xlsx::read_shared_strings"):
        fn = F.fn(fname)
        if fn is None:
            rep.anchor_missing("R-COUNTHINT", fname)
            continue
        for em in event_matches(fn):
            if em["loop"] is None:
                continue
            n += 1
            idx = sum(1 for i in rep.instances if i["rule"] == "R-COUNTHINT" and i["key"].startswith(fname + "|"))
            key = "%s|R-COUNTHINT|loop#%d" % (fname, idx)
            bad = None
            for arm in em["match"]["arms"]:
                ev = _arm_event_variant(arm, em["wrapped"])
                if ev != "Start":
                    continue
                # a Start arm may leave the loop only unconditionally (the element itself ends the search)
                for b, anc in walk_anc(arm["body"]):
                    if b.get("k") in ("Break", "Ret") and not b["span"].get("desugar"):
                        if b.get("k") == "Break" and b.get("target") not in em["targets"]:
                            continue
                        conds = [a for a in anc if a.get("k") == "If"]
                        for c in conds:
                            if any(m["name"] in ("len", "capacity") for m in walk_k(c["cond"], "MethodCall")) or any(bb["op"] in ("<", "<=", ">", ">=") for bb in walk_k(c["cond"], "Binary")):
                                bad = (b, c)
                # ... and only an arm that names its element: `Start(_) if <flag>` leaving the loop cuts the search short for
                # every sheet that has other elements (sheetProtection, autoFilter, ..) in front of the one looked for
                if not guard_literals(arm) and arm.get("guard") is not None:
                    for b in walk_k(arm["body"], "Break", "Ret"):
                        if b["span"].get("desugar") or (b.get("k") == "Break" and b.get("target") not in em["targets"]):
                            continue
                        bad = (b, None)
            # exits of the loop that are not tied to an XML event (e.g. a `while n != len` header)
            in_match = {id(x) for x in walk(em["match"])}
            for b in walk_k(em["loop"], "Break"):
                if b.get("target") == em["loop"].get("id") and id(b) not in in_match:
                    bad = (b, None)
            cnt = [s for s in str_lits(fn.body) if s in ("count", "uniqueCount")]
            if bad:
                rep.violation("R-COUNTHINT", key, loc(bad[0]), "%s leaves its element loop early on a size comparison: a declared count (or any cap) smaller than the real number of entries truncates the list; the loop must run to the closing tag" % fname)
            else:
                rep.holds("R-COUNTHINT", key, loc(em["match"]), "the loop ends only at the closing tag / end of input / error%s" % ("" if not cnt else " (count attribute read but not steering the loop)"), nontrivial=True)
    if n < 4:
        rep.anchor_missing("R-COUNTHINT", "element loops of the merge-cell / shared-string readers (found %d)" % n)


# ----------------------------------------------------------------------------------------------
# R-CHASE


def r_chase(ctx, rep):
    """Self-chasing loops are bounded: a `while` loop whose condition only compares a variable v with
    constants, and whose body re-defines v from data selected by v itself (v = T[v], v = f(.., v, ..)),
    needs another exit that depends on something monotone (a counter, a visited set, the output length
    against a limit).  Otherwise a cyclic chain in the file makes the loop run forever while it grows
    its output."""
    F = ctx.facts("default")
    n = 0
    for fn in F.user_fns():
        if fn.file not in ("src/cfb.rs", "src/vba.rs", "src/xls.rs", "src/xlsb/mod.rs", "src/xlsx/mod.rs", "src/ods.rs"):
            continue
        inits = {}
        for x in walk(fn.body):
            if x.get("k") == "Let" and x.get("init") is not None:
                for nm, lid in pat_bindings(x["pat"]):
                    inits[lid] = x["init"]
        k = 0
        for lp in walk_k(fn.body, "Loop"):
            if lp.get("src") not in ("while", "loop", None):
                continue
            # desugared: loop { if cond { body } else { break } }
            blk = lp["body"]
            top = unwrap(blk.get("expr") or (blk["stmts"][0].get("e") if blk.get("stmts") else {}))
            if not isinstance(top, dict) or top.get("k") != "If":
                continue
            cond, body = top["cond"], top["then"]
            if lp.get("src") != "while":
                # the same walk spelt `loop { if <end reached> { break } .. }`: the rest of the body is the `else` side (the
                # early exit was nested at load) or the statements that follow
                tb = [x for x in walk(top["then"]) if isinstance(x, dict) and x.get("k") in ("Break", "Ret", "Continue")]
                if not (tb and all(x.get("k") == "Break" for x in tb) and not any(x.get("k") in ("Assign", "MethodCall", "Call") for x in walk(top["then"]) if isinstance(x, dict))):
                    continue
                rest = [st_ for st_ in blk.get("stmts", [])[1:]] if blk.get("stmts") and unwrap(blk["stmts"][0].get("e") or {}) is top else []
                if top.get("els") is not None:
                    body = top["els"]
                elif rest or blk.get("expr") is not None:
                    body = {"k": "BlockExpr", "span": lp.get("span"), "block": {"k": "Block", "span": lp.get("span"), "stmts": rest, "expr": blk.get("expr") if unwrap(blk.get("expr") or {}) is not top else None}}
                else:
                    continue
            cvars = {p["res"]["lid"]: p["res"]["local"] for p in walk_k(cond, "Path") if "local" in p.get("res", {})}
            cond_calls = any(m.get("k") in ("MethodCall", "Call") for m in walk(cond))
            if not cvars:
                continue
            if cond_calls and len(cvars) == 1 and not any(a for a in walk_k(body, "Assign") if path_local(a["l"]) and path_local(a["l"])[1] in cvars):
                continue   # conditions like `!rgce.is_empty()` / `i < s.len()`: not a walk over a chained variable
            for vlid, vname in sorted(cvars.items()):
                # assignments to v in the body that depend on v (directly, or through a container the body fills using v)
                assigns = [a for a in walk_k(body, "Assign") if path_local(a["l"]) and path_local(a["l"])[1] == vlid]
                if not assigns:
                    continue
                fed_by_v = set()
                for c in walk_k(body, "MethodCall", "Call"):
                    if any(p.get("res", {}).get("lid") == vlid for p in walk_k(c, "Path")):
                        rp = peel(c["recv"]) if c.get("k") == "MethodCall" else None
                        if isinstance(rp, dict) and rp.get("k") == "Path" and path_local(rp):
                            fed_by_v.add(path_local(rp)[1])
                dep = False
                for a in assigns:
                    used = {p["res"]["lid"] for p in walk_k(a["r"], "Path") if "local" in p.get("res", {})}
                    via_data = any(any(p.get("res", {}).get("lid") == vlid for p in walk_k(ix["idx"], "Path")) for ix in walk_k(a["r"], "Index")) or \
                        any(any(p.get("res", {}).get("lid") == vlid for p in walk_k(c, "Path")) for c in walk_k(a["r"], "MethodCall", "Call") if not (callee(c) or "").startswith("core::num"))
                    if via_data or used & fed_by_v:
                        dep = True
                if not dep:
                    continue
                n += 1
                k += 1
                key = "%s|R-CHASE|while#%d" % (fn.name, k)
                # any other exit: break / return (not `?`) inside the body, or the condition also depends on a second
                # variable that the body updates (a counter, a visited set) or on a call (a length against a limit)
                exits = [b for b in walk(body) if b.get("k") in ("Break", "Ret") and not b["span"].get("desugar")]
                others = [nm for lid, nm in cvars.items() if lid != vlid and any(path_local(a["l"]) and path_local(a["l"])[1] == lid for a in list(walk_k(body, "Assign")) + list(walk_k(body, "AssignOp")))]
                if exits:
                    rep.holds("R-CHASE", key, loc(lp), "the chain walk over `%s` has an additional exit at %s" % (vname, loc(exits[0])))
                elif others or cond_calls:
                    rep.holds("R-CHASE", key, loc(lp), "the chain walk over `%s` is also bounded by its condition (%s)" % (vname, ", ".join("`%s`" % o for o in others) or "a call in the condition"))
                else:
                    rep.violation("R-CHASE", key, loc(lp), "%s: `while` loop over `%s` re-defines `%s` from data selected by `%s` itself and has no other exit: a cyclic chain in the file makes it run forever (and grow its output until memory is exhausted)" % (fn.name, vname, vname, vname))
    if n < 2:
        rep.anchor_missing("R-CHASE", "self-chasing while loops (the two CFB chain walks); found %d" % n)
