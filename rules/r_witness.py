"""Type-level witnesses (DESIGN.md 2.3): compile_fail doc-tests with compiling twins, run with nightly so
that the expected error code is checked."""
import os
import re
import shutil
import subprocess

from .extract import VERIF, CACHE


def r_witness(ctx, rep):
    wdir = os.path.join(VERIF, "witness")
    if os.path.abspath(ctx.repo) != "/repo":
        rep.notes.append("witness crate path-depends on /repo; skipped for --repo %s" % ctx.repo)
        return
    try:
        shutil.copy(os.path.join(ctx.repo, "Cargo.lock"), os.path.join(wdir, "Cargo.lock"))
    except OSError:
        pass
    env = dict(os.environ, CARGO_NET_OFFLINE="true", CARGO_TARGET_DIR=os.path.join(CACHE, "target-witness"))
    env.pop("RUSTC_WORKSPACE_WRAPPER", None)
    r = subprocess.run(["cargo", "+nightly", "test", "--doc", "--offline"], cwd=wdir, env=env, stdout=subprocess.PIPE, stderr=subprocess.STDOUT, text=True)
    tests = re.findall(r"^test (src/lib\.rs - (\w+) \(line \d+\)( - compile fail)?) \.\.\. (\w+)", r.stdout, re.M)
    if not tests:
        rep.violation("R-WITNESS", "witness|R-WITNESS|build", "witness/", "the witness crate did not build or ran no doc-tests:\n" + r.stdout[-1500:])
        return
    by = {}
    for full, name, cf, res in tests:
        by.setdefault(name, []).append((bool(cf), res, full))
    for name, lst in sorted(by.items()):
        key = "witness|R-WITNESS|%s" % name
        cfs = [x for x in lst if x[0]]
        twins = [x for x in lst if not x[0]]
        if cfs and twins and all(x[1] == "ok" for x in lst):
            rep.holds("R-WITNESS", key, "witness/src/lib.rs", "%s: the violating program fails to compile with the expected error code and its twin (differing only in the offending line) compiles" % name)
        else:
            rep.violation("R-WITNESS", key, "witness/src/lib.rs", "%s: %s" % (name, ", ".join("%s -> %s" % (x[2], x[1]) for x in lst)))
    if len(by) < 4:
        rep.anchor_missing("R-WITNESS", "four witness pairs (found %d)" % len(by))
